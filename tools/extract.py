#!/usr/bin/env python3
"""
Translator: /repo/src/*.rs  ->  /verif/lean/SJ/Gen/*.lean   (run at the start of every check)

Everything in the source that is *data* — constants, tables, literal sets, match arms that map one
enum to another — is copied mechanically into Lean definitions; the theorems in SJ/Props are then
re-checked against what the code says now. A construct that can no longer be found is reported as
`MISSING <key> …` (the checks of the properties that consume that key then report a broken tie).
Files are rewritten only when their content changes, so unchanged sources cost no rebuild.
"""
import re, os, sys

REPO = os.environ.get("VERIF_REPO", "/repo")
OUT = os.path.join(os.path.dirname(os.path.abspath(__file__)), "..", "lean", "SJ", "Gen")
missing = []


def src(name):
    with open(os.path.join(REPO, "src", name), encoding="utf-8") as f:
        return f.read()


def miss(key, why):
    missing.append((key, why))


def lean_bytes(b):
    return "[" + ", ".join("0x%02x" % x for x in b) + "]"


def rust_str_bytes(lit):
    """bytes of a Rust string/char literal body (handles the escapes that occur in this crate)"""
    out = bytearray()
    i = 0
    while i < len(lit):
        c = lit[i]
        if c == "\\":
            n = lit[i + 1]
            m = {"n": 10, "t": 9, "r": 13, "\\": 92, '"': 34, "'": 39, "0": 0}
            if n == "x":
                out.append(int(lit[i + 2:i + 4], 16)); i += 4; continue
            if n == "u":
                j = lit.index("}", i)
                out += chr(int(lit[i + 3:j], 16)).encode(); i = j + 1; continue
            out.append(m[n]); i += 2; continue
        out += c.encode(); i += 1
    return bytes(out)


def fn_body(text, header_re):
    """source text of the function whose header matches header_re (balanced braces; braces inside
    string, byte-string and char literals and in comments are not counted)"""
    m = re.search(header_re, text)
    if not m: return None
    i = text.index("{", m.end() - 1)
    depth, j, n = 0, i, len(text)
    while j < n:
        c = text[j]
        if c == '"':
            j += 1
            while text[j] != '"':
                j += 2 if text[j] == "\\" else 1
            j += 1; continue
        if c == "'":
            mm = re.match(r"'(?:[^'\\]|\\.[^']*)'", text[j:])
            if mm: j += mm.end(); continue
        if text.startswith("//", j):
            while j < n and text[j] != "\n": j += 1
            continue
        if c == "{": depth += 1
        elif c == "}":
            depth -= 1
            if depth == 0: break
        j += 1
    return text[i:j + 1]


# ------------------------------------------------------------------ value/mod.rs (C18)
def gen_pointer(lines):
    t = src("value/mod.rs")
    for fn in ("pointer", "pointer_mut"):
        body = fn_body(t, r"pub fn %s\b[^{]*\{" % fn)
        reps = re.findall(r'\.replace\(\s*"((?:[^"\\]|\\.)*)"\s*,\s*"((?:[^"\\]|\\.)*)"\s*\)', body or "")
        if body is None or not reps:
            miss("pointer." + fn, "no .replace(..) chain found in Value::%s" % fn); reps = []
        name = "ptrReplace" if fn == "pointer" else "ptrMutReplace"
        lines.append("/-- the `.replace(a, b)` chain of `Value::%s`, in source order -/" % fn)
        lines.append("def %s : List (List UInt8 × List UInt8) := [%s]" % (
            name, ", ".join("(%s, %s)" % (lean_bytes(rust_str_bytes(a)), lean_bytes(rust_str_bytes(b))) for a, b in reps)))
        sp = re.search(r"\.split\(\s*'((?:[^'\\]|\\.)*)'\s*\)\s*\.skip\(\s*(\d+)\s*\)", body or "")
        if not sp: miss("pointer." + fn + ".split", "split(c).skip(n) not found")
        c, n = (rust_str_bytes(sp.group(1))[0], int(sp.group(2))) if sp else (0, 0)
        lines.append("def %sSplit : UInt8 × Nat := (0x%02x, %d)" % (name, c, n))
        st = re.search(r"!\s*pointer\.starts_with\(\s*'((?:[^'\\]|\\.)*)'\s*\)", body or "")
        if not st: miss("pointer." + fn + ".starts_with", "leading-slash guard not found")
        lines.append("def %sLead : UInt8 := 0x%02x" % (name, rust_str_bytes(st.group(1))[0] if st else 0))
    body = fn_body(t, r"fn parse_index\b[^{]*\{")
    m = re.search(r"s\.starts_with\('(.)'\)\s*\|\|\s*\(\s*s\.starts_with\('(.)'\)\s*&&\s*s\.len\(\)\s*!=\s*(\d+)\s*\)", body or "")
    if not m or not re.search(r"s\.parse\(\)\.ok\(\)", body or ""):
        miss("pointer.parse_index", "guard `starts_with('+') || (starts_with('0') && len != 1)` / `s.parse().ok()` not found")
        g = (0, 0, 0)
    else:
        g = (ord(m.group(1)), ord(m.group(2)), int(m.group(3)))
    lines.append("/-- `parse_index`: (rejected first byte, leading-zero byte, the only length a leading zero may have) -/")
    lines.append("def parseIndexGuard : UInt8 × UInt8 × Nat := (0x%02x, 0x%02x, %d)" % g)


# ------------------------------------------------------------------ error.rs (C09–C13)
def gen_error(lines):
    t = src("error.rs")
    m = re.search(r"pub\(crate\) enum ErrorCode \{(.*?)\n\}", t, re.S)
    if not m: miss("error.enum", "enum ErrorCode not found"); return
    variants = re.findall(r"^\s{4}([A-Z]\w*)(\([^)]*\))?,", m.group(1), re.M)
    plain = [v for v, a in variants if not a]
    lines.append("/-- `ErrorCode` variants without payload, in source order -/")
    lines.append("inductive Code where")
    for v in plain: lines.append("  | " + v)
    lines.append("deriving DecidableEq, Repr, Inhabited")
    lines.append("")
    lines.append("inductive Cat where | io | syntax | data | eof deriving DecidableEq, Repr")
    lines.append("")
    body = fn_body(t, r"pub fn classify\(&self\) -> Category\s*\{")
    arms = re.findall(r"((?:ErrorCode::\w+(?:\([^)]*\))?\s*\|?\s*)+)=>\s*Category::(\w+)", body or "")
    cls = {}
    for lhs, cat in arms:
        for v in re.findall(r"ErrorCode::(\w+)", lhs): cls[v] = cat.lower()
    lines.append("/-- `Error::classify`, arm by arm -/")
    lines.append("def classify : Code → Cat")
    for v in plain:
        if v not in cls: miss("error.classify." + v, "no classify arm"); cls[v] = "syntax"
        lines.append("  | .%s => .%s" % (v, cls[v]))
    lines.append("")
    disp = fn_body(t, r"impl Display for ErrorCode \{")
    msgs = dict(re.findall(r'ErrorCode::(\w+)\s*=>\s*\{?\s*f\.write_str\(\s*"((?:[^"\\]|\\.)*)"\s*\)', disp or ""))
    lines.append("/-- `Display for ErrorCode` messages (bytes) -/")
    lines.append("def message : Code → List UInt8")
    for v in plain:
        if v not in msgs: miss("error.message." + v, "no Display arm"); msgs[v] = v
        lines.append("  | .%s => %s" % (v, lean_bytes(rust_str_bytes(msgs[v]))))
    lines.append("")
    lines.append("def allCodes : List Code := [%s]" % ", ".join("." + v for v in plain))
    # `impl From<Error> for io::Error`: an Io error gives back the inner io::Error; the other categories map to an ErrorKind
    body = fn_body(t, r"impl From<Error> for io::Error \{")
    inner = re.search(r"if let ErrorCode::Io\(err\) = j\.err\.code \{\s*err\s*\} else \{", body or "")
    if not inner: miss("error.into_io.inner", "`if let ErrorCode::Io(err) = j.err.code { err } else {` not found")
    arms = re.findall(r"((?:Category::\w+\s*\|?\s*)+)=>\s*io::Error::new\(ErrorKind::(\w+), j\)", body or "")
    kinds = {}
    for lhs, kind in arms:
        for c in re.findall(r"Category::(\w+)", lhs): kinds[c.lower()] = kind
    lines.append("")
    lines.append("/-- `impl From<Error> for io::Error`: the `ErrorKind` given to a non-Io error, by category (an Io error returns the")
    lines.append("    wrapped `io::Error` itself, kind unchanged: `%s`) -/" % ("if let ErrorCode::Io(err) = j.err.code { err }" if inner else "NOT FOUND"))
    lines.append("def intoIoKind : Cat → Option (List UInt8)")
    for c in ["syntax", "data", "eof"]:
        if c not in kinds: miss("error.into_io." + c, "no arm for Category::%s" % c)
        lines.append("  | .%s => %s" % (c, ("some " + lean_bytes(kinds[c].encode())) if c in kinds else "none"))
    lines.append("  | .io => none")
    lines.append("def intoIoKeepsInner : Bool := %s" % ("true" if inner else "false"))


# ------------------------------------------------------------------ de.rs constants (C01 C10–C14)
def gen_de(lines):
    t = src("de.rs")
    m = re.search(r"remaining_depth:\s*(\d+)", t)
    if not m: miss("de.remaining_depth", "initial remaining_depth not found")
    lines.append("/-- `remaining_depth` initial value in `Deserializer::new` -/")
    lines.append("def remainingDepthInit : Nat := %s" % (m.group(1) if m else "0"))
    body = fn_body(t, r"fn parse_whitespace\(&mut self\)[^{]*\{")
    m = re.search(r"Some\(((?:b'(?:[^'\\]|\\.)'\s*\|?\s*)+)\)\s*=>\s*\{\s*self\.eat_char\(\);", body or "")
    ws = [rust_str_bytes(x)[0] for x in re.findall(r"b'((?:[^'\\]|\\.))'", m.group(1))] if m else []
    if not ws: miss("de.ws", "whitespace set of parse_whitespace not found")
    lines.append("/-- bytes skipped by `parse_whitespace` -/")
    lines.append("def wsBytes : List UInt8 := %s" % lean_bytes(ws))
    body = fn_body(t, r"fn peek_end_of_value\(&mut self\)[^{]*\{")
    m = re.search(r"Some\(((?:b'(?:[^'\\]|\\.)'\s*\|?\s*)+)\)\s*\|\s*None\s*=>\s*Ok", body or "")
    dl = [rust_str_bytes(x)[0] for x in re.findall(r"b'((?:[^'\\]|\\.))'", m.group(1))] if m else []
    if not dl: miss("de.delims", "delimiter set of peek_end_of_value not found")
    lines.append("/-- bytes that may follow a bare scalar in a stream (`peek_end_of_value`) -/")
    lines.append("def streamDelims : List UInt8 := %s" % lean_bytes(dl))
    m = re.search(r"let self_delineated_value = match b \{\s*((?:b'(?:[^'\\]|\\.)'\s*\|?\s*)+)=>\s*true", t)
    sd = [rust_str_bytes(x)[0] for x in re.findall(r"b'((?:[^'\\]|\\.))'", m.group(1))] if m else []
    if not sd: miss("de.selfdelim", "self_delineated_value set not found")
    lines.append("def selfDelineated : List UInt8 := %s" % lean_bytes(sd))
    m = re.search(r"macro_rules! overflow \{\s*\(\$a:ident \* 10 \+ \$b:ident, \$c:expr\) => \{\s*match \$c \{\s*c => (.*?),\s*\}", t, re.S)
    ov = re.sub(r"\s+", " ", m.group(1)) if m else ""
    if ov != "$a >= c / 10 && ($a > c / 10 || $b > c % 10)":
        miss("de.overflow", "overflow! macro body differs from the transcribed one: %r" % ov)
    lines.append("/-- body of `overflow!($a * 10 + $b, $c)` as written (whitespace-normalised) -/")
    lines.append('def overflowMacroBody : String := "%s"' % ov)
    for lit, key in (("ull", "identNull"), ("rue", "identTrue"), ("alse", "identFalse")):
        ok = re.search(r'parse_ident\(b"%s"\)' % lit, t)
        if not ok: miss("de.ident." + key, "parse_ident(b\"%s\") not found" % lit)
        lines.append("def %s : List UInt8 := %s" % (key, lean_bytes(lit.encode() if ok else b"")))


def strip_rust_comments(t):
    """drop // comments (the crate has no `//` inside the literals we look at) and /* */ blocks"""
    t = re.sub(r"/\*.*?\*/", "", t, flags=re.S)
    return re.sub(r"//[^\n]*", "", t)


def byte_lit(tok):
    """value of a Rust u8 expression that is a literal: b'x', b'\\n', 0x20, 32, 0"""
    tok = tok.strip()
    m = re.fullmatch(r"b'((?:[^'\\]|\\.|\\x[0-9a-fA-F]{2})+)'", tok)
    if m: return rust_str_bytes(m.group(1))[0]
    m = re.fullmatch(r"(0x[0-9a-fA-F_]+|[0-9_]+)(?:u8|usize|i16|i32)?", tok)
    if m: return int(m.group(1).replace("_", ""), 0)
    raise ValueError("not a byte literal: %r" % tok)


# ------------------------------------------------------------------ ser.rs string escaping (C05, C03, C13)
def gen_escape(lines):
    t = src("ser.rs")
    tc = strip_rust_comments(t)
    # --- symbol constants `const BB: u8 = b'b';`
    syms = {}
    for m in re.finditer(r"^const\s+(\w+)\s*:\s*u8\s*=\s*([^;]+);", tc, re.M):
        try: syms[m.group(1)] = byte_lit(m.group(2))
        except ValueError: pass
    # --- the table
    m = re.search(r"static\s+ESCAPE\s*:\s*\[\s*u8\s*;\s*(\d+)\s*\]\s*=\s*\[(.*?)\];", tc, re.S)
    table = []
    if not m:
        miss("escape.table", "static ESCAPE: [u8; N] = [...] not found")
    else:
        toks = [x.strip() for x in m.group(2).split(",") if x.strip()]
        for x in toks:
            if x in syms: table.append(syms[x])
            else:
                try: table.append(byte_lit(x))
                except ValueError:
                    miss("escape.table", "entry %r is neither a known symbol nor a literal" % x); table.append(0)
        if len(table) != int(m.group(1)):
            miss("escape.table", "declared length %s but %d entries" % (m.group(1), len(table)))
    used = [k for k in syms if m and re.search(r"\b%s\b" % re.escape(k), m.group(2))]
    lines.append("/-! ## `src/ser.rs`: string escaping -/")
    lines.append("/-- the table symbols as defined by `const XX: u8 = …;` (those that occur in `ESCAPE`) -/")
    lines.append("def escapeSymbols : List (String × UInt8) := [%s]" % ", ".join('("%s", 0x%02x)' % (k, syms[k]) for k in used))
    lines.append("/-- `static ESCAPE: [u8; 256]`, entry `i` = the symbol's byte value for input byte `i` -/")
    lines.append("def escapeTable : List UInt8 := [")
    for r in range(0, len(table), 16):
        lines.append("  " + ", ".join("0x%02x" % x for x in table[r:r + 16]) + ("," if r + 16 < len(table) else ""))
    lines.append("]")
    # --- enum CharEscape
    em = re.search(r"pub\s+enum\s+CharEscape\s*\{(.*?)\n\}", tc, re.S)
    variants = []
    if not em: miss("escape.enum", "pub enum CharEscape not found")
    else:
        for vm in re.finditer(r"^\s*(\w+)\s*(\(\s*u8\s*\))?\s*,", em.group(1), re.M):
            variants.append((vm.group(1), bool(vm.group(2))))
    lines.append("/-- `pub enum CharEscape`, variants in source order -/")
    lines.append("inductive CharEscape where")
    for v, pay in variants:
        lines.append("  | %s%s" % (v, " (byte : UInt8)" if pay else ""))
    if not variants: lines.append("  | missing")
    lines.append("deriving DecidableEq, Repr")
    vset = dict(variants)
    # --- from_escape_table arms
    body = fn_body(tc, r"fn from_escape_table\b[^{]*\{")
    arms = []
    wildcard = None
    if body is None: miss("escape.from_escape_table", "function not found")
    else:
        for am in re.finditer(r"(?:self::)?(\w+)\s*=>\s*CharEscape::(\w+)\s*(\(\s*byte\s*\))?\s*,", body):
            sym, var, pay = am.group(1), am.group(2), bool(am.group(3))
            if sym not in syms or var not in vset or vset[var] != pay:
                miss("escape.from_escape_table", "arm %s => %s not understood" % (sym, var)); continue
            arms.append((syms[sym], var, pay))
        wm = re.search(r"_\s*=>\s*(\w+!?)", body)
        wildcard = wm.group(1) if wm else None
        if wildcard != "unreachable!": miss("escape.from_escape_table", "wildcard arm is not unreachable!()")
        if not arms: miss("escape.from_escape_table", "no arms found")
    lines.append("/-- `CharEscape::from_escape_table(escape, byte)`: match arms in source order (symbol value, result);")
    lines.append("    the wildcard arm is `unreachable!()` -/")
    lines.append("def fromEscapeTableArms : List (UInt8 × (UInt8 → CharEscape)) := [%s]" % ", ".join(
        "(0x%02x, fun %s => .%s%s)" % (s_, "byte" if pay else "_", v, " byte" if pay else "") for s_, v, pay in arms))
    # --- write_char_escape
    body = fn_body(tc, r"fn write_char_escape\b[^{]*\{")
    fixed = {}
    prefix, hi_shift, lo_mask, hexd = [], None, None, []
    if body is None: miss("escape.write_char_escape", "function not found")
    else:
        for am in re.finditer(r"(\w+)\s*=>\s*b\"((?:[^\"\\]|\\.)*)\"\s*,", body):
            if am.group(1) in vset: fixed[am.group(1)] = rust_str_bytes(am.group(2))
        hm = re.search(r"static\s+HEX_DIGITS\s*:\s*\[\s*u8\s*;\s*16\s*\]\s*=\s*\*b\"((?:[^\"\\]|\\.)*)\"\s*;", body)
        if not hm: miss("escape.hex_digits", "static HEX_DIGITS: [u8; 16] = *b\"…\" not found")
        else: hexd = list(rust_str_bytes(hm.group(1)))
        bm = re.search(r"AsciiControl\s*\(\s*byte\s*\)\s*=>\s*\{.*?let\s+bytes\s*=\s*&\[(.*?)\]\s*;\s*return\s+writer\.write_all\(bytes\)", body, re.S)
        if not bm: miss("escape.ascii_control", "AsciiControl(byte) arm `let bytes = &[…]; return writer.write_all(bytes)` not found")
        else:
            elems = [x.strip() for x in bm.group(1).split(",") if x.strip()]
            tail = elems[-2:]
            try: prefix = [byte_lit(x) for x in elems[:-2]]
            except ValueError: miss("escape.ascii_control", "prefix elements are not byte literals: %r" % (elems[:-2],))
            h1 = re.fullmatch(r"HEX_DIGITS\[\(byte\s*>>\s*(\d+)\)\s*as\s+usize\]", tail[0]) if len(tail) == 2 else None
            h2 = re.fullmatch(r"HEX_DIGITS\[\(byte\s*&\s*(0x[0-9a-fA-F]+|\d+)\)\s*as\s+usize\]", tail[1]) if len(tail) == 2 else None
            if not h1 or not h2: miss("escape.ascii_control", "last two elements are not HEX_DIGITS[(byte >> s)] , HEX_DIGITS[(byte & m)]")
            else: hi_shift, lo_mask = int(h1.group(1)), int(h2.group(1), 0)
        for v, pay in variants:
            if not pay and v not in fixed: miss("escape.write_char_escape", "no byte string for variant %s" % v)
    lines.append("/-- `Formatter::write_char_escape`: the byte string written for each payload-free variant -/")
    lines.append("def writeCharEscapeFixed : CharEscape → Option (List UInt8)")
    for v, pay in variants:
        if pay: lines.append("  | .%s _ => none" % v)
        else: lines.append("  | .%s => some %s" % (v, lean_bytes(fixed.get(v, b""))))
    if not variants: lines.append("  | .missing => none")
    lines.append("/-- `AsciiControl(byte)`: `[prefix…, HEX_DIGITS[byte >> hiShift], HEX_DIGITS[byte & loMask]]` -/")
    lines.append("def asciiControlPrefix : List UInt8 := %s" % lean_bytes(prefix))
    lines.append("def asciiControlHiShift : Nat := %d" % (hi_shift if hi_shift is not None else 0))
    lines.append("def asciiControlLoMask : UInt8 := 0x%02x" % (lo_mask if lo_mask is not None else 0))
    lines.append("def hexDigits : List UInt8 := %s" % lean_bytes(hexd))
    for fn, nm in (("begin_string", "beginString"), ("end_string", "endString")):
        b = fn_body(tc, r"fn %s\b[^{]*\{" % fn)
        wm = re.search(r"writer\.write_all\(\s*b\"((?:[^\"\\]|\\.)*)\"\s*\)", b or "")
        if not wm: miss("escape." + fn, "writer.write_all(b\"…\") not found")
        lines.append("/-- `Formatter::%s` -/" % fn)
        lines.append("def %s : List UInt8 := %s" % (nm, lean_bytes(rust_str_bytes(wm.group(1)) if wm else b"")))
    # the loop of format_escaped_str_contents is transcribed by hand (SJ/Model/Escape.lean); the constants it uses:
    body = fn_body(tc, r"fn format_escaped_str_contents\b[^{]*\{")
    zm = re.search(r"if\s+escape\s*==\s*(\d+)\s*\{\s*continue;", body or "")
    if not zm: miss("escape.contents", "`if escape == 0 { continue; }` not found")
    lines.append("/-- `if escape == 0 { continue; }` in `format_escaped_str_contents` -/")
    lines.append("def escapeNone : UInt8 := %d" % (int(zm.group(1)) if zm else 0))


# ------------------------------------------------------------------ read.rs hex decoding (C05)
def gen_hex(lines):
    t = strip_rust_comments(src("read.rs"))
    lines.append("/-! ## `src/read.rs`: `decode_four_hex_digits`, `HEX0`, `HEX1` -/")
    body = fn_body(t, r"const fn decode_hex_val_slow\b[^{]*\{")
    ranges = []
    if body is None: miss("hex.decode_hex_val_slow", "function not found")
    else:
        for am in re.finditer(r"(b'[^']+')\s*\.\.=\s*(b'[^']+')\s*=>\s*Some\(\s*val\s*-\s*(b'[^']+')\s*(?:\+\s*(\d+))?\s*\)\s*,", body):
            ranges.append((byte_lit(am.group(1)), byte_lit(am.group(2)), byte_lit(am.group(3)), int(am.group(4) or 0)))
        n_arms = len(re.findall(r"=>", body))
        if not re.search(r"_\s*=>\s*None", body) or n_arms != len(ranges) + 1 or not ranges:
            miss("hex.decode_hex_val_slow", "arms are not `lo..=hi => Some(val - base [+ k])` … `_ => None`")
    lines.append("/-- `decode_hex_val_slow`: arms `lo..=hi => Some(val - base + add)` in source order as (lo, hi, base, add); `_ => None` -/")
    lines.append("def hexRanges : List (UInt8 × UInt8 × UInt8 × Nat) := [%s]" % ", ".join("(0x%02x, 0x%02x, 0x%02x, %d)" % r for r in ranges))
    body = fn_body(t, r"const fn build_hex_table\b[^{]*\{")
    sm = re.search(r"Some\(val\)\s*=>\s*\(val\s+as\s+i16\)\s*<<\s*shift\s*,\s*None\s*=>\s*(-?\d+)\s*,", body or "")
    zm = re.search(r"let\s+mut\s+table\s*=\s*\[\s*0\s*;\s*(\d+)\s*\]", body or "")
    wm = re.search(r"while\s+ch\s*<\s*(\d+)", body or "")
    if not sm or not zm or not wm or zm.group(1) != wm.group(1):
        miss("hex.build_hex_table", "`Some(val) => (val as i16) << shift, None => K` / `[0; N]` / `while ch < N` not found")
    sentinel = int(sm.group(1)) if sm else 0
    size = int(zm.group(1)) if zm else 0
    shifts = {}
    for nm in ("HEX0", "HEX1"):
        hm = re.search(r"static\s+%s\s*:\s*\[\s*i16\s*;\s*(\d+)\s*\]\s*=\s*build_hex_table\(\s*(\d+)\s*\)\s*;" % nm, t)
        if not hm or int(hm.group(1)) != size: miss("hex." + nm, "static %s: [i16; N] = build_hex_table(k) not found" % nm)
        shifts[nm] = int(hm.group(2)) if hm else 0
    lines.append("/-- `build_hex_table`: table size, the `None` sentinel, and the shift arguments of `HEX0` / `HEX1` -/")
    lines.append("def hexTableSize : Nat := %d" % size)
    lines.append("def hexSentinel : Int := %s" % (("(%d)" % sentinel) if sentinel < 0 else str(sentinel)))
    lines.append("def hexShift0 : Nat := %d" % shifts["HEX0"])
    lines.append("def hexShift1 : Nat := %d" % shifts["HEX1"])

    def table(shift):
        out = []
        for ch in range(size):
            v = None
            for lo, hi, base, add in ranges:
                if lo <= ch <= hi: v = ch - base + add; break
            x = sentinel if v is None else (v << shift)
            x = ((x + 0x8000) & 0xFFFF) - 0x8000      # i16
            out.append(x)
        return out
    for nm, ln in (("HEX0", "hex0"), ("HEX1", "hex1")):
        tb = table(shifts[nm])
        lines.append("/-- `static %s` as computed by the translator from the pieces above (re-derived in Lean: `Proofs.Hex.hex_tables_built`) -/" % nm)
        lines.append("def %s : List Int := [" % ln)
        for r in range(0, len(tb), 16):
            lines.append("  " + ", ".join(("(%d)" % x) if x < 0 else str(x) for x in tb[r:r + 16]) + ("," if r + 16 < len(tb) else ""))
        lines.append("]")
    body = fn_body(t, r"fn decode_four_hex_digits\b[^{]*\{")
    use = []
    for v in "abcd":
        um = re.search(r"let\s+%s\s*=\s*HEX([01])\[\s*%s\s+as\s+usize\s*\]\s*as\s+i32\s*;" % (v, v), body or "")
        if not um: miss("hex.decode_four_hex_digits", "`let %s = HEXk[%s as usize] as i32;` not found" % (v, v))
        use.append(int(um.group(1)) if um else 0)
    cm = re.search(r"let\s+codepoint\s*=\s*\(\(a\s*\|\s*b\)\s*<<\s*(\d+)\)\s*\|\s*c\s*\|\s*d\s*;", body or "")
    gm = re.search(r"if\s+codepoint\s*>=\s*0\s*\{\s*Some\(codepoint\s+as\s+u16\)\s*\}\s*else\s*\{\s*None\s*\}", body or "")
    if not cm or not gm: miss("hex.decode_four_hex_digits", "`((a | b) << k) | c | d` / `if codepoint >= 0 { Some(codepoint as u16) } else { None }` not found")
    lines.append("/-- `decode_four_hex_digits`: which table each argument is looked up in, and the `<< k` of `((a | b) << k) | c | d` -/")
    lines.append("def hexArgTables : List Nat := [%s]" % ", ".join(str(x) for x in use))
    lines.append("def hexHighShift : Nat := %d" % (int(cm.group(1)) if cm else 0))


# ------------------------------------------------------------------ read.rs SWAR scanner (C05, C14)
def gen_swar(lines):
    t = strip_rust_comments(src("read.rs"))
    lines.append("/-! ## `src/read.rs`: `is_escape`, `SliceRead::skip_to_escape`, `skip_to_escape_slow` -/")
    body = fn_body(t, r"fn is_escape\b[^{]*\{")
    m = re.search(r"ch\s*==\s*(b'[^']+')\s*\|\|\s*ch\s*==\s*(b'(?:\\.|[^'])+')\s*\|\|\s*\(\s*including_control_characters\s*&&\s*ch\s*<\s*(\w+)\s*\)", body or "")
    if not m: miss("swar.is_escape", "`ch == b'\"' || ch == b'\\\\' || (including_control_characters && ch < 0x20)` not found")
    q, b, c = (byte_lit(m.group(1)), byte_lit(m.group(2)), byte_lit(m.group(3))) if m else (0, 0, 0)
    lines.append("/-- `is_escape(ch, incl)`: `ch == A || ch == B || (incl && ch < C)` -/")
    lines.append("def isEscapeA : UInt8 := 0x%02x" % q)
    lines.append("def isEscapeB : UInt8 := 0x%02x" % b)
    lines.append("def isEscapeCtrlBound : UInt8 := 0x%02x" % c)
    body = fn_body(t, r"fn skip_to_escape\b[^{]*\{") or ""
    if not body: miss("swar.skip_to_escape", "function not found")
    mm = re.search(r"memchr::memchr2\(\s*(b'(?:\\.|[^'])+')\s*,\s*(b'(?:\\.|[^'])+')\s*,\s*rest\s*\)\s*\.unwrap_or\(\s*rest\.len\(\)\s*\)", body)
    if not mm: miss("swar.memchr2", "memchr::memchr2(b'\"', b'\\\\', rest).unwrap_or(rest.len()) not found")
    lines.append("/-- the needles of `memchr::memchr2(A, B, rest)` (branch `!forbid_control_characters`) -/")
    lines.append("def memchr2A : UInt8 := 0x%02x" % (byte_lit(mm.group(1)) if mm else 0))
    lines.append("def memchr2B : UInt8 := 0x%02x" % (byte_lit(mm.group(2)) if mm else 0))
    cm = re.search(r'#\[cfg\(fast_arithmetic\s*=\s*"64"\)\]\s*type\s+Chunk\s*=\s*u(\d+)\s*;', body)
    if not cm: miss("swar.chunk", '#[cfg(fast_arithmetic = "64")] type Chunk = uN not found')
    bits = int(cm.group(1)) if cm else 0
    st = re.search(r"const\s+STEP\s*:\s*usize\s*=\s*mem::size_of::<Chunk>\(\)\s*;", body)
    ob = re.search(r"const\s+ONE_BYTES\s*:\s*Chunk\s*=\s*Chunk::MAX\s*/\s*(\d+)\s*;", body)
    if not st: miss("swar.step", "const STEP: usize = mem::size_of::<Chunk>() not found")
    if not ob: miss("swar.one_bytes", "const ONE_BYTES: Chunk = Chunk::MAX / 255 not found")
    lines.append("/-- `type Chunk = u64` (fast_arithmetic = \"64\"), `STEP = size_of::<Chunk>()`, `ONE_BYTES = Chunk::MAX / d` -/")
    lines.append("def swarChunkBits : Nat := %d" % bits)
    lines.append("def swarStep : Nat := %d" % (bits // 8))
    lines.append("def swarOneBytesDiv : Nat := %d" % (int(ob.group(1)) if ob else 1))
    if not re.search(r"for\s+chunk\s+in\s+rest\.chunks_exact\(\s*STEP\s*\)", body): miss("swar.loop", "for chunk in rest.chunks_exact(STEP) not found")
    if not re.search(r"Chunk::from_le_bytes\(", body): miss("swar.loop", "Chunk::from_le_bytes not found")
    e1 = re.search(r"let\s+contains_ctrl\s*=\s*chars\.wrapping_sub\(\s*ONE_BYTES\s*\*\s*(\w+)\s*\)\s*&\s*!chars\s*;", body)
    e2 = re.search(r"let\s+chars_quote\s*=\s*chars\s*\^\s*\(\s*ONE_BYTES\s*\*\s*Chunk::from\(\s*(b'(?:\\.|[^'])+')\s*\)\s*\)\s*;", body)
    e3 = re.search(r"let\s+contains_quote\s*=\s*chars_quote\.wrapping_sub\(\s*ONE_BYTES\s*\)\s*&\s*!chars_quote\s*;", body)
    e4 = re.search(r"let\s+chars_backslash\s*=\s*chars\s*\^\s*\(\s*ONE_BYTES\s*\*\s*Chunk::from\(\s*(b'(?:\\.|[^'])+')\s*\)\s*\)\s*;", body)
    e5 = re.search(r"let\s+contains_backslash\s*=\s*chars_backslash\.wrapping_sub\(\s*ONE_BYTES\s*\)\s*&\s*!chars_backslash\s*;", body)
    e6 = re.search(r"let\s+masked\s*=\s*\(\s*contains_ctrl\s*\|\s*contains_quote\s*\|\s*contains_backslash\s*\)\s*&\s*\(\s*ONE_BYTES\s*<<\s*(\d+)\s*\)\s*;", body)
    e7 = re.search(r"masked\.trailing_zeros\(\)\s*as\s+usize\s*/\s*(\d+)", body)
    e8 = re.search(r"self\.index\s*\+=\s*rest\.len\(\)\s*/\s*STEP\s*\*\s*STEP\s*;\s*self\.skip_to_escape_slow\(\)\s*;", body)
    for nm, e in (("contains_ctrl", e1), ("chars_quote", e2), ("contains_quote", e3), ("chars_backslash", e4),
                  ("contains_backslash", e5), ("masked", e6), ("trailing_zeros", e7), ("tail", e8)):
        if not e: miss("swar." + nm, "expression of `%s` in skip_to_escape has changed shape" % nm)
    lines.append("/-- constants of the chunk test: `ONE_BYTES * ctrl`, `Chunk::from(quote)`, `Chunk::from(backslash)`,")
    lines.append("    `ONE_BYTES << highShift`, `trailing_zeros() / tzDiv` -/")
    lines.append("def swarCtrl : Nat := 0x%02x" % (byte_lit(e1.group(1)) if e1 else 0))
    lines.append("def swarQuote : UInt8 := 0x%02x" % (byte_lit(e2.group(1)) if e2 else 0))
    lines.append("def swarBackslash : UInt8 := 0x%02x" % (byte_lit(e4.group(1)) if e4 else 0))
    lines.append("def swarHighShift : Nat := %d" % (int(e6.group(1)) if e6 else 0))
    lines.append("def swarTzDiv : Nat := %d" % (int(e7.group(1)) if e7 else 1))
    body = fn_body(t, r"fn skip_to_escape_slow\b[^{]*\{") or ""
    sm = re.search(r"while\s+self\.index\s*<\s*self\.slice\.len\(\)\s*&&\s*!is_escape\(\s*self\.slice\[self\.index\]\s*,\s*(true|false)\s*\)\s*\{\s*self\.index\s*\+=\s*(\d+)\s*;", body)
    if not sm: miss("swar.slow", "`while self.index < self.slice.len() && !is_escape(self.slice[self.index], true) { self.index += 1; }` not found")
    lines.append("/-- `skip_to_escape_slow`: second argument of `is_escape` and the increment -/")
    lines.append("def slowInclCtrl : Bool := %s" % (sm.group(1) if sm else "false"))
    lines.append("def slowStep : Nat := %d" % (int(sm.group(2)) if sm else 0))


# one line per generator (keeps merges between branches trivial)
GENERATORS = []
GENERATORS.append(("Pointer", gen_pointer))
GENERATORS.append(("Error", gen_error))
GENERATORS.append(("De", gen_de))
GENERATORS.append(("Escape", gen_escape))
GENERATORS.append(("Hex", gen_hex))
GENERATORS.append(("Swar", gen_swar))
# ------------------------------------------------------------------ ser.rs formatters (C03, C13)
def gen_ser(lines):
    """the literal byte strings written by the `Formatter` trait's default methods (= CompactFormatter)
    and by `impl Formatter for PrettyFormatter`, method by method, in source order"""
    t = src("ser.rs")
    trait = fn_body(t, r"pub trait Formatter\s*\{")
    pretty = fn_body(t, r"impl<'a>\s*Formatter\s+for\s+PrettyFormatter<'a>\s*\{")
    if trait is None: miss("ser.trait", "`pub trait Formatter {` not found"); trait = ""
    if pretty is None: miss("ser.pretty", "`impl<'a> Formatter for PrettyFormatter<'a> {` not found"); pretty = ""
    LIT = r'b"((?:[^"\\]|\\.)*)"'

    def lits(block, fn, key):
        body = fn_body(block, r"fn %s<[^{]*\{" % fn)
        if body is None:
            miss(key, "method %s not found" % fn); return None, ""
        return [rust_str_bytes(x) for x in re.findall(LIT, body)], body

    def emit(name, doc, val):
        lines.append("/-- %s -/" % doc)
        lines.append("def %s : List UInt8 := %s" % (name, lean_bytes(val)))

    def single(block, pre, fn, name, doc, require=None):
        key = "ser.%s.%s" % (pre, fn)
        ls, body = lits(block, fn, key)
        if ls is None or len(ls) != 1 or len(re.findall(r"write_all\(", body)) != 1 or (require and not re.search(require, body)):
            if ls is not None: miss(key, "expected exactly one write_all(b\"…\") in %s" % fn)
            ls = [b""]
        emit(name, doc, ls[0])

    # --- default methods (CompactFormatter is `impl Formatter for CompactFormatter {}`)
    if not re.search(r"impl\s+Formatter\s+for\s+CompactFormatter\s*\{\s*\}", t):
        miss("ser.compact", "`impl Formatter for CompactFormatter {}` (no overrides) not found")
    single(trait, "default", "write_null", "serNull", "`Formatter::write_null`")
    ls, body = lits(trait, "write_bool", "ser.default.write_bool")
    m = re.search(r"if\s+value\s*\{\s*%s[^}]*\}\s*else\s*\{\s*%s" % (LIT, LIT), body)
    if not m: miss("ser.default.write_bool", "`if value { b\"true\" } else { b\"false\" }` not found")
    emit("serTrue", "`Formatter::write_bool(true)`", rust_str_bytes(m.group(1)) if m else b"")
    emit("serFalse", "`Formatter::write_bool(false)`", rust_str_bytes(m.group(2)) if m else b"")
    single(trait, "default", "begin_string", "serBeginString", "`Formatter::begin_string`")
    single(trait, "default", "end_string", "serEndString", "`Formatter::end_string`")
    single(trait, "default", "begin_array", "cBeginArray", "default `begin_array`")
    single(trait, "default", "end_array", "cEndArray", "default `end_array`")
    single(trait, "default", "begin_object", "cBeginObject", "default `begin_object`")
    single(trait, "default", "end_object", "cEndObject", "default `end_object`")
    single(trait, "default", "begin_object_value", "cObjectValue", "default `begin_object_value`")
    for fn, name in (("begin_array_value", "cArrayValueRest"), ("begin_object_key", "cObjectKeyRest")):
        ls, body = lits(trait, fn, "ser.default." + fn)
        m = re.search(r"if\s+first\s*\{\s*Ok\(\(\)\)\s*\}\s*else\s*\{\s*writer\.write_all\(%s\)\s*\}" % LIT, body)
        if not m: miss("ser.default." + fn, "`if first { Ok(()) } else { writer.write_all(b\"…\") }` not found")
        emit(name, "default `%s(first = false)`; nothing is written when `first`" % fn, rust_str_bytes(m.group(1)) if m else b"")
    for fn in ("end_array_value", "end_object_key", "end_object_value"):
        body = fn_body(trait, r"fn %s<[^{]*\{" % fn)
        if body is None or "write_all" in body or not re.search(r"\{\s*Ok\(\(\)\)\s*\}", body):
            miss("ser.default." + fn, "expected a body that is just `Ok(())`")
    # the byte-array writer must be the generic begin_array / begin_array_value / write_u8 loop
    body = fn_body(trait, r"fn write_byte_array<[^{]*\{") or ""
    if not re.search(r"begin_array\(writer\).*let mut first = true;.*for byte in value.*begin_array_value\(writer, first\).*"
                     r"write_u8\(writer, \*byte\).*end_array_value\(writer\).*first = false;.*end_array\(writer\)", body, re.S):
        miss("ser.default.write_byte_array", "loop shape changed")

    # --- PrettyFormatter
    single(pretty, "pretty", "begin_array", "pBeginArray", "pretty `begin_array`")
    single(pretty, "pretty", "begin_object", "pBeginObject", "pretty `begin_object`")
    single(pretty, "pretty", "begin_object_value", "pObjectValue", "pretty `begin_object_value`")
    for fn, n1, n2 in (("end_array", "pEndArrayNl", "pEndArray"), ("end_object", "pEndObjectNl", "pEndObject")):
        ls, body = lits(pretty, fn, "ser.pretty." + fn)
        m = re.search(r"if\s+self\.has_value\s*\{\s*tri!\(writer\.write_all\(%s\)\);\s*tri!\(indent\(writer,\s*self\.current_indent,\s*self\.indent\)\);\s*\}\s*"
                      r"writer\.write_all\(%s\)" % (LIT, LIT), body)
        if not m: miss("ser.pretty." + fn, "`if self.has_value { write b\"\\n\"; indent } write b\"]\"` not found")
        emit(n1, "pretty `%s`: written before the indentation when `has_value`" % fn, rust_str_bytes(m.group(1)) if m else b"")
        emit(n2, "pretty `%s`: the closing bracket" % fn, rust_str_bytes(m.group(2)) if m else b"")
    for fn, n1, n2 in (("begin_array_value", "pArrayValueFirst", "pArrayValueRest"),
                       ("begin_object_key", "pObjectKeyFirst", "pObjectKeyRest")):
        ls, body = lits(pretty, fn, "ser.pretty." + fn)
        m = re.search(r"writer\.write_all\(if\s+first\s*\{\s*%s\s*\}\s*else\s*\{\s*%s\s*\}\)\);\s*indent\(writer,\s*self\.current_indent,\s*self\.indent\)" % (LIT, LIT), body)
        if not m: miss("ser.pretty." + fn, "`write_all(if first { … } else { … }); indent(…)` not found")
        emit(n1, "pretty `%s(first = true)`, followed by the indentation" % fn, rust_str_bytes(m.group(1)) if m else b"")
        emit(n2, "pretty `%s(first = false)`, followed by the indentation" % fn, rust_str_bytes(m.group(2)) if m else b"")
    # methods PrettyFormatter overrides (anything else falls back to the defaults above)
    over = re.findall(r"fn\s+(\w+)<", pretty)
    lines.append("/-- the methods `PrettyFormatter` overrides, in source order -/")
    lines.append("def prettyOverrides : List String := [%s]" % ", ".join('"%s"' % o for o in over))


GENERATORS.append(("Ser", gen_ser))
# ------------------------------------------------------------------ map.rs / number.rs (C17)
def cfg_return(body, feature_on):
    """the expression after `#[cfg(feature = "preserve_order")]` (or `not(...)`) inside a fn body"""
    attr = r'#\[cfg\(feature\s*=\s*"preserve_order"\)\]' if feature_on else r'#\[cfg\(not\(feature\s*=\s*"preserve_order"\)\)\]'
    m = re.search(attr + r"\s*(?:return\s+)?([^;]*);", body or "", re.S)
    return re.sub(r"\s+", "", m.group(1)) if m else None


def gen_map(lines):
    t = src("map.rs")
    i_map = t.index("impl Map<String, Value>")
    i_occ = t.index("impl<'a> OccupiedEntry<'a>")
    mp, oc = t[i_map:i_occ], t[i_occ:]
    # which IndexMap removal the order-agnostic names forward to: 0 = swap_*, 1 = shift_*
    for name, text, fn in (("mapRemoveFwd", mp, "remove"), ("mapRemoveEntryFwd", mp, "remove_entry"),
                           ("occRemoveFwd", oc, "remove"), ("occRemoveEntryFwd", oc, "remove_entry")):
        body = fn_body(text, r"pub fn %s\b[^{]*\{" % fn)
        e = cfg_return(body, True)
        suffix = "_entry" if fn.endswith("_entry") else ""
        code = None
        if e is not None:
            mm = re.fullmatch(r"self\.(?:map\.|occupied\.)?(swap|shift)_remove%s\((?:key)?\)" % suffix, e)
            if mm: code = 0 if mm.group(1) == "swap" else 1
        if code is None:
            miss("map." + name, "preserve_order arm of %s is not a swap_/shift_ forward: %r" % (fn, e)); code = 2
        d = cfg_return(body, False)
        if d is None or not re.fullmatch(r"self\.(map|occupied)\.%s\((?:key)?\)" % fn, d):
            miss("map." + name + ".default", "default arm of %s does not forward to BTreeMap::%s: %r" % (fn, fn, d))
        owner = "Map" if text is mp else "OccupiedEntry"
        lines.append("/-- `%s::%s` under preserve_order forwards to: 0 = `swap_%s`, 1 = `shift_%s` -/" % (owner, fn, fn, fn))
        lines.append("def %s : Nat := %d" % (name, code))
    body = fn_body(mp, r"pub fn append\b[^{]*\{")
    po, df = cfg_return(body, True), cfg_return(body, False)
    ok_po = po is not None and re.fullmatch(r"self\.map\.extend\(mem::replace\(&mutother\.map,MapImpl::default\(\)\)\)", po)
    ok_df = df == "self.map.append(&mutother.map)"
    if not ok_po: miss("map.append.po", "preserve_order append is not extend(mem::replace(other)): %r" % po)
    if not ok_df: miss("map.append.default", "default append is not BTreeMap::append: %r" % df)
    lines.append("/-- `append`: preserve_order = `extend(mem::replace(&mut other.map, default))`, default = `BTreeMap::append` -/")
    lines.append("def mapAppendAsDocumented : Bool := %s" % ("true" if ok_po and ok_df else "false"))
    body = fn_body(mp, r"pub fn sort_keys\b[^{]*\{")
    e = cfg_return(body, True)
    srt = e in ("self.map.sort_unstable_keys()", "self.map.sort_keys()")
    if not srt: miss("map.sort_keys", "preserve_order sort_keys does not call sort_(unstable_)keys: %r" % e)
    lines.append("/-- `sort_keys` under preserve_order sorts by key (`%s`); the default build does nothing -/" % e)
    lines.append("def mapSortKeysSorts : Bool := %s" % ("true" if srt else "false"))
    for fn in ("insert", "retain", "clear", "len", "get", "contains_key"):
        body = fn_body(mp, r"pub fn %s\b[^{]*\{" % fn)
        if body is None or not re.search(r"self\.map\.%s\(" % fn, body):
            miss("map.forward." + fn, "Map::%s no longer forwards to self.map.%s" % (fn, fn))
    # impl Hash for Map: preserve_order collects, sorts by key, hashes the Vec
    i_h = t.index("impl Hash for Map<String, Value>")
    body = fn_body(t[i_h:], r"fn hash\b[^{]*\{")
    b = re.sub(r"\s+", "", body or "")
    sorts = "kv.sort_unstable_by(|a,b|a.0.cmp(b.0));kv.hash(state);" in b and "Vec::from_iter(&self.map)" in b
    if not sorts: miss("map.hash.sort", "preserve_order Hash does not sort the entries by key before hashing")
    if "self.map.hash(state);" not in b: miss("map.hash.default", "default Hash does not forward to BTreeMap::hash")
    lines.append("/-- `impl Hash for Map` (preserve_order): entries collected, sorted by key, then hashed as a Vec -/")
    lines.append("def mapHashSortsEntries : Bool := %s" % ("true" if sorts else "false"))
    # impl PartialEq for Map forwards to the backing store
    i_e = t.index("impl PartialEq for Map<String, Value>")
    body = fn_body(t[i_e:], r"fn eq\b[^{]*\{")
    if "self.map.eq(&other.map)" not in re.sub(r"\s+", "", body or ""):
        miss("map.eq", "Map::eq does not forward to the backing store's eq")
    # number.rs: Hash for N
    n = src("number.rs")
    i_n = n.index("impl Hash for N")
    body = re.sub(r"\s+", "", re.sub(r"//[^\n]*", "", fn_body(n[i_n:], r"fn hash\b[^{]*\{") or ""))
    norm = "N::Float(f)=>{iff==0.0f64{0.0f64.to_bits().hash(h);}else{f.to_bits().hash(h);}}" in body
    if not norm: miss("map.number.hash", "Hash for N no longer hashes +0.0's bits for both zeros")
    ints = "N::PosInt(i)=>i.hash(h),N::NegInt(i)=>i.hash(h)," in body
    if not ints: miss("map.number.hash.int", "Hash for N: integer arms changed")
    lines.append("/-- `impl Hash for N`: `Float(f)` hashes `0.0f64.to_bits()` when `f == 0.0`, else `f.to_bits()` -/")
    lines.append("def numHashZeroNormalised : Bool := %s" % ("true" if norm else "false"))
    i_p = n.index("impl PartialEq for N")
    body = re.sub(r"\s+", "", fn_body(n[i_p:], r"fn eq\b[^{]*\{") or "")
    want = "(N::PosInt(a),N::PosInt(b))=>a==b,(N::NegInt(a),N::NegInt(b))=>a==b,(N::Float(a),N::Float(b))=>a==b,_=>false,"
    if want not in body: miss("map.number.eq", "PartialEq for N changed")
    # value/mod.rs: derive on Value, sort_all_objects
    v = src("value/mod.rs")
    if not re.search(r"#\[derive\(([^)]*)\)\]\s*pub enum Value", v) or not all(
            x in re.search(r"#\[derive\(([^)]*)\)\]\s*pub enum Value", v).group(1) for x in ("Eq", "PartialEq", "Hash")):
        miss("map.value.derive", "Value no longer derives Eq, PartialEq, Hash")
    body = re.sub(r"\s+", "", fn_body(v, r"pub fn sort_all_objects\b[^{]*\{") or "")
    rec = ("Value::Object(map)=>{map.sort_keys();map.values_mut().for_each(Value::sort_all_objects);}" in body
           and "Value::Array(list)=>{list.iter_mut().for_each(Value::sort_all_objects);}" in body)
    if not rec: miss("map.sort_all_objects", "sort_all_objects is not sort_keys + recursion into object values and array elements")
    lines.append("/-- `sort_all_objects` = `sort_keys` on every object, recursing through object values and array elements -/")
    lines.append("def sortAllRecurses : Bool := %s" % ("true" if rec else "false"))


GENERATORS.append(("Map", gen_map))
# ------------------------------------------------------------------ de.rs float tables (C08)
def rust_cond_to_lean(expr, names):
    """translate a small Rust boolean expression over naturals (identifiers in `names`, integer
    literals, / % comparisons && || parentheses) into a Lean `Bool` term; None if anything else occurs"""
    toks = re.findall(r"\$?[A-Za-z_][A-Za-z_0-9]*|\d+|>=|<=|==|!=|&&|\|\||[()<>/%*+-]", expr)
    if "".join(toks) != re.sub(r"\s+", "", expr): return None
    out = []
    for t in toks:
        if t in names: out.append(names[t])
        elif t.isdigit(): out.append(t)
        elif t in ("/", "%", "(", ")", "*", "+"): out.append(t)
        elif t in (">=", "<=", "<", ">", "==", "!="):
            out.append({">=": "≥", "<=": "≤", "==": "=", "!=": "≠"}.get(t, t))
        elif t in ("&&", "||"): out.append(t)
        else: return None
    # every comparison becomes `decide (…)`: split on && / || / parens at top level is not needed for
    # this shape — wrap each maximal comparison chunk
    s = " ".join(out)
    parts = re.split(r"(\&\&|\|\||\(|\))", s)
    res = []
    for p in parts:
        q = p.strip()
        if q in ("&&", "||", "(", ")", ""): res.append(q)
        else: res.append("decide (%s)" % q)
    return " ".join(x for x in res if x)


def gen_pow10(lines):
    t = src("de.rs")
    # --- POW10: literals as written, each must have the form 1e<index>
    m = re.search(r'#\[cfg\(not\(feature\s*=\s*"float_roundtrip"\)\)\]\s*static\s+POW10\s*:\s*\[\s*f64\s*;\s*(\d+)\s*\]\s*=\s*\[(.*?)\];', t, re.S)
    exps, declared = [], 0
    if not m:
        miss("pow10.table", "static POW10: [f64; N] = […] (non-float_roundtrip) not found")
    else:
        declared = int(m.group(1))
        body = re.sub(r"//[^\n]*", "", m.group(2))
        for lit in [x.strip() for x in body.split(",") if x.strip()]:
            mm = re.fullmatch(r"1e(\d+)", lit)
            if not mm:
                miss("pow10.table.entry", "POW10 entry %r is not of the form 1e<digits>" % lit); exps.append(0)
            else:
                exps.append(int(mm.group(1)))
    lines.append("/-- `POW10` of de.rs (non-float_roundtrip): entry `i` is the literal `1e<pow10Exps[i]>`, as written -/")
    lines.append("def pow10Exps : List Nat := [%s]" % ", ".join(str(e) for e in exps))
    lines.append("/-- the declared array length `[f64; N]` -/")
    lines.append("def pow10Declared : Nat := %d" % declared)
    # --- f64_from_parts constants
    body = fn_body(t, r'#\[cfg\(not\(feature\s*=\s*"float_roundtrip"\)\)\]\s*fn f64_from_parts\b[^{]*\{')
    # when the construct cannot be read the tie is reported broken (miss); the model then keeps the values of the transcribed
    # code (308 / 308) rather than 0 / 0, with which its stepping loop would make no progress
    big, step = 308, 308
    if body is None:
        miss("pow10.from_parts", "non-roundtrip f64_from_parts not found")
    else:
        mm = re.search(r"f\s*/=\s*1e(\d+)\s*;\s*exponent\s*\+=\s*(\d+)\s*;", body)
        if not mm: miss("pow10.from_parts.step", "`f /= 1e<N>; exponent += <M>;` not found")
        else: big, step = int(mm.group(1)), int(mm.group(2))
        if not re.search(r"POW10\.get\(\s*exponent\.wrapping_abs\(\)\s+as\s+usize\s*\)", body):
            miss("pow10.from_parts.index", "`POW10.get(exponent.wrapping_abs() as usize)` not found in f64_from_parts")
    lines.append("/-- `f /= 1e<fromPartsBigExp>; exponent += <fromPartsStep>;` in f64_from_parts -/")
    lines.append("def fromPartsBigExp : Nat := %d" % big)
    lines.append("def fromPartsStep : Nat := %d" % step)
    # --- overflow! macro body, translated token by token
    mm = re.search(r"macro_rules!\s*overflow\s*\{\s*\(\$a:ident\s*\*\s*10\s*\+\s*\$b:ident\s*,\s*\$c:expr\)\s*=>\s*\{\s*match\s+\$c\s*\{\s*c\s*=>\s*(.*?),\s*\}\s*\}\s*;\s*\}", t, re.S)
    term = None
    if mm:
        term = rust_cond_to_lean(mm.group(1).strip(), {"$a": "a", "$b": "b", "c": "c"})
    if term is None:
        miss("pow10.overflow_macro", "overflow!($a * 10 + $b, $c) body not found or not translatable")
        term = "false"
    lines.append("/-- `overflow!($a * 10 + $b, $c)`: the macro body `%s`, translated token by token -/" % (mm.group(1).strip() if mm else "?"))
    lines.append("def overflowMacro (a b c : Nat) : Bool := %s" % term)
    # the two call-site bounds
    sites = re.findall(r"overflow!\(\s*(\w+)\s*\*\s*10\s*\+\s*digit\s*,\s*(\w+)::MAX\s*\)", t)
    want = {("significand", "u64"), ("exp", "i32")}
    if set(sites) != want:
        miss("pow10.overflow_sites", "overflow! call sites are %r, expected significand/u64::MAX and exp/i32::MAX" % (sorted(set(sites)),))


GENERATORS.append(("Pow10", gen_pow10))


# ------------------------------------------------------------------ value/ser.rs + ser.rs key serializers (C15)
def gen_tovalue(lines):
    """C15: the dispatch tables of the two `MapKeySerializer`s (for every `serde::Serializer` method: does
    it reject with `key_must_be_a_string()`, forward to `self`, or accept), the two bool key literals of
    `value::ser::MapKeySerializer::serialize_bool`, the error codes the three error helpers of
    `value/ser.rs` raise and the shape of the 128-bit branches of `value::Serializer`"""
    tv = strip_rust_comments(src("value/ser.rs"))
    tt = strip_rust_comments(src("ser.rs"))

    def table(text, header, key):
        block = fn_body(text, header)
        if block is None:
            miss(key, "impl block not found"); return []
        rows = []
        for m in re.finditer(r"fn\s+(serialize_\w+|collect_str)\s*(?:<[^>]*>)?\s*\(", block):
            body = fn_body(block[m.start():], r"fn\s+\w+[^{]*\{")
            if body is None:
                miss(key + "." + m.group(1), "no body"); continue
            inner = body.strip()[1:-1].strip()
            if re.fullmatch(r"Err\(key_must_be_a_string\(\)\)", inner): cls = "reject"
            elif re.fullmatch(r"value\.serialize\(self\)", inner): cls = "forward"
            elif "float_key_must_be_finite()" in inner: cls = "finite"
            else: cls = "accept"
            rows.append((m.group(1), cls))
        return rows

    rows_v = table(tv, r"impl\s+serde::Serializer\s+for\s+MapKeySerializer\s*\{", "tovalue.keys.value")
    rows_t = table(tt, r"impl<'a,\s*W,\s*F>\s*ser::Serializer\s+for\s+MapKeySerializer<'a,\s*W,\s*F>\s*where[^{]*\{", "tovalue.keys.text")
    METHODS = ["serialize_bool", "serialize_i8", "serialize_i16", "serialize_i32", "serialize_i64", "serialize_i128",
               "serialize_u8", "serialize_u16", "serialize_u32", "serialize_u64", "serialize_u128", "serialize_f32",
               "serialize_f64", "serialize_char", "serialize_str", "serialize_bytes", "serialize_none", "serialize_some",
               "serialize_unit", "serialize_unit_struct", "serialize_unit_variant", "serialize_newtype_struct",
               "serialize_newtype_variant", "serialize_seq", "serialize_tuple", "serialize_tuple_struct",
               "serialize_tuple_variant", "serialize_map", "serialize_struct", "serialize_struct_variant", "collect_str"]
    lines.append("/-- the methods of `serde::Serializer` -/")
    lines.append("inductive KeyMethod where\n" + "\n".join("  | %s" % m for m in METHODS) + "\nderiving DecidableEq, Repr")
    lines.append("/-- what a `MapKeySerializer` method does: `Err(key_must_be_a_string())`, `value.serialize(self)`, a finiteness")
    lines.append("    test raising `float_key_must_be_finite()`, or anything else (the key is accepted and rendered) -/")
    lines.append("inductive KeyClass where\n  | reject | forward | finite | accept\nderiving DecidableEq, Repr")
    for name, rows, doc, key in (("keyClassValue", rows_v, "`impl serde::Serializer for MapKeySerializer` of `src/value/ser.rs`", "tovalue.keys.value"),
                                 ("keyClassText", rows_t, "`impl ser::Serializer for MapKeySerializer<W, F>` of `src/ser.rs`", "tovalue.keys.text")):
        d = dict(rows)
        for m in METHODS:
            if m not in d: miss(key + "." + m, "method not defined in the impl block (serde default would apply)")
        for m in d:
            if m not in METHODS: miss(key + "." + m, "unknown Serializer method")
        lines.append("/-- %s, method by method -/" % doc)
        lines.append("def %s : KeyMethod → KeyClass\n" % name + "\n".join("  | .%s => .%s" % (m, d.get(m, "reject")) for m in METHODS))
    # bool key literals of the value-side key serializer
    block = fn_body(tv, r"impl\s+serde::Serializer\s+for\s+MapKeySerializer\s*\{") or ""
    body = fn_body(block, r"fn\s+serialize_bool\s*\([^{]*\{") or ""
    m = re.search(r'if\s+value\s*\{\s*"((?:[^"\\]|\\.)*)"\s*\}\s*else\s*\{\s*"((?:[^"\\]|\\.)*)"\s*\}', body)
    if not m: miss("tovalue.keys.bool", '`if value { "true" } else { "false" }` not found')
    lines.append("/-- `value::ser::MapKeySerializer::serialize_bool(true)` -/")
    lines.append("def tvKeyTrue : List UInt8 := %s" % lean_bytes(rust_str_bytes(m.group(1)) if m else b""))
    lines.append("/-- `value::ser::MapKeySerializer::serialize_bool(false)` -/")
    lines.append("def tvKeyFalse : List UInt8 := %s" % lean_bytes(rust_str_bytes(m.group(2)) if m else b""))
    # error helpers
    for fn, name in (("key_must_be_a_string", "tvKeyErr"), ("float_key_must_be_finite", "tvFloatKeyErr")):
        b = fn_body(tv, r"fn\s+%s\s*\(\)\s*->\s*Error\s*\{" % fn) or ""
        m = re.search(r"Error::syntax\(ErrorCode::(\w+),\s*0,\s*0\)", b)
        if not m: miss("tovalue.err." + fn, "`Error::syntax(ErrorCode::…, 0, 0)` not found")
        lines.append("/-- the `ErrorCode` raised by `%s()` in `src/value/ser.rs` -/" % fn)
        lines.append('def %s : String := "%s"' % (name, m.group(1) if m else ""))
    # 128-bit branches of value::Serializer (default build): the order of the try_from tests and the error
    ser = fn_body(tv, r"impl\s+serde::Serializer\s+for\s+Serializer\s*\{") or ""
    for fn, name, want in (("serialize_i128", "tvI128Tests", ["u64", "i64"]), ("serialize_u128", "tvU128Tests", ["u64"])):
        b = fn_body(ser, r"fn\s+%s\s*\([^{]*\{" % fn) or ""
        tests = re.findall(r"if\s+let\s+Ok\(value\)\s*=\s*(\w+)::try_from\(value\)", b)
        err = re.search(r"else\s*\{\s*Err\(Error::syntax\(ErrorCode::(\w+),\s*0,\s*0\)\)\s*\}", b)
        if tests != want or not err: miss("tovalue.int128." + fn, "expected try_from tests %r followed by an Err" % (want,))
        lines.append("/-- `value::Serializer::%s` without arbitrary_precision: the `try_from` targets tried in order, and the error -/" % fn)
        lines.append("def %s : List String × String := ([%s], \"%s\")" % (name, ", ".join('"%s"' % x for x in tests), err.group(1) if err else ""))


GENERATORS.append(("ToValue", gen_tovalue))

# ------------------------------------------------------------------ value/de.rs routing (C16)
def gen_fromvalue(lines):
    """the routing of `impl Deserializer for Value` / `for &'de Value`, the variant accesses, the enum entry
    points of Map / &Map and MapKeyDeserializer: per method either the method it delegates to, or the
    `Value::K => callee` arms of its match (in source order, `_`/binding arms as `_`), or the macro that
    defines it; plus the forward_to_deserialize_any lists and the numeric-key guard.  The transcription
    in SJ/Model/FromValue.lean was written against exactly this table (`Model.FromValue.expectedRouting`)."""
    t = strip_rust_comments(src("value/de.rs"))

    def methods(block, key):
        out = []
        if block is None:
            miss(key, "impl block not found"); return out
        inner = block[1:-1]
        # macro-defined methods
        for m in re.finditer(r"\b(deserialize_number|deserialize_value_ref_number|deserialize_numeric_key)!\(\s*(\w+)\s*(?:,\s*(\w+)\s*)?\)\s*;", inner):
            out.append((m.start(), m.group(2), "!" + m.group(1) + ("(" + m.group(3) + ")" if m.group(3) else "")))
        for m in re.finditer(r"\bfn\s+(\w+)\s*(?:<[^{;]*?>)?\s*\(", inner):
            name = m.group(1)
            body = fn_body(inner[m.start():], r"fn\s+%s\b[^{]*\{" % name)
            if body is None: continue
            flat = re.sub(r"\s+", " ", body)
            d = re.fullmatch(r"\{ self\.(\w+)\(visitor\) \}", flat)
            if d:
                out.append((m.start(), name, "->" + d.group(1))); continue
            if re.search(r"\bmatch\b", flat):
                arms = []
                for a in re.finditer(r"(?:Some\()?(Value::(\w+)|\b_\b|\bother\b|\bNone\b|Some\(value\)|Some\(other\))(?:\([^)]*\))?\)?\s*=>\s*\{?\s*(?:if\s+[\w.()]+\s*\{\s*)?(?:return\s+)?(Err|Ok|[\w.:]+?)\(", flat):
                    pat = a.group(2) or {"_": "_", "other": "_", "None": "None", "Some(value)": "Some", "Some(other)": "_"}[a.group(1)]
                    if a.group(0).startswith("Some(Value::"): pat = "Some" + pat
                    arms.append(pat + "=>" + a.group(3))
                for e in re.finditer(r"\}\s*else\s*\{\s*([\w.:]+)\(", flat): arms.append("else=>" + e.group(1))
                if re.search(r"if iter\.next\(\)\.is_some\(\) \{ return Err\(", flat): arms.append("second=>Err")
                out.append((m.start(), name, ";".join(arms))); continue
            last = [x.strip() for x in flat.strip("{} ").split(";") if x.strip()]
            out.append((m.start(), name, last[-1] if last else ""))
        out.sort()
        return [(n, v) for _, n, v in out]

    def forwards(block):
        m = re.search(r"forward_to_deserialize_any!\s*\{([^}]*)\}", block or "")
        return " ".join(m.group(1).split()) if m else ""

    blocks = [
        ("routeOwned", r"impl<'de>\s+serde::Deserializer<'de>\s+for\s+Value\s*\{"),
        ("routeRef", r"impl<'de>\s+serde::Deserializer<'de>\s+for\s+&'de\s+Value\s*\{"),
        ("routeMapOwned", r"impl<'de>\s+serde::Deserializer<'de>\s+for\s+Map<String,\s*Value>\s*\{"),
        ("routeMapRef", r"impl<'de>\s+serde::Deserializer<'de>\s+for\s+&'de\s+Map<String,\s*Value>\s*\{"),
        ("routeVariantOwned", r"impl<'de>\s+VariantAccess<'de>\s+for\s+VariantDeserializer\s*\{"),
        ("routeVariantRef", r"impl<'de>\s+VariantAccess<'de>\s+for\s+VariantRefDeserializer<'de>\s*\{"),
        ("routeMapKey", r"impl<'de>\s+serde::Deserializer<'de>\s+for\s+MapKeyDeserializer<'de>\s*\{"),
    ]
    for name, hdr in blocks:
        block = fn_body(t, hdr)
        ms = methods(block, "fromvalue." + name)
        if block is not None and not ms: miss("fromvalue." + name, "no methods recognised")
        lines.append("/-- methods of `%s`, in source order: (method, route) -/" % hdr.replace("\\s+", " ").replace("\\s*", "").replace("\\", ""))
        lines.append("def %s : List (String × String) := [%s]" % (name, ", ".join('("%s", "%s")' % (n, v.replace('"', "'")) for n, v in ms)))
        lines.append("def %sForward : String := \"%s\"" % (name, forwards(block)))
    # visit_array / visit_array_ref: the leftover check
    for fn, nm in (("visit_array", "visitArrayCheck"), ("visit_array_ref", "visitArrayRefCheck")):
        body = fn_body(t, r"fn %s<'de, V>\([^{]*\{" % fn)
        flat = re.sub(r"\s+", " ", body or "")
        m = re.search(r"let remaining = deserializer\.iter\.len\(\); if (remaining == 0) \{ Ok\(seq\) \} else \{ Err\(", flat)
        if not m: miss("fromvalue." + fn, "`let remaining = deserializer.iter.len(); if remaining == 0 { Ok(seq) } else { Err(..) }` not found")
        lines.append("def %s : String := \"%s\"" % (nm, m.group(1) if m else ""))
    # numeric keys: accepted first bytes
    mac = re.search(r"macro_rules!\s+deserialize_numeric_key\s*\{.*?\n\}", t, re.S)
    g = re.search(r"match tri!\(de\.peek\(\)\) \{\s*Some\(([^)]*)\) => \{\}", mac.group(0) if mac else "")
    if not g: miss("fromvalue.numeric_key_guard", "`match tri!(de.peek()) { Some(b'0'..=b'9' | b'-') => {}` not found")
    lines.append("def numericKeyGuard : String := \"%s\"" % (g.group(1).replace('"', "'") if g else ""))
    tail = re.search(r"if tri!\(de\.peek\(\)\)\.is_some\(\) \{\s*return Err", mac.group(0) if mac else "")
    if not tail: miss("fromvalue.numeric_key_tail", "trailing-characters check of deserialize_numeric_key! not found")


GENERATORS.append(("FromValue", gen_fromvalue))


# ------------------------------------------------------------------ value/index.rs, Value::take (C18)
def value_code(expr):
    """constructor code of a simple `Value` expression (see Model.ValueIndex.valueOfCode)"""
    e = re.sub(r"\s+", "", expr or "")
    return {"Value::Null": 0, "Value::Bool(false)": 1, "Value::Bool(true)": 2}.get(e)


def gen_index(lines):
    t = src("value/index.rs")
    m = re.search(r"impl<I>\s+ops::Index<I>\s+for\s+Value\b.*?fn index\(&self, index: I\) -> &Value\s*\{(.*?)\n    \}", t, re.S)
    body = m.group(1) if m else ""
    st = re.search(r"static\s+(\w+)\s*:\s*Value\s*=\s*([^;]+);", body)
    use = re.search(r"index\.index_into\(self\)\.unwrap_or\(&(\w+)\)", body)
    code = value_code(st.group(2)) if st and use and use.group(1) == st.group(1) else None
    if code is None: miss("index.miss", "`static NULL: Value = Value::Null; index.index_into(self).unwrap_or(&NULL)` not found in ops::Index::index")
    lines.append("/-- what `&value[probe]` yields on a miss (`static NULL` of `ops::Index::index`), as a constructor code -/")
    lines.append("def indexMissCode : Nat := %d" % (255 if code is None else code))
    blk = fn_body(t, r"impl Index for str\s*\{") or ""
    body = fn_body(blk, r"fn index_or_insert<'v>\([^{]*\{") or ""
    flat = re.sub(r"\s+", " ", body)
    nb = re.search(r"if let Value::Null = v \{ \*v = Value::Object\(Map::new\(\)\); \}", flat)
    oi = re.search(r"Value::Object\(map\) => map\.entry\(self\.to_owned\(\)\)\.or_insert\(([^)]*(?:\([^)]*\))?)\)", flat)
    if not oi: miss("index.or_insert", "`Value::Object(map) => map.entry(self.to_owned()).or_insert(Value::Null)` not found in `impl Index for str`")
    code = value_code(oi.group(1)) if oi else None
    if oi and code is None: miss("index.or_insert_value", "or_insert argument `%s` is not a simple Value constructor" % oi.group(1))
    lines.append("/-- `impl Index for str`, `index_or_insert`: is `Null` first replaced by an empty object? -/")
    lines.append("def nullBecomesObject : Bool := %s" % ("true" if nb else "false"))
    lines.append("/-- … and the value `or_insert` gives a vacant entry, as a constructor code -/")
    lines.append("def orInsertCode : Nat := %d" % (255 if code is None else code))
    tm = src("value/mod.rs")
    body = fn_body(tm, r"pub fn take\(&mut self\) -> Value\s*\{") or ""
    rp = re.search(r"mem::replace\(\s*self\s*,\s*(.*?)\s*\)\s*\}?\s*$", re.sub(r"\s+", " ", body).strip())
    code = value_code(rp.group(1)) if rp else None
    if code is None: miss("index.take", "`mem::replace(self, <simple Value constructor>)` not found in Value::take")
    lines.append("/-- what `Value::take` leaves behind (second argument of `mem::replace`), as a constructor code -/")
    lines.append("def takeReplacementCode : Nat := %d" % (255 if code is None else code))


GENERATORS.append(("Index", gen_index))


# ------------------------------------------------------------------ value/partial_eq.rs (C18)
def gen_partial_eq(lines):
    t = src("value/partial_eq.rs")
    fns = []
    for m in re.finditer(r"fn (eq_\w+)\(value: &Value, other: ([^)]+)\) -> bool\s*\{", t):
        body = fn_body(t[m.start():], r"fn eq_\w+\([^{]*\{") or ""
        acc = re.search(r"\b(\w+)\.(as_\w+)\(\)\s*==\s*Some\(other\)", body)
        if not acc: miss("partial_eq." + m.group(1), "`<recv>.as_*() == Some(other)` not found"); continue
        fns.append((m.group(1), m.group(2).strip().lstrip("&"), acc.group(2)))
    if not fns: miss("partial_eq.fns", "no `fn eq_*(value: &Value, other: T) -> bool` found")
    inv = re.search(r"partialeq_numeric!\s*\{(.*?)\n\}", t, re.S)
    rows = re.findall(r"(\w+)\s*\[([^\]]*)\]", inv.group(1)) if inv else []
    if not rows: miss("partial_eq.table", "invocation `partialeq_numeric! { eq_x[ty ...] ... }` not found")
    mac = re.search(r"macro_rules!\s+partialeq_numeric\s*\{.*?\n\}", t, re.S)
    calls = re.findall(r"\$eq\(([^;{}]*)\)\s*\}", re.sub(r"\s+", " ", mac.group(0))) if mac else []
    casts = [bool(re.fullmatch(r"\*?\*?\w+, \*\w+ as _", c.strip())) for c in calls]
    if not calls or not all(casts): miss("partial_eq.cast", "the impls of partialeq_numeric! no longer all call `$eq(x, *y as _)`")
    tys = [ty for _, r in rows for ty in r.split()]
    fnames = [f for f, _, _ in fns]
    for f, _ in rows:
        if f not in fnames: miss("partial_eq.row." + f, "row names an unknown comparison function"); fnames.append(f)
    params = sorted({p for _, p, _ in fns}) or ["i64"]
    accs = sorted({a for _, _, a in fns}) or ["as_i64"]
    lines.append("/-- every Rust type named in the `partialeq_numeric!` invocation, in source order -/")
    lines.append("inductive PrimTy where")
    for ty in tys or ["i64"]: lines.append("  | " + ty)
    lines.append("deriving DecidableEq, Repr")
    lines.append("")
    lines.append("/-- the comparison functions `fn eq_*(value: &Value, other: T) -> bool` -/")
    lines.append("inductive EqFn where")
    for f in fnames or ["eq_i64"]: lines.append("  | " + f)
    lines.append("deriving DecidableEq, Repr")
    lines.append("")
    lines.append("/-- the type of their second parameter -/")
    lines.append("inductive EqParam where")
    for p in params: lines.append("  | " + p)
    lines.append("deriving DecidableEq, Repr")
    lines.append("")
    lines.append("/-- the accessor in `<recv>.as_*() == Some(other)` -/")
    lines.append("inductive EqAccessor where")
    for a in accs: lines.append("  | " + a)
    lines.append("deriving DecidableEq, Repr")
    lines.append("")
    lines.append("/-- `partialeq_numeric! { eq_x[ty ...] ... }`: the row of each type -/")
    lines.append("def eqFnOf : PrimTy → EqFn")
    for f, r in rows:
        for ty in r.split(): lines.append("  | .%s => .%s" % (ty, f))
    lines.append("")
    lines.append("def eqFnParam : EqFn → EqParam")
    d = {f: (p, a) for f, p, a in fns}
    for f in fnames: lines.append("  | .%s => .%s" % (f, d.get(f, (params[0], accs[0]))[0]))
    lines.append("")
    lines.append("def eqFnAccessor : EqFn → EqAccessor")
    for f in fnames: lines.append("  | .%s => .%s" % (f, d.get(f, (params[0], accs[0]))[1]))
    lines.append("")
    lines.append("/-- every impl generated by the macro passes the comparand as `*other as _` (a cast to the parameter type) -/")
    lines.append("def eqCastIsAs : Bool := %s" % ("true" if calls and all(casts) else "false"))
    lines.append("def primTys : List PrimTy := [%s]" % ", ".join("." + ty for ty in tys))


GENERATORS.append(("PartialEq", gen_partial_eq))


# ------------------------------------------------------------------ macros.rs json_internal! (C18)
def macro_rules_of(text, name):
    """[(pattern, body)] of `macro_rules! name { (pat) => {body}; ... }`, comments removed, whitespace normalised"""
    m = re.search(r"macro_rules!\s+%s\s*\{" % re.escape(name), text)
    if not m: return None
    t = re.sub(r"//[^\n]*", "", text[m.end():])
    close = {"(": ")", "[": "]", "{": "}"}

    def group(i):
        """t[i] opens a group; index just after its closing delimiter"""
        stack = [close[t[i]]]; i += 1
        while stack:
            c = t[i]
            if c in close: stack.append(close[c])
            elif c == stack[-1]: stack.pop()
            i += 1
        return i

    rules, i = [], 0
    while True:
        while i < len(t) and t[i].isspace(): i += 1
        if i >= len(t) or t[i] == "}": break
        if t[i] not in close: return None
        j = group(i)
        pat = t[i + 1:j - 1]
        k = t.index("=>", j) + 2
        while t[k].isspace(): k += 1
        e = group(k)
        body = t[k + 1:e - 1]
        rules.append((" ".join(pat.split()), " ".join(body.split())))
        i = e
        while i < len(t) and (t[i].isspace() or t[i] == ";"): i += 1
    return rules


def lean_str(s):
    return '"' + s.replace("\\", "\\\\").replace('"', '\\"') + '"'


def gen_json_macro(lines):
    t = src("macros.rs")
    rules = macro_rules_of(t, "json_internal")
    if not rules: miss("jsonmacro.rules", "macro_rules! json_internal not found / not parsed"); rules = []
    lines.append("/-- rule heads (matchers) of `json_internal!`, in source order, whitespace-normalised -/")
    lines.append("def jsonRules : List String := [")
    lines.append(",\n".join("  " + lean_str(p) for p, _ in rules))
    lines.append("]")
    ins = [b for p, b in rules if p.startswith("@object $object:ident [$($key:tt)+] ($value:expr)") and "json_unexpected" not in b]
    stmts = [b.split(";")[0].strip() + ";" for b in ins]
    over = [s == "let _ = $object.insert(($($key)+).into(), $value);" for s in stmts]
    keep = [bool(re.fullmatch(r"(let _ = )?\$object\.entry\(\(?\$\(\$key\)\+\)?(\.into\(\))?\)\.or_insert\(\$value\);", s)) for s in stmts]
    if len(stmts) != 2 or not (all(over) or all(keep)):
        miss("jsonmacro.insert", "the two entry rules `(@object $object:ident [$($key:tt)+] ($value:expr) …)` no longer both start with "
                                 "`let _ = $object.insert(($($key)+).into(), $value);` (or both with `$object.entry(..).or_insert($value);`)")
    lines.append("/-- first statement of the two rules that add an entry -/")
    lines.append("def jsonInsertStmts : List String := [%s]" % ", ".join(lean_str(s) for s in stmts))
    lines.append("/-- `true`: `Map::insert` (a later duplicate key overwrites); `false`: `entry(..).or_insert(..)` (the first one stays) -/")
    lines.append("def jsonInsertOverwrites : Bool := %s" % ("true" if stmts and all(over) else "false"))
    lines.append("/-- the transcribers (right-hand sides) of the same rules, whitespace-normalised -/")
    lines.append("def jsonRuleBodies : List String := [")
    lines.append(",\n".join("  " + lean_str(b) for _, b in rules))
    lines.append("]")


GENERATORS.append(("JsonMacro", gen_json_macro))


# ------------------------------------------------------------------ lexical/* (C07)
def rust_int(tok):
    tok = tok.strip().replace("_", "")
    tok = re.sub(r"(u8|u16|u32|u64|u128|usize|i32|i64)$", "", tok)
    return int(tok, 0)


def rust_array(text, name, key, elem=rust_int):
    """entries of `const NAME: [ty; N] = [ … ];` (comments stripped; declared length checked)"""
    m = re.search(r"const\s+%s\s*:\s*\[\s*\w+\s*;\s*(\d+)\s*\]\s*=\s*\[(.*?)\]\s*;" % name, strip_rust_comments(text), re.S)
    if not m:
        miss(key, "const %s: [ty; N] = […] not found" % name); return []
    try:
        xs = [elem(x) for x in m.group(2).split(",") if x.strip()]
    except Exception as e:
        miss(key, "entries of %s not understood: %r" % (name, e)); return []
    if len(xs) != int(m.group(1)):
        miss(key, "%s declares %s entries but has %d" % (name, m.group(1), len(xs)))
    return xs


def lean_nat_list(xs, per=4):
    rows = [", ".join(str(x) for x in xs[i:i + per]) for i in range(0, len(xs), per)]
    return "[" + ",\n   ".join(rows) + "]"


def lean_int_list(xs, per=12):
    rows = [", ".join(("(%d)" % x) if x < 0 else str(x) for x in xs[i:i + per]) for i in range(0, len(xs), per)]
    return "[" + ",\n   ".join(rows) + "]"


def gen_lexical(lines):
    cf = src("lexical/cached_float80.rs")
    lines.append("/-! `lexical/cached_float80.rs`: 80-bit cached powers of ten (mantissa, binary exponent) -/")
    for nm, lean, isint in (("BASE10_SMALL_MANTISSA", "base10SmallMantissa", False), ("BASE10_SMALL_EXPONENT", "base10SmallExponent", True),
                            ("BASE10_LARGE_MANTISSA", "base10LargeMantissa", False), ("BASE10_LARGE_EXPONENT", "base10LargeExponent", True),
                            ("BASE10_SMALL_INT_POWERS", "base10SmallIntPowers", False)):
        xs = rust_array(cf, nm, "lexical.cached." + nm)
        if isint: lines.append("def %s : List Int :=\n  %s" % (lean, lean_int_list(xs)))
        else: lines.append("def %s : List Nat :=\n  %s" % (lean, lean_nat_list(xs)))
    for nm, lean in (("BASE10_STEP", "base10Step"), ("BASE10_BIAS", "base10Bias")):
        m = re.search(r"const\s+%s\s*:\s*i32\s*=\s*(-?\d+)\s*;" % nm, cf)
        if not m: miss("lexical.cached." + nm, "const %s: i32 = n not found" % nm)
        lines.append("def %s : Int := %s" % (lean, m.group(1) if m else "0"))
    wiring = re.sub(r"\s+", "", strip_rust_comments(cf))
    want = ("constBASE10_POWERS:ModeratePathPowers=ModeratePathPowers{small:ExtendedFloatArray{mant:&BASE10_SMALL_MANTISSA,exp:&BASE10_SMALL_EXPONENT,},"
            "large:ExtendedFloatArray{mant:&BASE10_LARGE_MANTISSA,exp:&BASE10_LARGE_EXPONENT,},small_int:&BASE10_SMALL_INT_POWERS,step:BASE10_STEP,bias:BASE10_BIAS,};")
    if want not in wiring: miss("lexical.cached.wiring", "BASE10_POWERS no longer wires small/large/small_int/step/bias to the BASE10_* constants")
    if "pub(crate)fnget_powers()->&'staticModeratePathPowers{&BASE10_POWERS}" not in wiring:
        miss("lexical.cached.get_powers", "get_powers() no longer returns &BASE10_POWERS")
    lines.append("")
    sp = src("lexical/small_powers.rs")
    lines.append("/-! `lexical/small_powers.rs` (64-bit limbs) -/")
    lines.append("def pow5_64 : List Nat :=\n  %s" % lean_nat_list(rust_array(sp, "POW5_64", "lexical.small.POW5_64")))
    lines.append("def pow10_64 : List Nat :=\n  %s" % lean_nat_list(rust_array(sp, "POW10_64", "lexical.small.POW10_64")))
    mt = re.sub(r"\s+", "", strip_rust_comments(src("lexical/math.rs")))
    if '#[cfg(fast_arithmetic="64")]pubconstPOW10_LIMB:&[Limb]=&POW10_64;' not in mt or '#[cfg(fast_arithmetic="64")]pubconstPOW5_LIMB:&[Limb]=&POW5_64;' not in mt:
        miss("lexical.small.limb", "POW10_LIMB/POW5_LIMB are no longer POW10_64/POW5_64 for 64-bit limbs")
    lines.append("")
    lp = src("lexical/large_powers64.rs")
    lines.append("/-! `lexical/large_powers64.rs`: `POW5[k]` (little-endian 64-bit limbs) as naturals; should be 5^(2^k) -/")
    m = re.search(r"const\s+POW5\s*:\s*\[\s*&\[u64\]\s*;\s*(\d+)\s*\]\s*=\s*\[(.*?)\]\s*;", strip_rust_comments(lp), re.S)
    bigs = []
    if not m: miss("lexical.large.POW5", "const POW5: [&[u64]; N] not found")
    else:
        names = [x.strip().lstrip("&") for x in m.group(2).split(",") if x.strip()]
        if len(names) != int(m.group(1)): miss("lexical.large.POW5", "declared length differs from the number of entries")
        for nm in names:
            limbs = rust_array(lp, nm, "lexical.large." + nm)
            if any(x >= 2 ** 64 for x in limbs): miss("lexical.large." + nm, "limb out of u64 range")
            bigs.append(sum(x << (64 * i) for i, x in enumerate(limbs)))
    lines.append("def largePow5 : List Nat :=\n  [" + ",\n   ".join(hex(b) for b in bigs) + "]")
    lines.append("")
    # num.rs
    nm_ = src("lexical/num.rs")
    lines.append("/-! `lexical/num.rs`: exact float power tables (decimal literals, integral) and the per-type constants -/")

    def flt(tok):
        mm = re.fullmatch(r"\s*(\d+)\.0\s*", tok)
        if not mm: raise ValueError(tok)
        return int(mm.group(1))
    lines.append("def f32Pow10 : List Nat :=\n  %s" % lean_nat_list(rust_array(nm_, "F32_POW10", "lexical.num.F32_POW10", flt)))
    lines.append("def f64Pow10 : List Nat :=\n  %s" % lean_nat_list(rust_array(nm_, "F64_POW10", "lexical.num.F64_POW10", flt)))
    m = re.search(r"impl Mantissa for u64\s*\{(.*?)\}", nm_, re.S)
    mant = dict(re.findall(r"const\s+(\w+)\s*:\s*\w+\s*=\s*([^;]+);", m.group(1))) if m else {}
    hm = re.search(r"const\s+HALF\s*:\s*i32\s*=\s*Self::FULL\s*/\s*2\s*;", nm_)
    if not m or not all(k in mant for k in ("HIMASK", "LOMASK", "FULL")) or not hm:
        miss("lexical.num.mantissa", "impl Mantissa for u64 {HIMASK, LOMASK, FULL} / HALF = FULL / 2 not found")
        mant = {"HIMASK": "0", "LOMASK": "0", "FULL": "0"}
    lines.append("def u64Himask : Nat := %d" % rust_int(mant["HIMASK"]))
    lines.append("def u64Lomask : Nat := %d" % rust_int(mant["LOMASK"]))
    lines.append("def u64Full : Nat := %d" % rust_int(mant["FULL"]))
    lines.append("def u64Half : Nat := %d" % (rust_int(mant["FULL"]) // 2))
    lines.append("")
    lines.append("/-- constants of `impl Float for f32/f64` -/")
    lines.append("structure FloatConsts where\n  maxDigits : Nat\n  exponentMask : Nat\n  hiddenBitMask : Nat\n  mantissaMask : Nat\n  infinityBits : Nat\n"
                 "  mantissaSize : Int\n  exponentBias : Int\n  denormalExponent : Int\n  maxExponent : Int\n  defaultShift : Int\n  carryMask : Nat\n"
                 "  minExp : Int\n  maxExp : Int\n  mantissaLimit : Int\n  bits : Nat\n  pow10 : List Nat")
    for ty, bits in (("f32", 32), ("f64", 64)):
        key = "lexical.num." + ty
        body = fn_body(nm_, r"impl Float for %s\s*\{" % ty)
        c = {}
        if body is None: miss(key, "impl Float for %s not found" % ty); body = ""
        raw = dict(re.findall(r"const\s+(\w+)\s*:\s*\w+\s*=\s*([^;]+);", body))
        env = {"FULL": rust_int(mant["FULL"])}

        def ev(expr):
            e = re.sub(r"\b(?:Self|u64|f32|f64)::(\w+)", lambda mm: str(env[mm.group(1)]), expr.strip())
            if not re.fullmatch(r"[0-9a-fA-FxX_+\-\s]+", e): raise ValueError(expr)
            toks = re.findall(r"[+-]|[0-9a-fA-FxX_]+", e)
            val, sign = 0, 1
            for t_ in toks:
                if t_ == "+": sign = 1
                elif t_ == "-": sign = -1
                else: val += sign * rust_int(t_); sign = 1
            return val
        for k in ("MAX_DIGITS", "EXPONENT_MASK", "HIDDEN_BIT_MASK", "MANTISSA_MASK", "INFINITY_BITS", "MANTISSA_SIZE", "EXPONENT_BIAS",
                  "DENORMAL_EXPONENT", "MAX_EXPONENT", "DEFAULT_SHIFT", "CARRY_MASK"):
            try:
                c[k] = ev(raw[k]); env[k] = c[k]
            except Exception as e:
                miss(key + "." + k, "constant not found or not a sum of literals/constants: %r" % (e,)); c[k] = 0; env[k] = 0
        el = re.search(r"fn exponent_limit\(\)\s*->\s*\(i32,\s*i32\)\s*\{\s*\((-?\d+),\s*(-?\d+)\)\s*\}", body)
        ml = re.search(r"fn mantissa_limit\(\)\s*->\s*i32\s*\{\s*(\d+)\s*\}", body)
        if not el: miss(key + ".exponent_limit", "fn exponent_limit() -> (i32, i32) { (a, b) } not found")
        if not ml: miss(key + ".mantissa_limit", "fn mantissa_limit() -> i32 { n } not found")
        pw = re.sub(r"\s+", "", fn_body(body, r"fn pow10\b[^{]*\{") or "")
        tb = "F%s_POW10" % ty[1:]
        if ("ifn>0{self*%s[nasusize]}else{self/%s[-nasusize]}" % (tb, tb)) not in pw:
            miss(key + ".pow10", "pow10 is no longer `if n > 0 { self * TABLE[n] } else { self / TABLE[-n] }`")
        lines.append("def %sConsts : FloatConsts :=\n  { maxDigits := %d, exponentMask := %d, hiddenBitMask := %d, mantissaMask := %d, infinityBits := %d,\n"
                     "    mantissaSize := %d, exponentBias := %d, denormalExponent := %d, maxExponent := %d, defaultShift := %d, carryMask := %d,\n"
                     "    minExp := %s, maxExp := %s, mantissaLimit := %s, bits := %d, pow10 := %sPow10 }" % (
                         ty, c["MAX_DIGITS"], c["EXPONENT_MASK"], c["HIDDEN_BIT_MASK"], c["MANTISSA_MASK"], c["INFINITY_BITS"],
                         c["MANTISSA_SIZE"], c["EXPONENT_BIAS"], c["DENORMAL_EXPONENT"], c["MAX_EXPONENT"], c["DEFAULT_SHIFT"], c["CARRY_MASK"],
                         el.group(1) if el else "0", el.group(2) if el else "0", ml.group(1) if ml else "0", bits, ty))
    lines.append("")
    # errors.rs
    er = re.sub(r"\s+", "", strip_rust_comments(src("lexical/errors.rs")))
    m = re.search(r"fnerror_scale\(\)->u32\{(\d+)\}", er)
    if not m: miss("lexical.errors.scale", "fn error_scale() -> u32 { n } not found")
    if "fnerror_halfscale()->u32{u64::error_scale()/2}" not in er: miss("lexical.errors.halfscale", "error_halfscale is no longer error_scale() / 2")
    lines.append("/-! `lexical/errors.rs` -/")
    lines.append("def errorScale : Nat := %s" % (m.group(1) if m else "0"))
    lines.append("def errorHalfscale : Nat := %s" % (str(int(m.group(1)) // 2) if m else "0"))
    shapes = [
        ("lexical.errors.bias", "letbias=-(F::EXPONENT_BIAS-F::MANTISSA_SIZE);letdenormal_exp=bias-63;"),
        ("lexical.errors.extrabits", "letextrabits=iffp.exp<=denormal_exp{64-F::MANTISSA_SIZE+denormal_exp-fp.exp}else{63-F::MANTISSA_SIZE};"),
        ("lexical.errors.underflow", "ifextrabits>65{returntrue;}nearest_error_is_accurate(errors,fp,extrabits)"),
        ("lexical.errors.nearest65", "ifextrabits==65{!fp.mant.overflowing_add(errors).1}else{"),
        ("lexical.errors.cmp", "letcmp1=halfway.wrapping_sub(errors)<extra;letcmp2=extra<halfway.wrapping_add(errors);!(cmp1&&cmp2)"),
    ]
    okshape = True
    for k, w in shapes:
        if w not in er: miss(k, "expression changed shape (expected `%s`)" % w); okshape = False
    lines.append("/-- the comparisons and shift constants of `error_is_accurate`/`nearest_error_is_accurate` are as transcribed in `Model.Lexical` -/")
    lines.append("def errorsShapeAsTranscribed : Bool := %s" % ("true" if okshape else "false"))
    lines.append("")
    # algorithm.rs / bhcomp.rs / rounding.rs / float.rs / math.rs shapes the model transcribes
    al = re.sub(r"\s+", "", strip_rust_comments(src("lexical/algorithm.rs")))
    m = re.search(r"fp\.mant=1<<(\d+);fp\.exp=(0x[0-9A-Fa-f]+|\d+);", al)
    if not m: miss("lexical.algorithm.overflow", "`fp.mant = 1 << 63; fp.exp = 0x7FF;` not found")
    lines.append("/-! `lexical/algorithm.rs`: the infinity marker of `multiply_exponent_extended` -/")
    lines.append("def overflowMantShift : Nat := %s" % (m.group(1) if m else "0"))
    lines.append("def overflowExp : Int := %d" % (int(m.group(2), 0) if m else 0))
    ashapes = [
        ("lexical.algorithm.errors", "iferrors>0{errors+=1;}errors+=u64::error_halfscale();letshift=fp.normalize();errors<<=shift;u64::error_is_accurate::<F>(errors,fp)"),
        ("lexical.algorithm.truncated", "iftruncated{errors+=u64::error_scale();}"),
        ("lexical.algorithm.index", "letexponent=exponent.saturating_add(powers.bias);letsmall_index=exponent%powers.step;letlarge_index=exponent/powers.step;"),
        ("lexical.algorithm.fast", "}elseifexponent>=0&&exponent<=max_exp+shift_exp{letsmall_powers=POW10_64;letshift=exponent-max_exp;"),
    ]
    for k, w in ashapes:
        if w not in al: miss(k, "expression changed shape (expected `%s`)" % w)
    bh = re.sub(r"\s+", "", strip_rust_comments(src("lexical/bhcomp.rs")))
    bshapes = [
        ("lexical.bhcomp.step", "letsmall_powers=POW10_LIMB;letstep=small_powers.len()-2;letmax_digits=F::MAX_DIGITS-1;"),
        ("lexical.bhcomp.sticky", "ifi<integer.len()+fraction.len(){result.imul_small(10);ifinteger.iter().chain(fraction).skip(i).any(|&digit|digit!=b'0'){result.iadd_small(1);}}"),
        ("lexical.bhcomp.count", "letcount=F::MAX_DIGITS.min(integer_digits+fraction_digits-digits_start);letscaled_exponent=sci_exp+1-countasi32;"),
        ("lexical.bhcomp.bh", "ExtendedFloat{mant:(b.mant<<1)+1,exp:b.exp-1,}"),
        ("lexical.bhcomp.round", "ifis_halfway&&is_truncated{is_above=true;is_halfway=false;}tie_even(fp,is_above,is_halfway);"),
        ("lexical.bhcomp.compare", "cmp::Ordering::Greater=>f.next_positive(),cmp::Ordering::Less=>f,cmp::Ordering::Equal=>f.round_positive_even(),"),
    ]
    for k, w in bshapes:
        if w not in bh: miss(k, "expression changed shape (expected `%s`)" % w)
    ro = re.sub(r"\s+", "", strip_rust_comments(src("lexical/rounding.rs")))
    rshapes = [
        ("lexical.rounding.nearest", "lettruncated_bits=fp.mant&mask;letis_above=truncated_bits>halfway;letis_halfway=truncated_bits==halfway;overflowing_shr(fp,shift);(is_above,is_halfway)"),
        ("lexical.rounding.tie_even", "letis_odd=fp.mant&1==1;ifis_above||(is_odd&&is_halfway){fp.mant+=1;}"),
        ("lexical.rounding.carry", "iffp.mant&F::CARRY_MASK==F::CARRY_MASK{shr(fp,1);}"),
    ]
    for k, w in rshapes:
        if w not in ro: miss(k, "expression changed shape (expected `%s`)" % w)
    if "letls=r0.leading_zeros();letrs=64-ls;letv=matchls{0=>r0,_=>(r0<<ls)|(r1>>rs),};letn=r1<<ls!=0;(v,n)" not in mt:
        miss("lexical.math.hi64", "u64_to_hi64_2 changed shape (value and sticky flag)")
    if "let(v,n)=u64_to_hi64_2(r0,r1);(v,n||nonzero(self,2))" not in mt:
        miss("lexical.math.hi64_2", "hi64_2 for u64 limbs changed shape")


GENERATORS.append(("Lexical", gen_lexical))


# ------------------------------------------------------------------ lexical/math.rs limb arithmetic (C07, Model.LexMath)
LEXMATH_SHAPES = {
    ('scalar', 'add'):
        '{x.overflowing_add(y)}',
    ('scalar', 'iadd'):
        '{lett=add(*x,y);*x=t.0;t.1}',
    ('scalar', 'sub'):
        '{x.overflowing_sub(y)}',
    ('scalar', 'isub'):
        '{lett=sub(*x,y);*x=t.0;t.1}',
    ('scalar', 'mul'):
        '{letz:Wide=as_wide(x)*as_wide(y)+as_wide(carry);letbits=mem::size_of::<Limb>()*8;(as_limb(z),as_limb(z>>bits))}',
    ('scalar', 'imul'):
        '{lett=mul(*x,y,carry);*x=t.0;t.1}',
    ('small', 'iadd_impl'):
        '{ifx.len()<=xstart{x.push(y);}else{letmutcarry=scalar::iadd(&mutx[xstart],y);letmutsize=xstart+1;whilecarry&&size<x.len(){carry=scalar::iadd(&mutx[size],1);size+=1;}ifcarry{x.push(1);}}}',
    ('small', 'iadd'):
        '{iadd_impl(x,y,0);}',
    ('small', 'isub_impl'):
        '{debug_assert!(x.len()>xstart&&(x[xstart]>=y||x.len()>xstart+1));letmutcarry=scalar::isub(&mutx[xstart],y);letmutsize=xstart+1;whilecarry&&size<x.len(){carry=scalar::isub(&mutx[size],1);size+=1;}normalize(x);}',
    ('small', 'imul'):
        '{letmutcarry:Limb=0;forxiin&mut*x{carry=scalar::imul(xi,y,carry);}ifcarry!=0{x.push(carry);}}',
    ('small', 'mul'):
        '{letmutz=Vec::<Limb>::default();z.extend_from_slice(x);imul(&mutz,y);z}',
    ('small', 'imul_pow5'):
        '{usesuper::large::KARATSUBA_CUTOFF;letsmall_powers=POW5_LIMB;letlarge_powers=large_powers::POW5;ifn==0{return;}letbit_length=32-n.leading_zeros()asusize;debug_assert!(bit_length!=0&&bit_length<=large_powers.len());ifx.len()+large_powers[bit_length-1].len()<2*KARATSUBA_CUTOFF{letstep=small_powers.len()-1;letpower=small_powers[step];letmutn=nasusize;whilen>=step{imul(x,power);n-=step;}imul(x,small_powers[n]);}else{letmutidx:usize=0;letmutbit:usize=1;letmutn=nasusize;whilen!=0{ifn&bit!=0{debug_assert!(idx<large_powers.len());large::imul(x,large_powers[idx]);n^=bit;}idx+=1;bit<<=1;}}}',
    ('small', 'leading_zeros'):
        '{x.last().map_or(0,|x|x.leading_zeros()asusize)}',
    ('small', 'bit_length'):
        '{letbits=mem::size_of::<Limb>()*8;letnlz=leading_zeros(x);bits.checked_mul(x.len()).map_or_else(usize::max_value,|v|v-nlz)}',
    ('small', 'ishl_bits'):
        '{letbits=mem::size_of::<Limb>()*8;debug_assert!(n<bits);ifn==0{return;}letrshift=bits-n;letlshift=n;letmutprev:Limb=0;forxiin&mut*x{lettmp=*xi;*xi<<=lshift;*xi|=prev>>rshift;prev=tmp;}letcarry=prev>>rshift;ifcarry!=0{x.push(carry);}}',
    ('small', 'ishl_limbs'):
        '{debug_assert!(n!=0);if!x.is_empty(){x.reserve(n);x.splice(..0,iter::repeat(0).take(n));}}',
    ('small', 'ishl'):
        '{letbits=mem::size_of::<Limb>()*8;letrem=n%bits;letdiv=n/bits;ishl_bits(x,rem);ifdiv!=0{ishl_limbs(x,div);}}',
    ('small', 'normalize'):
        '{whilex.last()==Some(&0){x.pop();}}',
    ('large', 'compare'):
        '{ifx.len()>y.len(){cmp::Ordering::Greater}elseifx.len()<y.len(){cmp::Ordering::Less}else{letiter=x.iter().rev().zip(y.iter().rev());for(&xi,&yi)initer{ifxi>yi{returncmp::Ordering::Greater;}elseifxi<yi{returncmp::Ordering::Less;}}cmp::Ordering::Equal}}',
    ('large', 'less'):
        '{compare(x,y)==cmp::Ordering::Less}',
    ('large', 'greater_equal'):
        '{!less(x,y)}',
    ('large', 'iadd_impl'):
        '{ify.len()>x.len()-xstart{x.resize(y.len()+xstart,0);}letmutcarry=false;for(xi,yi)inx[xstart..].iter_mut().zip(y.iter()){letmuttmp=scalar::iadd(xi,*yi);ifcarry{tmp|=scalar::iadd(xi,1);}carry=tmp;}ifcarry{small::iadd_impl(x,1,y.len()+xstart);}}',
    ('large', 'iadd'):
        '{iadd_impl(x,y,0);}',
    ('large', 'add'):
        '{letmutz=Vec::<Limb>::default();z.extend_from_slice(x);iadd(&mutz,y);z}',
    ('large', 'isub'):
        '{debug_assert!(greater_equal(x,y));letmutcarry=false;for(xi,yi)inx.iter_mut().zip(y.iter()){letmuttmp=scalar::isub(xi,*yi);ifcarry{tmp|=scalar::isub(xi,1);}carry=tmp;}ifcarry{small::isub_impl(x,1,y.len());}else{small::normalize(x);}}',
    ('large', 'long_mul'):
        '{letmutz:Vec<Limb>=small::mul(x,y[0]);z.resize(x.len()+y.len(),0);for(i,&yi)iny[1..].iter().enumerate(){letzi:Vec<Limb>=small::mul(x,yi);iadd_impl(&mutz,&zi,i+1);}small::normalize(&mutz);z}',
    ('large', 'karatsuba_split'):
        '{(&z[..m],&z[m..])}',
    ('large', 'karatsuba_mul'):
        '{ify.len()<=KARATSUBA_CUTOFF{long_mul(x,y)}elseifx.len()<y.len()/2{karatsuba_uneven_mul(x,y)}else{letm=y.len()/2;let(xl,xh)=karatsuba_split(x,m);let(yl,yh)=karatsuba_split(y,m);letsumx=add(xl,xh);letsumy=add(yl,yh);letz0=karatsuba_mul(xl,yl);letmutz1=karatsuba_mul(&sumx,&sumy);letz2=karatsuba_mul(xh,yh);isub(&mutz1,&z2);isub(&mutz1,&z0);letlen=z0.len().max(m+z1.len()).max(2*m+z2.len());letmutresult=z0;result.reserve_exact(len-result.len());iadd_impl(&mutresult,&z1,m);iadd_impl(&mutresult,&z2,2*m);result}}',
    ('large', 'karatsuba_uneven_mul'):
        '{letmutresult=Vec::<Limb>::default();result.resize(x.len()+y.len(),0);letmutstart=0;while!y.is_empty(){letm=x.len().min(y.len());let(yl,yh)=karatsuba_split(y,m);letprod=karatsuba_mul(x,yl);iadd_impl(&mutresult,&prod,start);y=yh;start+=m;}small::normalize(&mutresult);result}',
    ('large', 'karatsuba_mul_fwd'):
        '{ifx.len()<y.len(){karatsuba_mul(x,y)}else{karatsuba_mul(y,x)}}',
    ('large', 'imul'):
        '{ify.len()==1{small::imul(x,y[0]);}else{*x=karatsuba_mul_fwd(x,y);}}',
    ('', 'nonzero'):
        '{letlen=x.len();letslc=&x[..len-rindex];slc.iter().rev().any(|&x|x!=T::ZERO)}',
    ('', 'u64_to_hi64_1'):
        '{debug_assert!(r0!=0);letls=r0.leading_zeros();(r0<<ls,false)}',
    ('', 'u64_to_hi64_2'):
        '{debug_assert!(r0!=0);letls=r0.leading_zeros();letrs=64-ls;letv=matchls{0=>r0,_=>(r0<<ls)|(r1>>rs),};letn=r1<<ls!=0;(v,n)}',
}


def gen_lexmath(lines):
    """limb tables of large_powers64.rs, KARATSUBA_CUTOFF, the limb width the sandbox compiles, and the shape of every
    function of math.rs that Model/LexMath.lean transcribes (whitespace- and comment-insensitive)"""
    mt_raw = src("lexical/math.rs")
    mt = re.sub(r"\s+", "", strip_rust_comments(mt_raw))
    br = re.sub(r"\s+", "", strip_rust_comments(open(os.path.join(REPO, "build.rs"), encoding="utf-8").read()))
    lines.append("/-! limb width: `build.rs` emits `fast_arithmetic=\"64\"` on every target with 64-bit pointers (the sandbox: x86_64);")
    lines.append("    `math.rs` then has `type Limb = u64; type Wide = u128;` -/")
    if '||target_pointer_width=="64"{println!("cargo:rustc-cfg=fast_arithmetic=\\"64\\"");}' not in br:
        miss("lexical.math.width", "build.rs no longer selects fast_arithmetic=\"64\" for 64-bit pointer targets")
    if '#[cfg(fast_arithmetic="64")]pubtypeLimb=u64;' not in mt or '#[cfg(fast_arithmetic="64")]typeWide=u128;' not in mt:
        miss("lexical.math.width", "Limb = u64 / Wide = u128 under fast_arithmetic=\"64\" not found")
    lines.append("def limbBits : Nat := 64")
    m = re.search(r"pubconstKARATSUBA_CUTOFF:usize=(\d+);", mt)
    if not m: miss("lexical.math.cutoff", "pub const KARATSUBA_CUTOFF: usize = n not found")
    lines.append("/-- `large::KARATSUBA_CUTOFF` -/")
    lines.append("def karatsubaCutoff : Nat := %s" % (m.group(1) if m else "0"))
    lines.append("")
    lp = src("lexical/large_powers64.rs")
    lines.append("/-! `lexical/large_powers64.rs`: `POW5[k]` as little-endian 64-bit limb vectors (`Gen.largePow5` has them assembled) -/")
    m = re.search(r"const\s+POW5\s*:\s*\[\s*&\[u64\]\s*;\s*(\d+)\s*\]\s*=\s*\[(.*?)\]\s*;", strip_rust_comments(lp), re.S)
    rows = []
    if not m: miss("lexical.math.POW5", "const POW5: [&[u64]; N] not found")
    else:
        names = [x.strip().lstrip("&") for x in m.group(2).split(",") if x.strip()]
        if len(names) != int(m.group(1)): miss("lexical.math.POW5", "declared length differs from the number of entries")
        for nm in names:
            limbs = rust_array(lp, nm, "lexical.math." + nm)
            if any(x >= 2 ** 64 for x in limbs): miss("lexical.math." + nm, "limb out of u64 range")
            rows.append(limbs)
    lines.append("def largePow5Limbs : List (List Nat) :=\n  [" + ",\n   ".join(lean_nat_list(r, 6).replace("\n   ", "\n    ") for r in rows) + "]")
    if "pub(crate)uselarge_powers64::*;" not in re.sub(r"\s+", "", strip_rust_comments(src("lexical/large_powers.rs"))).replace("super::", ""):
        miss("lexical.math.large_powers", "large_powers.rs no longer re-exports large_powers64 under fast_arithmetic=\"64\"")
    lines.append("")
    # shapes
    ok = True
    def modbody(name):
        return fn_body(mt_raw, r"\nmod\s+%s\s*\{" % name)
    for (mod, fn), want in LEXMATH_SHAPES.items():
        key = "lexical.math." + (mod + "." if mod else "") + fn
        scope = modbody(mod) if mod else mt_raw
        body = fn_body(scope, r"fn\s+%s\s*(<[^>]*>)?\(" % fn) if scope else None
        if body is None:
            miss(key, "function not found"); ok = False; continue
        if re.sub(r"\s+", "", strip_rust_comments(body)) != want:
            miss(key, "body changed shape (Model/LexMath.lean transcribes `%s`)" % want[:60]); ok = False
    hi = ["implHi64<u64>for[u64]{#[inline]fnhi64_1(&self)->(u64,bool){debug_assert!(self.len()==1);letr0=self[0];u64_to_hi64_1(r0)}",
          "fnhi64_2(&self)->(u64,bool){debug_assert!(self.len()>=2);letr0=self[self.len()-1];letr1=self[self.len()-2];let(v,n)=u64_to_hi64_2(r0,r1);(v,n||nonzero(self,2))}",
          "fnhi64_3(&self)->(u64,bool){self.hi64_2()}",
          "fnhi64(&self)->(u64,bool){matchself.as_ref().len(){0=>(0,false),1=>self.hi64_1(),2=>self.hi64_2(),_=>self.hi64_3(),}}",
          "fnfrom_u64(x:u64)->Self{letmutv=Self::default();letslc=split_u64(x);v.data_mut().extend_from_slice(&slc);v.normalize();v}",
          "#[cfg(fast_arithmetic=\"64\")]fnsplit_u64(x:u64)->[Limb;1]{[as_limb(x)]}",
          "fnimul_pow10(&mutself,n:u32){self.imul_pow5(n);self.imul_pow2(n);}",
          "fnimul_pow2(&mutself,n:u32){self.ishl(nasusize);}",
          "fnimul_pow5(&mutself,n:u32){small::imul_pow5(self.data_mut(),n);}",
          "fnimul_small(&mutself,y:Limb){small::imul(self.data_mut(),y);}",
          "fniadd_small(&mutself,y:Limb){small::iadd(self.data_mut(),y);}",
          "fncompare(&self,y:&Self)->cmp::Ordering{large::compare(self.data(),y.data())}",
          "fnbit_length(&self)->usize{small::bit_length(self.data())}",
          "fnishl(&mutself,n:usize){small::ishl(self.data_mut(),n);}",
          "fnhi64(&self)->(u64,bool){self.data().as_slice().hi64()}"]
    for i, w in enumerate(hi):
        if w not in mt:
            miss("lexical.math.trait.%d" % i, "expression changed shape (expected `%s`)" % w[:70]); ok = False
    lines.append("/-- every function of `math.rs` transcribed in `Model/LexMath.lean` still has the transcribed shape -/")
    lines.append("def mathShapeAsTranscribed : Bool := %s" % ("true" if ok else "false"))


GENERATORS.append(("LexMath", gen_lexmath))


# ------------------------------------------------------------------ private tokens (C01/C02/C04 under arbitrary_precision)
def gen_token_raw(lines, vd, visit_map_norm, de):
    """the places that give the RawValue token its reading (`raw_value`): `KeyClassifier`'s RawValue arms, `visit_map`'s
    RawValue arm, `raw::BoxedFromString` (seed = `deserialize_str`, a visitor with `visit_str` / `visit_string` only, both
    accepting any string), `from_str` / `from_trait` (fresh `Deserializer`, `end()`), `de::Error::custom` = `make_error`
    (position parsed back out of the message)"""
    def squash(t): return re.sub(r"\s+", " ", re.sub(r"//[^\n]*", "", t or "")).strip()
    body = fn_body(vd, r"impl<'de> Visitor<'de> for KeyClassifier \{")
    if len(re.findall(r"crate::raw::TOKEN\s*=>\s*Ok\(KeyClass::RawValue\)", body or "")) != 2:
        miss("de.token.raw.keyclassifier", "KeyClassifier no longer classifies the decoded key by equality with raw::TOKEN")
    arm = ('#[cfg(feature = "raw_value")] Some(KeyClass::RawValue) => { let value = tri!(visitor.next_value_seed(crate::raw::BoxedFromString)); '
           'crate::from_str(value.get()).map_err(de::Error::custom) }') in visit_map_norm
    if not arm: miss("de.token.raw.visit_map", "ValueVisitor::visit_map: the KeyClass::RawValue arm differs from the transcribed one")
    lines.append("/-- `ValueVisitor::visit_map`'s RawValue arm: one `next_value_seed(BoxedFromString)`, then `crate::from_str(value.get()).map_err(de::Error::custom)` -/")
    lines.append("def rawTokenArmTranscribed : Bool := %s" % ("true" if arm else "false"))
    rw = src("raw.rs")
    seed = squash(fn_body(rw, r"impl<'de> DeserializeSeed<'de> for BoxedFromString \{"))
    if "deserializer.deserialize_str(self)" not in seed:
        miss("de.token.raw.seed", "BoxedFromString's seed is no longer deserialize_str(self)")
    vis = fn_body(rw, r"impl<'de> Visitor<'de> for BoxedFromString \{") or ""
    fns = sorted(re.findall(r"\bfn (\w+)", vis))
    m = re.search(r'fn expecting\(&self, formatter: &mut fmt::Formatter\) -> fmt::Result \{\s*formatter\.write_str\("((?:[^"\\]|\\.)*)"\)', vis)
    if fns != ["expecting", "visit_str", "visit_string"] or not m:
        miss("de.token.raw.visitor", "BoxedFromString's visitor methods are %r, transcribed: expecting, visit_str, visit_string" % fns)
    sq = squash(vis)
    if "Ok(RawValue::from_owned(s.to_owned().into_boxed_str()))" not in sq or "Ok(RawValue::from_owned(s.into_boxed_str()))" not in sq:
        miss("de.token.raw.visit_str", "BoxedFromString::visit_str / visit_string no longer accept every string as it is")
    g = squash(fn_body(rw, r"pub fn get\(&self\) -> &str"))
    if g != "{ &self.json }": miss("de.token.raw.get", "RawValue::get is no longer the stored text: %r" % g)
    lines.append("/-- `BoxedFromString`'s `expecting` text (the tail of serde's `invalid type` message) -/")
    lines.append("def boxedFromStringExpecting : List UInt8 := %s" % lean_bytes(rust_str_bytes(m.group(1)) if m else b""))
    fs = squash(fn_body(de, r"pub fn from_str<'a, T>\(s: &'a str\) -> Result<T>"))
    if fs != "{ from_trait(read::StrRead::new(s)) }": miss("de.token.raw.from_str", "from_str differs from the transcribed one: %r" % fs)
    ft = squash(fn_body(de, r"fn from_trait<'de, R, T>\(read: R\) -> Result<T>"))
    if ft != "{ let mut de = Deserializer::new(read); let value = tri!(de::Deserialize::deserialize(&mut de)); tri!(de.end()); Ok(value) }":
        miss("de.token.raw.from_trait", "from_trait differs from the transcribed one: %r" % ft)
    er = src("error.rs")
    cu = squash(fn_body(er, r"fn custom<T: Display>\(msg: T\) -> Error"))
    mk = squash(fn_body(er, r"fn make_error\(mut msg: String\) -> Error"))
    if cu != "{ make_error(msg.to_string()) }" or "let (line, column) = parse_line_col(&mut msg).unwrap_or((0, 0));" not in mk \
            or "code: ErrorCode::Message(msg.into_boxed_str()), line, column," not in mk:
        miss("de.token.raw.custom", "de::Error::custom / make_error differ from the transcribed ones")


def gen_token(lines):
    """number.rs / raw.rs `TOKEN`, and the places of value/de.rs, number.rs, de.rs that give the Number token its reading:
    `KeyClassifier::visit_str`, `ValueVisitor::visit_map`, `NumberFromString`, `end_map`"""
    def token(fname, key):
        m = re.search(r'const TOKEN: &str = "((?:[^"\\]|\\.)*)";', src(fname))
        if not m: miss("de.token." + key, "const TOKEN not found in " + fname); return b""
        return rust_str_bytes(m.group(1))
    lines.append("/-- `number::TOKEN` -/")
    lines.append("def numberToken : List UInt8 := %s" % lean_bytes(token("number.rs", "number")))
    lines.append("/-- `raw::TOKEN` -/")
    lines.append("def rawToken : List UInt8 := %s" % lean_bytes(token("raw.rs", "raw")))
    vd = src("value/de.rs")
    # KeyClassifier: the key is compared after unescaping (visit_str / visit_string on the decoded text), by string equality
    body = fn_body(vd, r"impl<'de> Visitor<'de> for KeyClassifier \{")
    arms = re.findall(r"crate::number::TOKEN\s*=>\s*Ok\(KeyClass::Number\)", body or "")
    if len(arms) != 2 or not re.search(r"fn visit_str<E>\(self, s: &str\)", body or "") or not re.search(r"deserializer\.deserialize_str\(self\)", vd):
        miss("de.token.keyclassifier", "KeyClassifier no longer classifies the decoded key by equality with number::TOKEN")
    # visit_map: first key only; Number arm = one next_value::<NumberFromString>(), nothing else is read
    vm = fn_body(vd, r"fn visit_map<V>\(self, mut visitor: V\) -> Result<Value, V::Error>")
    norm = re.sub(r"\s+", " ", vm or "")
    arm = re.search(r"match tri!\(visitor\.next_key_seed\(KeyClassifier\)\) \{ #\[cfg\(feature = \"arbitrary_precision\"\)\] Some\(KeyClass::Number\) => \{ let number: NumberFromString = tri!\(visitor\.next_value\(\)\); Ok\(Value::Number\(number\.value\)\) \}", norm)
    if not arm: miss("de.token.visit_map", "ValueVisitor::visit_map: the KeyClass::Number arm differs from the transcribed one")
    lines.append("/-- `ValueVisitor::visit_map` classifies the FIRST key only and reads exactly one value for the Number token -/")
    lines.append("def tokenArmTranscribed : Bool := %s" % ("true" if arm else "false"))
    nb = src("number.rs")
    m = re.search(r'impl<\'de> de::Deserialize<\'de> for NumberFromString \{.*?formatter\.write_str\("((?:[^"\\]|\\.)*)"\).*?let n = tri!\(s\.parse\(\)\.map_err\(de::Error::custom\)\);.*?deserializer\.deserialize_str\(Visitor\)', nb, re.S)
    if not m: miss("de.token.numberfromstring", "NumberFromString: deserialize_str + s.parse().map_err(custom) not found")
    lines.append("/-- `NumberFromString`'s `expecting` text (the tail of serde's `invalid type` message) -/")
    lines.append("def numberFromStringExpecting : List UInt8 := %s" % lean_bytes(rust_str_bytes(m.group(1)) if m else b""))
    de = src("de.rs")
    em = re.sub(r"\s+", " ", fn_body(de, r"fn end_map\(&mut self\) -> Result<\(\)>") or "")
    want = ("{ match tri!(self.parse_whitespace()) { Some(b'}') => { self.eat_char(); Ok(()) } "
            "Some(b',') => Err(self.peek_error(ErrorCode::TrailingComma)), "
            "Some(_) => Err(self.peek_error(ErrorCode::TrailingCharacters)), "
            "None => Err(self.peek_error(ErrorCode::EofWhileParsingObject)), } }")
    if em != want: miss("de.token.end_map", "end_map differs from the transcribed one: %r" % em)
    fs = re.sub(r"\s+", " ", fn_body(de, r"impl FromStr for Number \{") or "")
    if "Deserializer::from_str(s) .parse_any_signed_number() .map(Into::into)" not in fs:
        miss("de.token.from_str", "Number::from_str is no longer parse_any_signed_number on the whole string")
    gen_token_raw(lines, vd, norm, de)
GENERATORS.append(("Token", gen_token))
# ------------------------------------------------------------------ ser.rs: is every writer-facing call checked? (C13)
def _close_paren(t, i):
    """index of the `)` matching the `(` at t[i] (string / char literals skipped)"""
    depth, j, n = 0, i, len(t)
    while j < n:
        c = t[j]
        if c == '"':
            j += 1
            while t[j] != '"':
                j += 2 if t[j] == "\\" else 1
            j += 1; continue
        if c == "'":
            mm = re.match(r"'(?:[^'\\]|\\.[^']*)'", t[j:])
            if mm: j += mm.end(); continue
        if c == "(": depth += 1
        elif c == ")":
            depth -= 1
            if depth == 0: return j
        j += 1
    return -1


def gen_write(lines):
    """Every expression of src/ser.rs through which bytes can reach the `io::Write` — `writer.write_all(..)`, a `Formatter`
    method call, `format_escaped_str(_contents)`, `indent` — must hand its `io::Result` on: under `tri!(..)`, followed by
    `?`, after `return`, as the tail expression of its block / match arm, or scrutinised by a `match` that stores the error
    (`collect_str`'s adapter). Anything else (`let _ = ..;`, a bare `..;`, `.ok()`, `let r = ..;` …) is listed with its line."""
    raw = src("ser.rs")
    # keep offsets -> lines: blank the comments out instead of deleting them
    t = re.sub(r"/\*.*?\*/", lambda m: re.sub(r"[^\n]", " ", m.group(0)), raw, flags=re.S)
    t = re.sub(r"//[^\n]*", lambda m: " " * len(m.group(0)), t)
    pats = [
        r"\b(?:writer|wr)\s*\.\s*write_all\s*\(",
        r"\b(?:(?:self|ser|serializer)\s*\.\s*)*formatter\s*\.\s*\w+\s*\(",
        r"\bself\s*\.\s*(?:begin_\w+|end_\w+|write_\w+)\s*\(\s*writer\b",
        r"(?<!fn )\b(?:format_escaped_str_contents|format_escaped_str|indent)\s*\(",
    ]
    seen, kinds, unchecked = set(), {"tri": 0, "tail": 0, "return": 0, "question": 0, "match": 0}, []
    for pat in pats:
        for m in re.finditer(pat, t):
            if m.start() in seen: continue
            seen.add(m.start())
            line = t.count("\n", 0, m.start()) + 1
            op = t.index("(", m.end() - 1) if t[m.end() - 1] != "(" else m.end() - 1
            # pattern 3 ends after `writer`: its `(` is the one before
            if pat == pats[2]: op = t.rindex("(", m.start(), m.end())
            cl = _close_paren(t, op)
            if cl < 0: unchecked.append(line); continue
            rest = t[cl + 1:]
            mm = re.match(r"\s*\.\s*map_err\(Error::io\)", rest)
            if mm: rest = rest[mm.end():]
            nx = rest.lstrip()[:1]
            before = t[:m.start()].rstrip()
            if nx == ")" and before.endswith("tri!("): kinds["tri"] += 1
            elif nx == "?": kinds["question"] += 1
            elif nx == ";" and before.endswith("return"): kinds["return"] += 1
            elif nx == "}" and (before[-1:] in "{;}" or before.endswith("=>")): kinds["tail"] += 1
            elif nx == "," and before.endswith("=>"): kinds["tail"] += 1
            elif nx == "{" and before.endswith("match"):
                body = fn_body(rest, r"\{") or ""
                if re.search(r"Err\(err\)\s*=>\s*\{\s*self\.error\s*=\s*Some\(err\);\s*Err\(fmt::Error\)", body): kinds["match"] += 1
                else: unchecked.append(line)
            else: unchecked.append(line)
    total = len(seen)
    if total < 100: miss("ser.writer_calls", "only %d writer-facing calls found in ser.rs (expected > 100): the scanner no longer matches the source" % total)
    lines.append("/-- expressions of `src/ser.rs` through which bytes can reach the `io::Write`: `writer.write_all(..)`, `Formatter` method")
    lines.append("    calls, `format_escaped_str(_contents)`, `indent` -/")
    lines.append("def serWriterCalls : Nat := %d" % total)
    lines.append("/-- … of which: under `tri!(..)`; tail expression of a block or match arm; after `return`; followed by `?`;")
    lines.append("    scrutinised by a `match` whose `Err` arm stores the error (`collect_str`) -/")
    lines.append("def serWriterCallsTri : Nat := %d" % kinds["tri"])
    lines.append("def serWriterCallsTail : Nat := %d" % kinds["tail"])
    lines.append("def serWriterCallsReturn : Nat := %d" % kinds["return"])
    lines.append("def serWriterCallsQuestion : Nat := %d" % kinds["question"])
    lines.append("def serWriterCallsMatched : Nat := %d" % kinds["match"])
    lines.append("/-- source lines of the calls whose `io::Result` is NOT handed on in one of these ways -/")
    lines.append("def serUncheckedWriterCalls : List Nat := [%s]" % ", ".join(str(x) for x in sorted(unchecked)))
    other = [t.count("\n", 0, mo.start()) + 1 for mo in re.finditer(r"\b(?:writer|wr)\s*\.\s*(\w+)\s*\(", t) if mo.group(1) != "write_all"]
    lines.append("/-- source lines where a method other than `write_all` is called on the writer (`write`, `flush`, `write_fmt`, …) -/")
    lines.append("def serWriterOtherMethodCalls : List Nat := [%s]" % ", ".join(str(x) for x in other))
    m = re.search(r"macro_rules! tri \{\s*\(\$e:expr \$\(,\)\?\) => \{\s*match \$e \{\s*core::result::Result::Ok\(val\) => val,\s*"
                  r"core::result::Result::Err\(err\) => return core::result::Result::Err\(err\),\s*\}\s*\};\s*\}", src("lib.rs"))
    if not m: miss("ser.tri", "`macro_rules! tri` in lib.rs is not `match $e { Ok(val) => val, Err(err) => return Err(err) }` any more")
    lines.append("/-- `tri!` is `match $e { Ok(val) => val, Err(err) => return Err(err) }` (src/lib.rs) -/")
    lines.append("def triReturnsErr : Bool := %s" % ("true" if m else "false"))


GENERATORS.append(("Write", gen_write))
# ------------------------------------------------------------------ read.rs escape decoding of the two readers (C09, C05)
def gen_readesc(lines):
    """data of `parse_escape`, `ignore_escape`, `parse_unicode_escape` and `SliceRead::decode_hex_escape`:
    escape letters, surrogate bounds, the pair-combining constants, the length of a hex group"""
    t = strip_rust_comments(src("read.rs"))
    B = r"b'(?:\\x[0-9a-fA-F]{2}|\\.|[^'\\])'"
    lines.append("/-! ## `src/read.rs`: `parse_escape`, `ignore_escape`, `parse_unicode_escape`, `decode_hex_escape` -/")
    body = fn_body(t, r"fn parse_escape\b[^{]*\{") or ""
    arms = re.findall(r"(%s)\s*=>\s*scratch\.push\(\s*(%s)\s*\)\s*," % (B, B), body)
    um = re.search(r"(%s)\s*=>\s*return\s+parse_unicode_escape\(\s*read\s*,\s*validate\s*,\s*scratch\s*\)\s*," % B, body)
    dm = re.search(r"_\s*=>\s*return\s+error\(\s*read\s*,\s*ErrorCode::InvalidEscape\s*\)", body)
    if not arms or not um or not dm or len(re.findall(r"=>", body)) != len(arms) + 2:
        miss("readesc.parse_escape", "arms `b'x' => scratch.push(b'y')`, `b'u' => return parse_unicode_escape(..)`, `_ => return error(read, InvalidEscape)` not found")
    lines.append("/-- `parse_escape`: the arms `b'X' => scratch.push(b'Y')` in source order as (X, Y); `_ => InvalidEscape` -/")
    lines.append("def parseEscapeArms : List (UInt8 × UInt8) := [%s]" % ", ".join("(0x%02x, 0x%02x)" % (byte_lit(a), byte_lit(b)) for a, b in arms))
    lines.append("/-- `parse_escape`: the byte of the arm `=> return parse_unicode_escape(read, validate, scratch)` -/")
    lines.append("def parseEscapeUni : UInt8 := 0x%02x" % (byte_lit(um.group(1)) if um else 0))
    body = fn_body(t, r"fn ignore_escape\b[^{]*\{") or ""
    im = re.search(r"((?:%s\s*\|\s*)*%s)\s*=>\s*\{\s*\}" % (B, B), body)
    iu = re.search(r"(%s)\s*=>\s*\{\s*tri!\(\s*read\.decode_hex_escape\(\)\s*\)\s*;\s*\}" % B, body)
    idf = re.search(r"_\s*=>\s*\{\s*return\s+error\(\s*read\s*,\s*ErrorCode::InvalidEscape\s*\)\s*;\s*\}", body)
    if not im or not iu or not idf or len(re.findall(r"=>", body)) != 3:
        miss("readesc.ignore_escape", "arms `b'\"' | … => {}`, `b'u' => { tri!(read.decode_hex_escape()); }`, `_ => { return error(read, InvalidEscape); }` not found")
    lines.append("/-- `ignore_escape`: the alternatives of the arm `… => {}`, and the byte of the arm that calls `decode_hex_escape` -/")
    lines.append("def ignoreEscapeLetters : List UInt8 := [%s]" % ", ".join("0x%02x" % byte_lit(x) for x in re.findall(B, im.group(1) if im else "")))
    lines.append("def ignoreEscapeUni : UInt8 := 0x%02x" % (byte_lit(iu.group(1)) if iu else 0))
    body = fn_body(t, r"fn parse_unicode_escape\b[^{]*\{") or ""
    N = r"(0x[0-9a-fA-F_]+|\d[\d_]*)"
    g1 = re.search(r"if\s+validate\s*&&\s*n\s*>=\s*%s\s*&&\s*n\s*<=\s*%s\s*\{\s*return\s+error\(\s*read\s*,\s*ErrorCode::LoneLeadingSurrogateInHexEscape\s*\)" % (N, N), body)
    g2 = re.search(r"if\s+n\s*<\s*%s\s*\|\|\s*n\s*>\s*%s\s*\{\s*push_wtf8_codepoint\(\s*n\s+as\s+u32\s*,\s*scratch\s*\)\s*;\s*return\s+Ok\(\(\)\)" % (N, N), body)
    g3 = re.search(r"if\s+n2\s*<\s*%s\s*\|\|\s*n2\s*>\s*%s\s*\{\s*if\s+validate\s*\{\s*return\s+error\(\s*read\s*,\s*ErrorCode::LoneLeadingSurrogateInHexEscape\s*\)" % (N, N), body)
    g4 = re.search(r"let\s+n\s*=\s*\(\(\(\(n1\s*-\s*%s\)\s*as\s+u32\)\s*<<\s*(\d+)\)\s*\|\s*\(n2\s*-\s*%s\)\s*as\s+u32\)\s*\+\s*%s\s*;" % (N, N, N), body)
    p1 = re.search(r"if\s+tri!\(\s*peek_or_eof\(read\)\s*\)\s*==\s*(%s)\s*\{\s*read\.discard\(\)\s*;\s*\}\s*else\s*\{\s*return\s+if\s+validate\s*\{\s*read\.discard\(\)\s*;\s*error\(\s*read\s*,\s*ErrorCode::UnexpectedEndOfHexEscape\s*\)\s*\}\s*else\s*\{\s*push_wtf8_codepoint\(\s*n1\s+as\s+u32\s*,\s*scratch\s*\)\s*;\s*Ok\(\(\)\)" % B, body)
    p2 = re.search(r"if\s+tri!\(\s*peek_or_eof\(read\)\s*\)\s*==\s*(%s)\s*\{\s*read\.discard\(\)\s*;\s*\}\s*else\s*\{\s*return\s+if\s+validate\s*\{\s*read\.discard\(\)\s*;\s*error\(\s*read\s*,\s*ErrorCode::UnexpectedEndOfHexEscape\s*\)\s*\}\s*else\s*\{\s*push_wtf8_codepoint\(\s*n1\s+as\s+u32\s*,\s*scratch\s*\)\s*;\s*parse_escape\(" % B, body)
    for nm, g in (("trailing_guard", g1), ("not_leading", g2), ("second_not_trailing", g3), ("combine", g4), ("expect_backslash", p1), ("expect_u", p2)):
        if not g: miss("readesc.parse_unicode_escape." + nm, "expression has changed shape")
    iv = lambda g, k: int(g.group(k).replace("_", ""), 0) if g else 0
    lines.append("/-- `parse_unicode_escape`: `validate && n >= A && n <= B` (a trailing surrogate first), `n < C || n > D` (not a leading")
    lines.append("    surrogate), `n2 < E || n2 > F` (second group not a trailing surrogate) -/")
    lines.append("def uniFirstTrailLo : Nat := 0x%04X" % iv(g1, 1))
    lines.append("def uniFirstTrailHi : Nat := 0x%04X" % iv(g1, 2))
    lines.append("def uniLeadLo : Nat := 0x%04X" % iv(g2, 1))
    lines.append("def uniLeadHi : Nat := 0x%04X" % iv(g2, 2))
    lines.append("def uniTrailLo : Nat := 0x%04X" % iv(g3, 1))
    lines.append("def uniTrailHi : Nat := 0x%04X" % iv(g3, 2))
    lines.append("/-- `((((n1 - G) as u32) << S) | (n2 - H) as u32) + K` -/")
    lines.append("def uniPairSubLead : Nat := 0x%04X" % iv(g4, 1))
    lines.append("def uniPairShift : Nat := %d" % iv(g4, 2))
    lines.append("def uniPairSubTrail : Nat := 0x%04X" % iv(g4, 3))
    lines.append("def uniPairBase : Nat := 0x%X" % iv(g4, 4))
    lines.append("/-- the bytes a leading surrogate must be followed by (`peek_or_eof(read) == …`, twice) -/")
    lines.append("def uniExpectBackslash : UInt8 := 0x%02x" % (byte_lit(p1.group(1)) if p1 else 0))
    lines.append("def uniExpectU : UInt8 := 0x%02x" % (byte_lit(p2.group(1)) if p2 else 0))
    sl = fn_body(t, r"impl<'a>\s*Read<'a>\s*for\s+SliceRead<'a>\s*\{") or ""
    body = fn_body(sl, r"fn decode_hex_escape\b[^{]*\{") or ""
    hm = re.search(r"match\s+self\.slice\[self\.index\.\.\]\s*\{\s*\[((?:\s*\w+\s*,)+)\s*\.\.\s*\]\s*=>\s*\{\s*self\.index\s*\+=\s*(\d+)\s*;", body)
    he = re.search(r"_\s*=>\s*\{\s*self\.index\s*=\s*self\.slice\.len\(\)\s*;\s*error\(\s*self\s*,\s*ErrorCode::EofWhileParsingString\s*\)", body)
    nb = len(re.findall(r"\w+", hm.group(1))) if hm else 0
    if not hm or not he or nb != int(hm.group(2)):
        miss("readesc.slice_decode_hex_escape", "`match self.slice[self.index..] { [a, b, c, d, ..] => { self.index += 4; … } _ => { self.index = self.slice.len(); error(self, EofWhileParsingString) } }` not found")
    lines.append("/-- `SliceRead::decode_hex_escape`: number of binders of the slice pattern `[a, b, c, d, ..]` (= the `self.index += N`) -/")
    lines.append("def sliceHexGroupLen : Nat := %d" % nb)
    io = fn_body(t, r"impl<'de,\s*R>\s*Read<'de>\s*for\s+IoRead<R>\s*where\s*R:\s*io::Read,\s*\{") or ""
    body = fn_body(io, r"fn decode_hex_escape\b[^{]*\{") or ""
    pulls = re.findall(r"let\s+(\w+)\s*=\s*tri!\(\s*next_or_eof\(\s*self\s*\)\s*\)\s*;", body)
    if not pulls or not re.search(r"match\s+decode_four_hex_digits\(\s*%s\s*\)" % r"\s*,\s*".join(pulls), body):
        miss("readesc.io_decode_hex_escape", "`let a = tri!(next_or_eof(self)); … match decode_four_hex_digits(a, b, c, d)` not found")
    lines.append("/-- `IoRead::decode_hex_escape`: number of `tri!(next_or_eof(self))` pulls before `decode_four_hex_digits` -/")
    lines.append("def ioHexGroupPulls : Nat := %d" % len(pulls))


GENERATORS.append(("ReadEsc", gen_readesc))

# ------------------------------------------------------------------ the kind of an Io error (C13: "carrying that error's kind")
def gen_iokind(lines):
    t = src("error.rs")
    body = fn_body(t, r"pub fn io\(error: io::Error\) -> Self\s*\{") or ""
    stores = re.search(r"Error\s*\{\s*err:\s*Box::new\(\s*ErrorImpl\s*\{\s*code:\s*ErrorCode::Io\(error\)\s*,\s*line:\s*0\s*,\s*column:\s*0\s*,?\s*\}\s*\)\s*,?\s*\}", body)
    if not stores: miss("iokind.error_io", "`Error::io(error)` = `Error { err: Box::new(ErrorImpl { code: ErrorCode::Io(error), line: 0, column: 0 }) }` not found")
    lines.append("/-- `Error::io(error)` stores the very `io::Error` it is given: `code: ErrorCode::Io(error), line: 0, column: 0` -/")
    lines.append("def errorIoStoresError : Bool := %s" % ("true" if stores else "false"))
    body = fn_body(t, r"pub fn io_error_kind\(&self\) -> Option<ErrorKind>\s*\{") or ""
    inner = re.search(r"if let ErrorCode::Io\((\w+)\) = &self\.err\.code \{\s*Some\(\1\.kind\(\)\)\s*\} else \{\s*None\s*\}", body)
    if not inner: miss("iokind.io_error_kind", "`if let ErrorCode::Io(io_error) = &self.err.code { Some(io_error.kind()) } else { None }` not found")
    lines.append("/-- `Error::io_error_kind`: `if let ErrorCode::Io(io_error) = &self.err.code { Some(io_error.kind()) } else { None }` -/")
    lines.append("def ioErrorKindReturnsInner : Bool := %s" % ("true" if inner else "false"))
    body = fn_body(t, r"pub fn classify\(&self\) -> Category\s*\{") or ""
    cio = re.search(r"ErrorCode::Io\(_\)\s*=>\s*Category::Io", body)
    if not cio: miss("iokind.classify_io", "`ErrorCode::Io(_) => Category::Io` not found in classify")
    lines.append("/-- `classify`: `ErrorCode::Io(_) => Category::Io` -/")
    lines.append("def classifyIoIsIo : Bool := %s" % ("true" if cio else "false"))
    r = src("read.rs")
    io = fn_body(r, r"impl<'de,\s*R>\s*Read<'de>\s*for\s+IoRead<R>\s*where\s*R:\s*io::Read,\s*\{") or ""
    n = 0
    for f in ["next", "peek"]:
        b = fn_body(io, r"fn %s\(&mut self\) -> Result<Option<u8>>\s*\{" % f) or ""
        arms = re.findall(r"Some\(Err\((\w+)\)\)\s*=>\s*Err\(Error::io\(\1\)\)", b)
        others = re.findall(r"Some\(Err\(", b)
        if len(arms) != 1 or len(others) != 1:
            miss("iokind.ioread_" + f, "`Some(Err(err)) => Err(Error::io(err))` is not the one arm for a failed read in IoRead::%s" % f)
        n += len(arms)
    lines.append("/-- `IoRead::next` / `IoRead::peek`: arms `Some(Err(err)) => Err(Error::io(err))` (one each: the only thing done with a failed read) -/")
    lines.append("def ioReadErrArms : Nat := %d" % n)


GENERATORS.append(("IoKind", gen_iokind))


def main():
    os.makedirs(OUT, exist_ok=True)
    for name, fn in GENERATORS:
        lines = ["/-! GENERATED by tools/extract.py from /repo/src — do not edit. -/", "namespace SJ.Gen", ""]
        try:
            fn(lines)
        except Exception as e:  # a restructured source must not crash the check: report it
            miss(name, "extractor failed: %r" % (e,))
        lines += ["", "end SJ.Gen", ""]
        text = "\n".join(lines)
        path = os.path.join(OUT, name + ".lean")
        old = open(path, encoding="utf-8").read() if os.path.exists(path) else None
        if old != text:
            with open(path, "w", encoding="utf-8") as f: f.write(text)
            print("UPDATED", os.path.relpath(path))
    for k, why in missing:
        print("MISSING", k, "—", why)
    print("extract.py: %d generator(s), %d missing construct(s)" % (len(GENERATORS), len(missing)))
    return 0


if __name__ == "__main__":
    sys.exit(main())
