#!/usr/bin/env python3
"""
Translator: /repo/src/*.rs  ->  /verif/lean/SJ/Gen/*.lean   (run at the start of every check)

Everything in the source that is *data* — constants, tables, literal sets, match arms that map one
enum to another — is copied mechanically into Lean definitions; the theorems in SJ/Props are then
re-checked against what the code says now. A construct that can no longer be found is reported as
`MISSING <key> …` (the checks of the properties that consume that key then report a broken tie).
Files are rewritten only when their content changes, so unchanged sources cost no rebuild.
"""
import re, os, sys

REPO = os.environ.get("VERIF_REPO", "/repo")
OUT = os.path.join(os.path.dirname(os.path.abspath(__file__)), "..", "lean", "SJ", "Gen")
missing = []


def src(name):
    with open(os.path.join(REPO, "src", name), encoding="utf-8") as f:
        return f.read()


def miss(key, why):
    missing.append((key, why))


def lean_bytes(b):
    return "[" + ", ".join("0x%02x" % x for x in b) + "]"


def rust_str_bytes(lit):
    """bytes of a Rust string/char literal body (handles the escapes that occur in this crate)"""
    out = bytearray()
    i = 0
    while i < len(lit):
        c = lit[i]
        if c == "\\":
            n = lit[i + 1]
            m = {"n": 10, "t": 9, "r": 13, "\\": 92, '"': 34, "'": 39, "0": 0}
            if n == "x":
                out.append(int(lit[i + 2:i + 4], 16)); i += 4; continue
            if n == "u":
                j = lit.index("}", i)
                out += chr(int(lit[i + 3:j], 16)).encode(); i = j + 1; continue
            out.append(m[n]); i += 2; continue
        out += c.encode(); i += 1
    return bytes(out)


def fn_body(text, header_re):
    """source text of the function whose header matches header_re (balanced braces)"""
    m = re.search(header_re, text)
    if not m: return None
    i = text.index("{", m.end() - 1)
    depth, j = 0, i
    while True:
        if text[j] == "{": depth += 1
        elif text[j] == "}":
            depth -= 1
            if depth == 0: break
        j += 1
    return text[i:j + 1]


# ------------------------------------------------------------------ value/mod.rs (C18)
def gen_pointer(lines):
    t = src("value/mod.rs")
    for fn in ("pointer", "pointer_mut"):
        body = fn_body(t, r"pub fn %s\b[^{]*\{" % fn)
        reps = re.findall(r'\.replace\(\s*"((?:[^"\\]|\\.)*)"\s*,\s*"((?:[^"\\]|\\.)*)"\s*\)', body or "")
        if body is None or not reps:
            miss("pointer." + fn, "no .replace(..) chain found in Value::%s" % fn); reps = []
        name = "ptrReplace" if fn == "pointer" else "ptrMutReplace"
        lines.append("/-- the `.replace(a, b)` chain of `Value::%s`, in source order -/" % fn)
        lines.append("def %s : List (List UInt8 × List UInt8) := [%s]" % (
            name, ", ".join("(%s, %s)" % (lean_bytes(rust_str_bytes(a)), lean_bytes(rust_str_bytes(b))) for a, b in reps)))
        sp = re.search(r"\.split\(\s*'((?:[^'\\]|\\.)*)'\s*\)\s*\.skip\(\s*(\d+)\s*\)", body or "")
        if not sp: miss("pointer." + fn + ".split", "split(c).skip(n) not found")
        c, n = (rust_str_bytes(sp.group(1))[0], int(sp.group(2))) if sp else (0, 0)
        lines.append("def %sSplit : UInt8 × Nat := (0x%02x, %d)" % (name, c, n))
        st = re.search(r"!\s*pointer\.starts_with\(\s*'((?:[^'\\]|\\.)*)'\s*\)", body or "")
        if not st: miss("pointer." + fn + ".starts_with", "leading-slash guard not found")
        lines.append("def %sLead : UInt8 := 0x%02x" % (name, rust_str_bytes(st.group(1))[0] if st else 0))
    body = fn_body(t, r"fn parse_index\b[^{]*\{")
    m = re.search(r"s\.starts_with\('(.)'\)\s*\|\|\s*\(\s*s\.starts_with\('(.)'\)\s*&&\s*s\.len\(\)\s*!=\s*(\d+)\s*\)", body or "")
    if not m or not re.search(r"s\.parse\(\)\.ok\(\)", body or ""):
        miss("pointer.parse_index", "guard `starts_with('+') || (starts_with('0') && len != 1)` / `s.parse().ok()` not found")
        g = (0, 0, 0)
    else:
        g = (ord(m.group(1)), ord(m.group(2)), int(m.group(3)))
    lines.append("/-- `parse_index`: (rejected first byte, leading-zero byte, the only length a leading zero may have) -/")
    lines.append("def parseIndexGuard : UInt8 × UInt8 × Nat := (0x%02x, 0x%02x, %d)" % g)


# ------------------------------------------------------------------ de.rs float tables (C08)
def rust_cond_to_lean(expr, names):
    """translate a small Rust boolean expression over naturals (identifiers in `names`, integer
    literals, / % comparisons && || parentheses) into a Lean `Bool` term; None if anything else occurs"""
    toks = re.findall(r"\$?[A-Za-z_][A-Za-z_0-9]*|\d+|>=|<=|==|!=|&&|\|\||[()<>/%*+-]", expr)
    if "".join(toks) != re.sub(r"\s+", "", expr): return None
    out = []
    for t in toks:
        if t in names: out.append(names[t])
        elif t.isdigit(): out.append(t)
        elif t in ("/", "%", "(", ")", "*", "+"): out.append(t)
        elif t in (">=", "<=", "<", ">", "==", "!="):
            out.append({">=": "≥", "<=": "≤", "==": "=", "!=": "≠"}.get(t, t))
        elif t in ("&&", "||"): out.append(t)
        else: return None
    # every comparison becomes `decide (…)`: split on && / || / parens at top level is not needed for
    # this shape — wrap each maximal comparison chunk
    s = " ".join(out)
    parts = re.split(r"(\&\&|\|\||\(|\))", s)
    res = []
    for p in parts:
        q = p.strip()
        if q in ("&&", "||", "(", ")", ""): res.append(q)
        else: res.append("decide (%s)" % q)
    return " ".join(x for x in res if x)


def gen_pow10(lines):
    t = src("de.rs")
    # --- POW10: literals as written, each must have the form 1e<index>
    m = re.search(r'#\[cfg\(not\(feature\s*=\s*"float_roundtrip"\)\)\]\s*static\s+POW10\s*:\s*\[\s*f64\s*;\s*(\d+)\s*\]\s*=\s*\[(.*?)\];', t, re.S)
    exps, declared = [], 0
    if not m:
        miss("pow10.table", "static POW10: [f64; N] = […] (non-float_roundtrip) not found")
    else:
        declared = int(m.group(1))
        body = re.sub(r"//[^\n]*", "", m.group(2))
        for lit in [x.strip() for x in body.split(",") if x.strip()]:
            mm = re.fullmatch(r"1e(\d+)", lit)
            if not mm:
                miss("pow10.table.entry", "POW10 entry %r is not of the form 1e<digits>" % lit); exps.append(0)
            else:
                exps.append(int(mm.group(1)))
    lines.append("/-- `POW10` of de.rs (non-float_roundtrip): entry `i` is the literal `1e<pow10Exps[i]>`, as written -/")
    lines.append("def pow10Exps : List Nat := [%s]" % ", ".join(str(e) for e in exps))
    lines.append("/-- the declared array length `[f64; N]` -/")
    lines.append("def pow10Declared : Nat := %d" % declared)
    # --- f64_from_parts constants
    body = fn_body(t, r'#\[cfg\(not\(feature\s*=\s*"float_roundtrip"\)\)\]\s*fn f64_from_parts\b[^{]*\{')
    big, step = 0, 0
    if body is None:
        miss("pow10.from_parts", "non-roundtrip f64_from_parts not found")
    else:
        mm = re.search(r"f\s*/=\s*1e(\d+)\s*;\s*exponent\s*\+=\s*(\d+)\s*;", body)
        if not mm: miss("pow10.from_parts.step", "`f /= 1e<N>; exponent += <M>;` not found")
        else: big, step = int(mm.group(1)), int(mm.group(2))
        if not re.search(r"POW10\.get\(\s*exponent\.wrapping_abs\(\)\s+as\s+usize\s*\)", body):
            miss("pow10.from_parts.index", "`POW10.get(exponent.wrapping_abs() as usize)` not found in f64_from_parts")
    lines.append("/-- `f /= 1e<fromPartsBigExp>; exponent += <fromPartsStep>;` in f64_from_parts -/")
    lines.append("def fromPartsBigExp : Nat := %d" % big)
    lines.append("def fromPartsStep : Nat := %d" % step)
    # --- overflow! macro body, translated token by token
    mm = re.search(r"macro_rules!\s*overflow\s*\{\s*\(\$a:ident\s*\*\s*10\s*\+\s*\$b:ident\s*,\s*\$c:expr\)\s*=>\s*\{\s*match\s+\$c\s*\{\s*c\s*=>\s*(.*?),\s*\}\s*\}\s*;\s*\}", t, re.S)
    term = None
    if mm:
        term = rust_cond_to_lean(mm.group(1).strip(), {"$a": "a", "$b": "b", "c": "c"})
    if term is None:
        miss("pow10.overflow_macro", "overflow!($a * 10 + $b, $c) body not found or not translatable")
        term = "false"
    lines.append("/-- `overflow!($a * 10 + $b, $c)`: the macro body `%s`, translated token by token -/" % (mm.group(1).strip() if mm else "?"))
    lines.append("def overflowMacro (a b c : Nat) : Bool := %s" % term)
    # the two call-site bounds
    sites = re.findall(r"overflow!\(\s*(\w+)\s*\*\s*10\s*\+\s*digit\s*,\s*(\w+)::MAX\s*\)", t)
    want = {("significand", "u64"), ("exp", "i32")}
    if set(sites) != want:
        miss("pow10.overflow_sites", "overflow! call sites are %r, expected significand/u64::MAX and exp/i32::MAX" % (sorted(set(sites)),))


GENERATORS = [("Pointer", gen_pointer), ("Pow10", gen_pow10)]


def main():
    os.makedirs(OUT, exist_ok=True)
    for name, fn in GENERATORS:
        lines = ["/-! GENERATED by tools/extract.py from /repo/src — do not edit. -/", "namespace SJ.Gen", ""]
        try:
            fn(lines)
        except Exception as e:  # a restructured source must not crash the check: report it
            miss(name, "extractor failed: %r" % (e,))
        lines += ["", "end SJ.Gen", ""]
        text = "\n".join(lines)
        path = os.path.join(OUT, name + ".lean")
        old = open(path, encoding="utf-8").read() if os.path.exists(path) else None
        if old != text:
            with open(path, "w", encoding="utf-8") as f: f.write(text)
            print("UPDATED", os.path.relpath(path))
    for k, why in missing:
        print("MISSING", k, "—", why)
    print("extract.py: %d generator(s), %d missing construct(s)" % (len(GENERATORS), len(missing)))
    return 0


if __name__ == "__main__":
    sys.exit(main())
