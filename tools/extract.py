#!/usr/bin/env python3
"""
Translator: /repo/src/*.rs  ->  /verif/lean/SJ/Gen/*.lean   (run at the start of every check)

Everything in the source that is *data* — constants, tables, literal sets, match arms that map one
enum to another — is copied mechanically into Lean definitions; the theorems in SJ/Props are then
re-checked against what the code says now. A construct that can no longer be found is reported as
`MISSING <key> …` (the checks of the properties that consume that key then report a broken tie).
Files are rewritten only when their content changes, so unchanged sources cost no rebuild.
"""
import re, os, sys

REPO = os.environ.get("VERIF_REPO", "/repo")
OUT = os.path.join(os.path.dirname(os.path.abspath(__file__)), "..", "lean", "SJ", "Gen")
missing = []


def src(name):
    with open(os.path.join(REPO, "src", name), encoding="utf-8") as f:
        return f.read()


def miss(key, why):
    missing.append((key, why))


def lean_bytes(b):
    return "[" + ", ".join("0x%02x" % x for x in b) + "]"


def rust_str_bytes(lit):
    """bytes of a Rust string/char literal body (handles the escapes that occur in this crate)"""
    out = bytearray()
    i = 0
    while i < len(lit):
        c = lit[i]
        if c == "\\":
            n = lit[i + 1]
            m = {"n": 10, "t": 9, "r": 13, "\\": 92, '"': 34, "'": 39, "0": 0}
            if n == "x":
                out.append(int(lit[i + 2:i + 4], 16)); i += 4; continue
            if n == "u":
                j = lit.index("}", i)
                out += chr(int(lit[i + 3:j], 16)).encode(); i = j + 1; continue
            out.append(m[n]); i += 2; continue
        out += c.encode(); i += 1
    return bytes(out)


def fn_body(text, header_re):
    """source text of the function whose header matches header_re (balanced braces)"""
    m = re.search(header_re, text)
    if not m: return None
    i = text.index("{", m.end() - 1)
    depth, j = 0, i
    while True:
        if text[j] == "{": depth += 1
        elif text[j] == "}":
            depth -= 1
            if depth == 0: break
        j += 1
    return text[i:j + 1]


# ------------------------------------------------------------------ value/mod.rs (C18)
def gen_pointer(lines):
    t = src("value/mod.rs")
    for fn in ("pointer", "pointer_mut"):
        body = fn_body(t, r"pub fn %s\b[^{]*\{" % fn)
        reps = re.findall(r'\.replace\(\s*"((?:[^"\\]|\\.)*)"\s*,\s*"((?:[^"\\]|\\.)*)"\s*\)', body or "")
        if body is None or not reps:
            miss("pointer." + fn, "no .replace(..) chain found in Value::%s" % fn); reps = []
        name = "ptrReplace" if fn == "pointer" else "ptrMutReplace"
        lines.append("/-- the `.replace(a, b)` chain of `Value::%s`, in source order -/" % fn)
        lines.append("def %s : List (List UInt8 × List UInt8) := [%s]" % (
            name, ", ".join("(%s, %s)" % (lean_bytes(rust_str_bytes(a)), lean_bytes(rust_str_bytes(b))) for a, b in reps)))
        sp = re.search(r"\.split\(\s*'((?:[^'\\]|\\.)*)'\s*\)\s*\.skip\(\s*(\d+)\s*\)", body or "")
        if not sp: miss("pointer." + fn + ".split", "split(c).skip(n) not found")
        c, n = (rust_str_bytes(sp.group(1))[0], int(sp.group(2))) if sp else (0, 0)
        lines.append("def %sSplit : UInt8 × Nat := (0x%02x, %d)" % (name, c, n))
        st = re.search(r"!\s*pointer\.starts_with\(\s*'((?:[^'\\]|\\.)*)'\s*\)", body or "")
        if not st: miss("pointer." + fn + ".starts_with", "leading-slash guard not found")
        lines.append("def %sLead : UInt8 := 0x%02x" % (name, rust_str_bytes(st.group(1))[0] if st else 0))
    body = fn_body(t, r"fn parse_index\b[^{]*\{")
    m = re.search(r"s\.starts_with\('(.)'\)\s*\|\|\s*\(\s*s\.starts_with\('(.)'\)\s*&&\s*s\.len\(\)\s*!=\s*(\d+)\s*\)", body or "")
    if not m or not re.search(r"s\.parse\(\)\.ok\(\)", body or ""):
        miss("pointer.parse_index", "guard `starts_with('+') || (starts_with('0') && len != 1)` / `s.parse().ok()` not found")
        g = (0, 0, 0)
    else:
        g = (ord(m.group(1)), ord(m.group(2)), int(m.group(3)))
    lines.append("/-- `parse_index`: (rejected first byte, leading-zero byte, the only length a leading zero may have) -/")
    lines.append("def parseIndexGuard : UInt8 × UInt8 × Nat := (0x%02x, 0x%02x, %d)" % g)


# ------------------------------------------------------------------ error.rs (C09–C13)
def gen_error(lines):
    t = src("error.rs")
    m = re.search(r"pub\(crate\) enum ErrorCode \{(.*?)\n\}", t, re.S)
    if not m: miss("error.enum", "enum ErrorCode not found"); return
    variants = re.findall(r"^\s{4}([A-Z]\w*)(\([^)]*\))?,", m.group(1), re.M)
    plain = [v for v, a in variants if not a]
    lines.append("/-- `ErrorCode` variants without payload, in source order -/")
    lines.append("inductive Code where")
    for v in plain: lines.append("  | " + v)
    lines.append("deriving DecidableEq, Repr, Inhabited")
    lines.append("")
    lines.append("inductive Cat where | io | syntax | data | eof deriving DecidableEq, Repr")
    lines.append("")
    body = fn_body(t, r"pub fn classify\(&self\) -> Category\s*\{")
    arms = re.findall(r"((?:ErrorCode::\w+(?:\([^)]*\))?\s*\|?\s*)+)=>\s*Category::(\w+)", body or "")
    cls = {}
    for lhs, cat in arms:
        for v in re.findall(r"ErrorCode::(\w+)", lhs): cls[v] = cat.lower()
    lines.append("/-- `Error::classify`, arm by arm -/")
    lines.append("def classify : Code → Cat")
    for v in plain:
        if v not in cls: miss("error.classify." + v, "no classify arm"); cls[v] = "syntax"
        lines.append("  | .%s => .%s" % (v, cls[v]))
    lines.append("")
    disp = fn_body(t, r"impl Display for ErrorCode \{")
    msgs = dict(re.findall(r'ErrorCode::(\w+)\s*=>\s*\{?\s*f\.write_str\(\s*"((?:[^"\\]|\\.)*)"\s*\)', disp or ""))
    lines.append("/-- `Display for ErrorCode` messages (bytes) -/")
    lines.append("def message : Code → List UInt8")
    for v in plain:
        if v not in msgs: miss("error.message." + v, "no Display arm"); msgs[v] = v
        lines.append("  | .%s => %s" % (v, lean_bytes(rust_str_bytes(msgs[v]))))
    lines.append("")
    lines.append("def allCodes : List Code := [%s]" % ", ".join("." + v for v in plain))


# ------------------------------------------------------------------ de.rs constants (C01 C10–C14)
def gen_de(lines):
    t = src("de.rs")
    m = re.search(r"remaining_depth:\s*(\d+)", t)
    if not m: miss("de.remaining_depth", "initial remaining_depth not found")
    lines.append("/-- `remaining_depth` initial value in `Deserializer::new` -/")
    lines.append("def remainingDepthInit : Nat := %s" % (m.group(1) if m else "0"))
    body = fn_body(t, r"fn parse_whitespace\(&mut self\)[^{]*\{")
    m = re.search(r"Some\(((?:b'(?:[^'\\]|\\.)'\s*\|?\s*)+)\)\s*=>\s*\{\s*self\.eat_char\(\);", body or "")
    ws = [rust_str_bytes(x)[0] for x in re.findall(r"b'((?:[^'\\]|\\.))'", m.group(1))] if m else []
    if not ws: miss("de.ws", "whitespace set of parse_whitespace not found")
    lines.append("/-- bytes skipped by `parse_whitespace` -/")
    lines.append("def wsBytes : List UInt8 := %s" % lean_bytes(ws))
    body = fn_body(t, r"fn peek_end_of_value\(&mut self\)[^{]*\{")
    m = re.search(r"Some\(((?:b'(?:[^'\\]|\\.)'\s*\|?\s*)+)\)\s*\|\s*None\s*=>\s*Ok", body or "")
    dl = [rust_str_bytes(x)[0] for x in re.findall(r"b'((?:[^'\\]|\\.))'", m.group(1))] if m else []
    if not dl: miss("de.delims", "delimiter set of peek_end_of_value not found")
    lines.append("/-- bytes that may follow a bare scalar in a stream (`peek_end_of_value`) -/")
    lines.append("def streamDelims : List UInt8 := %s" % lean_bytes(dl))
    m = re.search(r"let self_delineated_value = match b \{\s*((?:b'(?:[^'\\]|\\.)'\s*\|?\s*)+)=>\s*true", t)
    sd = [rust_str_bytes(x)[0] for x in re.findall(r"b'((?:[^'\\]|\\.))'", m.group(1))] if m else []
    if not sd: miss("de.selfdelim", "self_delineated_value set not found")
    lines.append("def selfDelineated : List UInt8 := %s" % lean_bytes(sd))
    m = re.search(r"macro_rules! overflow \{\s*\(\$a:ident \* 10 \+ \$b:ident, \$c:expr\) => \{\s*match \$c \{\s*c => (.*?),\s*\}", t, re.S)
    ov = re.sub(r"\s+", " ", m.group(1)) if m else ""
    if ov != "$a >= c / 10 && ($a > c / 10 || $b > c % 10)":
        miss("de.overflow", "overflow! macro body differs from the transcribed one: %r" % ov)
    lines.append("/-- body of `overflow!($a * 10 + $b, $c)` as written (whitespace-normalised) -/")
    lines.append('def overflowMacroBody : String := "%s"' % ov)
    for lit, key in (("ull", "identNull"), ("rue", "identTrue"), ("alse", "identFalse")):
        ok = re.search(r'parse_ident\(b"%s"\)' % lit, t)
        if not ok: miss("de.ident." + key, "parse_ident(b\"%s\") not found" % lit)
        lines.append("def %s : List UInt8 := %s" % (key, lean_bytes(lit.encode() if ok else b"")))


GENERATORS = [("Pointer", gen_pointer), ("Error", gen_error), ("De", gen_de)]


def main():
    os.makedirs(OUT, exist_ok=True)
    for name, fn in GENERATORS:
        lines = ["/-! GENERATED by tools/extract.py from /repo/src — do not edit. -/", "namespace SJ.Gen", ""]
        try:
            fn(lines)
        except Exception as e:  # a restructured source must not crash the check: report it
            miss(name, "extractor failed: %r" % (e,))
        lines += ["", "end SJ.Gen", ""]
        text = "\n".join(lines)
        path = os.path.join(OUT, name + ".lean")
        old = open(path, encoding="utf-8").read() if os.path.exists(path) else None
        if old != text:
            with open(path, "w", encoding="utf-8") as f: f.write(text)
            print("UPDATED", os.path.relpath(path))
    for k, why in missing:
        print("MISSING", k, "—", why)
    print("extract.py: %d generator(s), %d missing construct(s)" % (len(GENERATORS), len(missing)))
    return 0


if __name__ == "__main__":
    sys.exit(main())
