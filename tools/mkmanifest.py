#!/usr/bin/env python3
"""Regenerates /verif/MANIFEST.json from tools/props.py (claimed checks) — run after editing props.py."""
import json, os, sys
ROOT = os.path.dirname(os.path.dirname(os.path.abspath(__file__)))
sys.path.insert(0, os.path.join(ROOT, "tools"))
from props import PROPS, NOT_APPLICABLE

BASELINE = ("cd /repo && cargo nextest run --workspace --no-fail-fast --tool-config-file pb:/w/lib/nextest.toml "
            "--profile pb --test-threads 8 --offline || (cd /repo && cargo test --workspace --no-fail-fast --offline)")

m = {
    "version": 1,
    "setup_cmd": "./check setup",
    "hooks": {
        "guard": "serde_json_verif",
        "enable": "none needed: every observable used by the checks is public API; the cfg name is reserved",
        "baseline_off_cmd": BASELINE,
        "source_commits": [],
        "add_only": True,
    },
    "engines": [
        {"name": "lean-proofs", "path": "lean/SJ", "serves_properties": sorted(PROPS),
         "kind_free_text": "Lean 4 models (SJ/Model), specifications (SJ/Spec), property theorems (SJ/Props), axiom audit (SJ/Audit)"},
        {"name": "translator", "path": "tools/extract.py", "serves_properties": sorted(PROPS),
         "kind_free_text": "regenerates constants/tables from /repo/src into lean/SJ/Gen on every run"},
        {"name": "correspondence", "path": "harness", "serves_properties": sorted(PROPS),
         "kind_free_text": "Rust harness running the real crate in-process, piped into the compiled Lean driver (model + executable spec)"},
    ],
    "checks": [],
    "not_applicable": NOT_APPLICABLE,
    "notes": "All checks: ./check <id> quick|thorough. See DESIGN.md. Known findings: known_findings.json.",
}
for pid in sorted(PROPS):
    p = PROPS[pid]
    m["checks"].append({
        "property_id": pid,
        "quick_cmd": f"./check {pid} quick",
        "thorough_cmd": f"./check {pid} thorough",
        "evidence_file": f"evidence/{pid}.json",
        "replay_cmd_template": f"./check {pid} --replay {{path}}",
        "engine": "lean-proofs+translator+correspondence",
        "level_claimed": {"category": "proof", "text": p["level_text"], "design_ref": p.get("design_ref", "DESIGN.md §6 " + pid)},
        "level_note": p["level_note"],
        "technique": p["technique"],
    })
json.dump(m, open(os.path.join(ROOT, "MANIFEST.json"), "w"), indent=1)
print("MANIFEST.json:", len(m["checks"]), "checks,", len(NOT_APPLICABLE), "not applicable")
