#!/usr/bin/env python3
"""resolve git conflict markers in the given files by keeping both sides (ours first)"""
import sys, re
for p in sys.argv[1:]:
    s = open(p).read()
    out = re.sub(r"<<<<<<< [^\n]*\n(.*?)=======\n(.*?)>>>>>>> [^\n]*\n", lambda m: m.group(1) + m.group(2), s, flags=re.S)
    open(p, "w").write(out)
    print("resolved", p)
