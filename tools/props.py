"""Per-property registry used by ./check (what to build, which configurations, what is trusted)."""

KERNEL = "Lean 4.33 kernel; axioms propext, Classical.choice, Quot.sound only (checked by #print axioms on every listed theorem)"
TIE = "tools/extract.py (regex translator for constants/tables) and the Rust harness + sjdriver correspondence run (differential testing)"

PROPS = {
    "C05": dict(
        lean_targets=["SJ.Props.C05", "SJ.Audit.C05"],
        configs=dict(quick=["d"], thorough=["d"]),
        gen_keys=["escape.", "hex.", "swar.", "Escape", "Hex", "Swar"],
        allowed_axioms=[r".*\._native\.bv_decide\.ax_.*"],
        rule="esc/escbufs: every Unicode scalar value as a one-character string (quick: all below U+3000, every 251st, "
             "surrogate-adjacent and plane boundaries, a random 1%), every byte < 0x80 at every offset of strings of every "
             "length 0..24 over ASCII and mixed 1-4-byte filler, adjacent/leading/trailing escapes, random mixtures up to 500 "
             "chars; hex4/hex4s: all 65 536 values in lower, upper and random mixed case, all 256 substitutions at each of "
             "the 4 positions of 7 base groups, 10^5 (thorough 10^7) random four-byte groups, through ByteBuf (exact u16 via "
             "WTF-8) and String from str/slice/reader; scan: each of \" \\ 00 0a 1f 20 7f 80 ff c3 at every offset of contents "
             "of every length 0..24 (ASCII and mixed filler), closed and unclosed, after 0..8 spaces, targets &str/String/"
             "ByteBuf from str/slice/reader (quick: &str-from-slice always plus one rotating combination), two-special and "
             "multi-chunk contents, random contents. Non-trivial: esc — the string has a byte that must be escaped or a "
             "non-ASCII character; hex4 — every group; scan — non-empty content; distinct = distinct case lines.",
        trusted_base=[KERNEL + "; plus bv_decide's per-call axioms (SAT certificate checked by compiled code, Lean.ofReduceBool "
                      "trust) for the two SWAR chunk lemmas and the two hex OR/shift lemmas",
                      TIE,
                      "memchr::memchr2 specified as 'index of the first occurrence of either needle' (external crate)",
                      "u64::from_le_bytes / wrapping_sub / trailing_zeros / chunks_exact modelled by their documented semantics on BitVec 64"],
        assumptions=["memchr2 returns the first occurrence of either needle",
                     "Rust integer primitives (from_le_bytes, wrapping_sub, trailing_zeros, `as` casts, i32 shifts) behave as documented",
                     "io::Write::write_all on Vec / the recording writer delivers each buffer whole",
                     "the build uses fast_arithmetic=\"64\" (64-bit Chunk), as on the checked platform"],
        partial=["the decode side (c05_decode_spec, c05_roundtrip, c05_borrowed, c05_bytes_target, c05_str_source_utf8) is provided "
                 "by the lead's byte-step parser machine and is not part of this branch; here: serializer escaping "
                 "(c05_escape_table, c05_escape_spec, c05_escape_buffers_utf8_cut), decode_four_hex_digits (c05_hex_tables, "
                 "c05_hex4_spec) and the SWAR scanner (c05_swar_first_escape, c05_swar_in_bounds, c05_first_escape_char)"],
        technique="Lean 4 theorems over all byte strings / all 2^32 hex groups / all slices and start indices; ESCAPE, HEX0/HEX1 "
                  "pieces and SWAR constants regenerated from source each run; bv_decide for the 64-bit chunk facts; differential "
                  "run of escaping, \\u decoding and the scanner against the crate",
        level_text="Machine-checked Lean 4 theorems: the table-driven format_escaped_str equals the statement's per-character "
                   "escaping for every string and cuts its buffers only at ASCII bytes; decode_four_hex_digits equals the "
                   "positional hex value or None for all 2^32 groups; SliceRead::skip_to_escape (64-bit SWAR + memchr2 branch + "
                   "slow tail) returns the first escape index for every slice, index and mode. Tables and constants are "
                   "re-extracted from src/ser.rs and src/read.rs on every run and the models are run against the real crate.",
        level_note="Trusted: Lean kernel + propext/Classical.choice/Quot.sound + bv_decide axioms (4 calls); extract.py; the "
                   "harness/driver comparison; memchr2 and Rust integer primitives by documented semantics. Partial: the string "
                   "decoder itself (escapes, surrogate pairing, UTF-8 validation, borrowing) belongs to the parser machine and "
                   "is not covered by this branch.",
    ),
    "C03": dict(
        lean_targets=["SJ.Props.C03", "SJ.Audit.C03"],
        configs=dict(quick=["d"], thorough=["d", "po", "ap", "fr"]),
        gen_keys=["ser."],
        rule="fixed corpus of hand-written serializer programs (every serde::Serializer entry point, every key kind valid and "
             "invalid, empty/nested containers incl. an empty struct variant inside nested maps, None-hinted empty seq/map), then "
             "random programs from gen_prog (all constructors, depth 0-4, hints None/exact, adversarial strings, float specials), "
             "each through to_vec/to_string/to_writer (serc), PrettyFormatter::with_indent for indents '', ' ', tab, two spaces, 'ab' "
             "(serp), and a recording io::Write (serbufs: exact buffer list); ill-hinted programs through the recorder only "
             "(serbufx: model comparison); Values through Display / {:#} / to_string / to_string_pretty (disp). A case is "
             "non-trivial when the program contains a container, bytes or a string needing an escape (disp: array or object); "
             "distinct = distinct case lines.",
        trusted_base=[KERNEL, TIE,
                      "itoa and ryu are parameters (structure Ext) with recorded assumptions ExtOK: itoa prints plain decimal digits, "
                      "ryu prints finite floats as RFC 8259 numbers (the ryu text of every generated float is checked to be a number "
                      "by the executable specification on each run; that it is the shortest round-tripping decimal is not checked here)",
                      "serde's default SerializeMap::serialize_entry (= serialize_key; serialize_value), Vec<T>::serialize "
                      "(serialize_seq(Some(len))), io::Write::write_all, fmt::Formatter adapter of Display: by documented semantics",
                      "lean/SJ/Spec/Recognise.lean (independent recursive-descent recogniser used to check the implementation's bytes) "
                      "is proved sound against Grammar.JsonText (c03_recognise_sound); its completeness is not needed"],
        assumptions=["ExtOK: ext.itoa n = Spec.Number.decimal n; finite floats: Grammar.IsNumber (ext.ryu64 b) / (ext.ryu32 b)",
                     "programs obey the serde contract on length hints (None or Some(exact)); type names are not the private "
                     "$serde_json::private::Number / RawValue tokens (feature-gated special cases, out of scope except Number's own impl)",
                     "collect_str's Display writes its text in one write_str call (buffer-level statements only)"],
        partial=["c03_display_partial: Display/{:#} are the two serializers by definition in the model; the fmt adapter is covered by "
                 "the correspondence op `disp` only",
                 "c03_utf8_partial: proved per string (every buffer of format_escaped_str is ASCII or a fragment cut at ASCII bytes); "
                 "lift to whole programs and a ValidUtf8 conclusion pending the shared Spec.Utf8"],
        technique="Lean 4 theorems over all serializer programs: the transcription of Serializer/Compound/MapKeySerializer with both "
                  "Formatters (exact write_all buffer lists, State / current_indent / has_value bookkeeping) refines a structural "
                  "printer of the data-model image; the printer's output is derivable in the RFC 8259 grammar and denotes the image; "
                  "formatter literals regenerated from src/ser.rs; differential run against the crate with an independent recogniser",
        level_text="Machine-checked Lean 4 theorems (c03_compact, c03_error_iff, c03_pretty_layout, c03_hints, c03_value, "
                   "c03_no_underflow, c03_recognise_sound) state for every serializer program with exact-or-absent length hints and every indent string "
                   "that the modelled serializer either fails exactly when a map key is not string-like (same error class) or emits "
                   "buffers whose concatenation equals the structural compact/pretty layout of the program's data-model image, which "
                   "is derivable in the RFC 8259 grammar and denotes that image; hints do not change the buffers. The byte strings "
                   "written by Formatter/PrettyFormatter are re-extracted from src/ser.rs on every run and the model is compared with "
                   "the real crate buffer by buffer on generated programs in four feature configurations, the crate's bytes being "
                   "re-parsed by an independent recogniser and compared with the image.",
        level_note="Trusted: Lean kernel + propext/Classical.choice/Quot.sound; extract.py; harness/driver comparison; itoa/ryu as "
                   "assumed parameters; serde default methods by documented semantics. Partial: Display adapter (correspondence "
                   "only), UTF-8 validity (per string only).",
    ),
    "C18": dict(
        lean_targets=["SJ.Props.C18", "SJ.Audit.C18"],
        configs=dict(quick=["d"], thorough=["d", "po", "ap"]),
        gen_keys=["pointer."],
        rule="fixed index/escape corpus; every pointer of length <= 5 (thorough 6) over the alphabet /~01a- against a "
             "document with every escape-relevant key; every existing path of random documents in RFC-order, "
             "wrong-order and raw spellings, single-edit mutations and random pointers. A case is non-trivial when "
             "the pointer has at least one reference token; distinct = distinct (document, pointer, op) lines.",
        trusted_base=[KERNEL, TIE,
                      "str::split / str::replace / str::parse::<usize> / Vec::get / Map::get modelled by their documented semantics"],
        assumptions=["Rust std string and slice primitives behave as documented",
                     "json! macro expansion (rustc macro matcher) is exercised by correspondence only"],
        partial=["Index/IndexMut/get/take, PartialEq with primitives and json! are not yet modelled (correspondence pending)"],
        technique="Lean 4 theorem: model of Value::pointer/pointer_mut = RFC 6901 evaluator for all values and pointers; "
                  "constants regenerated from source; differential run against the crate",
        level_text="Machine-checked Lean 4 theorems (c18_pointer, c18_pointer_mut, c18_unescape, c18_parse_index) state that the "
                   "transcription of Value::pointer / pointer_mut equals an RFC 6901 reference evaluator for every value and every "
                   "pointer string. The replace chain, split character and parse_index guards are re-extracted from src/value/mod.rs "
                   "on every run, and the model is run against the real crate on generated and exhaustive short pointers.",
        level_note="Trusted: Lean kernel + propext/Classical.choice/Quot.sound; extract.py; the harness/driver comparison; std "
                   "string primitives (split, replace, parse::<usize>) modelled by documented semantics. Not yet covered: "
                   "Index/IndexMut/get/take, PartialEq with primitives, json! macro.",
    ),
}

MACHINE_TB = [KERNEL, TIE,
              "hand-written byte-step model of de.rs/read.rs (Model.Machine, Model.Num) tied to the crate by the correspondence run on all three sources",
              "io::Bytes delivers the reader's bytes in order (chunking-independent); memchr/SWAR scanning abstracted as a naive scan (C05 proves the SWAR scanner equal to it)"]

PROPS["C10"] = dict(
    lean_targets=["SJ.Props.C10", "SJ.Audit.C10"],
    configs=dict(quick=["d", "ap"], thorough=["d", "ap", "fr", "po"]),
    gen_keys=["error.", "de."],
    rule="every prefix (length 0..n) of every accepted text among: a fixed corpus of number/escape/container shapes, "
         "grammar-directed random documents, every accepted token sequence of length <= 3 (thorough 4, sharded) over the "
         "41-token structural alphabet; targets Value and IgnoredAny; sources str, slice, reader. One case = one "
         "(document, target, source) with all its prefixes; non-trivial = document longer than one byte; distinct = distinct lines.",
    trusted_base=MACHINE_TB,
    assumptions=["typed targets (128-bit integers, quoted numeric/bool keys, raw values) are covered by correspondence only until the typed machine exists",
                 "std io::Bytes semantics"],
    partial=["c10_prefix_value_partial: the Value-target theorem carries the exception c = NumberOutOfRange (prefix = complete out-of-range number literal) — open known finding C10-out-of-range-number-prefix",
             "typed targets and stream iteration: not yet modelled"],
    technique="Lean 4 theorems over a byte-step machine model (fold decomposition + exhaustive analysis of the end-of-input table "
              "against the classify arms regenerated from error.rs) + differential prefix sweep against the crate",
    level_text="Machine-checked: for the Value and IgnoredAny targets, in every feature configuration and for every input source, "
               "every prefix of an accepted text is accepted or fails at the end of the prefix with an Eof-classified error "
               "(c10_prefix_ignored; c10_prefix_value_partial with the single inherent NumberOutOfRange exception made explicit). "
               "classify and the error codes are regenerated from src/error.rs each run; the machine is compared with the crate on "
               "every prefix of generated and exhaustive short documents, and the property's own predicate is evaluated on the crate's outputs.",
    level_note="Trusted: Lean kernel + propext/Classical.choice/Quot.sound; extract.py; harness/driver; the hand-written machine model "
               "(validated by correspondence, 0 disagreements). Typed targets, 128-bit, map keys, raw values and streams are not yet inside the model.",
)

PARSE_RULE = ("every token sequence of length <= 3 (thorough: 4, 1/4 sampled by seed) over the 43-token structural alphabet "
              "(brackets, separators, quote, space/newline, escape pieces, hex digits, digits, sign/point/exponent, literals and "
              "partial literals, non-JSON bytes, control and multi-byte bytes, surrogate escapes, composite tokens); depth profiles "
              "1,2,126..130 over array/object/alternating/random mixes; grammar-directed random documents with whitespace and "
              "spelling variety and 3 single-byte/structural mutations each; each input parsed into Value (pv) and IgnoredAny (pi) "
              "from &str, &[u8] and an io::Read with a random chunking schedule. Non-trivial = input longer than one byte; "
              "distinct = distinct (op, config, input) lines.")

PROPS["C09"] = dict(
    lean_targets=["SJ.Props.C09", "SJ.Audit.C09"],
    configs=dict(quick=["d", "ap"], thorough=["d", "ap", "fr", "po"]),
    gen_keys=["error.", "de."],
    rule=PARSE_RULE + " C09 adds multi-line documents (spaces turned into newlines) with 4 mutations each; the three sources' "
         "outcomes (message, category, line, column, value) are compared with each other and with the model.",
    trusted_base=MACHINE_TB,
    assumptions=["io::Bytes yields the reader's bytes one at a time in order, whatever the chunking (std)",
                 "typed targets, raw values and stream iteration are not yet inside the model"],
    partial=["c09_str_slice for the Value target (needs: decoded strings of a UTF-8 input are UTF-8) — carried by correspondence",
             "typed targets (|delta index| <= 1), 128-bit, raw, stream byte_offset: correspondence pending"],
    technique="Lean 4 theorem: the byte-step machine's outcome is independent of the slice/reader source (step-wise equality + all "
              "error sites include the offending byte) + three-source differential run against the crate",
    level_text="Machine-checked: c09_slice_reader — for every configuration, both untyped targets and every byte string the slice and "
               "reader sources give the same value or the same error code at the same position (hence message, category, line, "
               "column); c09_str_slice_ignored for skipped content. The crate is run on every generated input from all three "
               "sources with random chunkings and the outcomes are compared with each other (spec) and with the model.",
    level_note="Trusted: Lean kernel + 3 standard axioms; extract.py; harness/driver; hand-written machine model validated by "
               "correspondence. Two genuine position defects found by this check were repaired in /repo (fix: commits 28defde, 9343bad).",
)

PROPS["C11"] = dict(
    lean_targets=["SJ.Props.C11", "SJ.Audit.C11"],
    configs=dict(quick=["d"], thorough=["d", "ap", "fr"]),
    gen_keys=["error.", "de."],
    rule=PARSE_RULE + " C11 adds multi-line documents with 4 mutations each; the reported (line, column) of every error is checked "
         "against an independent recursive-descent scanner (Spec.Pos) that computes the first byte after which no continuation is JSON.",
    trusted_base=MACHINE_TB,
    assumptions=["side-condition errors (surrogates, UTF-8, number range, depth) are only required to lie within the input"],
    partial=["c11_earliest (the prefix before the reported byte is still viable) is not proved yet; the correspondence checks it "
             "against Spec.Pos on every generated input"],
    technique="Lean 4 theorems on the byte-step machine (errors are raised by the step that reads the offending byte and are stable "
              "under extension; Eof errors only at end of input; line/column arithmetic) + independent positioned scanner as oracle",
    level_text="Machine-checked: c11_dead (a grammar error reported at byte count idx dooms the prefix of length idx: every continuation "
               "fails identically), c11_eof_at_end, c11_within_input, c11_line / c11_col_* (the line/column formulas of the statement), "
               "for Value and ignored targets, all configurations and sources. Every error position the crate reports on generated "
               "non-JSON inputs is compared with the model and with an independent first-dead-byte scanner.",
    level_note="Trusted: Lean kernel + 3 standard axioms; extract.py; harness/driver; machine model validated by correspondence; "
               "Spec.Pos (independent recursive-descent scanner) as executable oracle. c11_earliest not yet a theorem.",
)

PROPS["C14"] = dict(
    lean_targets=["SJ.Props.C14", "SJ.Audit.C14"],
    configs=dict(quick=["d"], thorough=["d", "ud", "ap"]),
    gen_keys=["de."],
    rule=PARSE_RULE + " C14 adds 20k (thorough 200k) random byte strings biased to JSON punctuation, and ten pathological inputs "
         "(10^6-deep arrays open/balanced, 2*10^5-deep objects, 4 MB string, 10^6 escapes, 10^6-digit integer/fraction/exponents, "
         "10^6-element array) each through Value (slice, reader) and IgnoredAny under catch_unwind.",
    trusted_base=MACHINE_TB,
    assumptions=["memory safety of compiled unsafe blocks, real stack consumption and allocator behaviour are runtime properties outside any model (partial by nature)"],
    partial=["c14_utf8 (every returned String is valid UTF-8), c14_no_fuel (number conversion never runs out of fuel) and the shape "
             "invariant making the remaining model fallbacks unreachable are not proved yet",
             "typed targets / enum wrappers / stream depth restoration: not yet modelled"],
    technique="Lean 4 invariants over the byte-step machine (stack height < 128 for every reachable state, re-dispatch happens at most "
              "once, termination by structural recursion) + pathological-input runs of the crate under catch_unwind",
    level_text="Machine-checked: c14_depth_bounded (every reachable state of a Value parse has at most 127 open containers, so the real "
               "recursion is bounded), c14_limit_hit (opening the 128th container is RecursionLimitExceeded at that byte), "
               "c14_again_once (the only unreachable!-style fallback of step is unreachable); termination by construction. The crate "
               "is run on random bytes, mutated documents, depth profiles and megabyte/10^6-deep inputs with catch_unwind.",
    level_note="Trusted: Lean kernel + 3 standard axioms; extract.py (remaining_depth = 128 is regenerated); harness/driver; machine "
               "model. Partial by nature: actual memory safety and stack usage of compiled code cannot be exhibited by a model.",
)

PROPS["C12"] = dict(
    lean_targets=["SJ.Props.C12", "SJ.Audit.C12"],
    configs=dict(quick=["d"], thorough=["d", "ap", "fr"]),
    gen_keys=["error.", "de."],
    rule="StreamDeserializer histories of next()/byte_offset(), continuing 3 calls past the end and past errors: a fixed corpus of "
         "44 streams (separators, undelimited scalars, truncations, \\u cut-offs), every token sequence of length <= 2 (thorough 3) "
         "over the structural alphabet, concatenations of 1-4 generated values with every separator choice (none, space, newline, "
         "mixed), each also truncated at a random position and corrupted by one mutation; item types Value and IgnoredAny; sources "
         "str, slice, reader. One case = one (stream, item type, source, call count); non-trivial = stream longer than one byte.",
    trusted_base=MACHINE_TB,
    assumptions=["byte_offset() after the stream has failed is not constrained by the property and is not compared",
                 "typed item types are not yet inside the model"],
    partial=["c12_values (the yielded values/offsets are exactly those of the grammar's decomposition) awaits parser completeness; "
             "until then it is checked on every generated stream against the independent scanner Spec.Pos + Spec.Canon"],
    technique="Lean 4 theorems over a model of Iterator::next on top of the byte-step machine (fusedness by invariant over call "
              "histories, progress, Eof errors only at end of input) + history-level differential run against the crate and an "
              "independent grammar-based oracle",
    level_text="Machine-checked: c12_fused (after a failed value every later next() is None, for any number of calls), c12_error_fails, "
               "c12_progress (each yielded value consumes at least one byte: next() terminates and yields at most n values), "
               "runPrefix_eof_at_end (an Eof error is reported only at the end of the available input). The delimiter and "
               "self-delineation sets are regenerated from src/de.rs. Whole histories (items and byte offsets) of the crate are "
               "compared with the model and with an independent grammar-based expectation.",
    level_note="Trusted: Lean kernel + 3 standard axioms; extract.py; harness/driver; machine and stream models validated by "
               "correspondence (0 disagreements).",
)

# properties not claimed yet (kept current as checks are added)
PROPS["C15"] = dict(
    lean_targets=["SJ.Props.C15", "SJ.Audit.C15"],
    configs=dict(quick=["d", "fr"], thorough=["d", "fr", "po", "ap"]),
    gen_keys=["tovalue."],
    rule="serializer programs replayed against serde_json::to_value (tov) and the triple to_value / to_string / "
         "from_str(to_string(f32-widened data)) (tovagree): a fixed corpus (every serde::Serializer entry point; every integer "
         "width at 0, +-1, MIN/MAX and around i64::MIN, i64::MAX, u64::MAX, 2^64, i128/u128 extremes, alone, in sequences and as "
         "map values and keys; 33 f32 and 34 f64 specials incl. subnormals, extremes, -0, 1e22/1e23, NaN/inf as values and keys; "
         "every key kind valid (str, char, enum, collect_str, bool, every integer width, finite f32/f64, newtype chains), Option "
         "keys (Some of each kind, nested, behind newtype structs) and invalid (compound, unit, None, bytes, variants with "
         "payload, non-finite floats, Some around invalid keys), each in three contexts; duplicate and colliding keys across key "
         "kinds, insertion vs sorted order; failure-order cases mixing two key error classes and 128-bit overflow; nested "
         "variants), then random programs: 4/6 from the C03 generator gen_prog (all constructors, depth 0-4, hints None/exact, "
         "adversarial strings, float specials), 1/6 maps with colliding/repeated keys over several key kinds, 1/6 numeric programs "
         "(boundary integers, f32/f64 of every class in seq/struct/map/variant/option positions). Of the random programs with an "
         "Option key only 1 in 16 (thorough: 1 in 40) is run as generated (known finding C15-some-key; the driver prints at most 200 failures), the "
         "others with the Some wrappers removed from keys. A case is non-trivial when the program builds an object (map, struct, "
         "variant with payload), has bytes, a float or a 128-bit integer; distinct = distinct case lines.",
    trusted_base=[KERNEL, TIE,
                  "itoa and ryu are parameters (structure Ext) with the recorded assumptions ExtOK (itoa prints plain decimal digits, ryu "
                  "prints finite floats as RFC 8259 numbers); the ryu text of every generated float (and of every widened f32) is "
                  "shipped with the case and checked to be a number",
                  "the text-side facts come from C03 (c03_compact, c03_error_iff) and its trusted base; Map<String, Value> = BTreeMap / "
                  "IndexMap by documented insert semantics (Model.Machine.btInsert / ixInsert, proved equal to the declarative map "
                  "specification in SJ/Proofs/MkObj.lean); the parser's number classification is Model.Num (validated by the C01/C02 "
                  "correspondence) with the integer lemmas of SJ/Proofs/NumInt.lean",
                  "`f32 as f64` is modelled on bit patterns (Model.ToValue.f32to64) and validated against the crate on every generated f32; "
                  "serde's default SerializeMap::serialize_entry, u64/i64::try_from, String::push, to_string: by documented semantics"],
    assumptions=["ExtOK: ext.itoa n = Spec.Number.decimal n; finite floats print as numbers",
                 "programs are within the Rust types (inScope: every integer fits its entry point's type) and do not use the private "
                 "struct names $serde_json::private::Number / RawValue (SerializeMap::Number / RawValue, NumberValueEmitter, "
                 "RawValueEmitter are out of scope; `numberLit` is excluded)",
                 "float comparison (floatsRT): every finite f64 serialised as a value is read back from its printed text as the same "
                 "double — C07 + ryu correctness under float_roundtrip, short literals (<= 15 digits, |exp| <= 22) by default (C08), "
                 "vacuous under arbitrary_precision; the correspondence compares exactly under fr/ap/short and with floats erased otherwise",
                 "ParserComplete (only for c15_agree_of_parser): the &str parser returns canon(t) on every derivable text within its "
                 "side conditions — C01 completeness + C02, proved on the parser branches"],
    partial=["c15_keys_partial: agreement of the two key serializers is proved for keys that do not reach serialize_some; for Some(_) "
             "keys the pinned sources differ (c15_some_key_disagrees, c15_key_dispatch; known finding C15-some-key) and all agreement "
             "theorems carry the hypothesis hasSomeKey p = false",
             "c15_agree_partial: to_value p = canon (the syntax tree of to_string (widenF32 p)); 'equals the Value obtained by parsing' "
             "needs the named hypothesis ParserComplete (c15_agree_of_parser) and the parser's side conditions (nesting <= 127)"],
    technique="Lean 4 theorems over all serializer programs: the transcription of value::Serializer / SerializeVec / SerializeMap / "
              "SerializeTupleVariant / SerializeStructVariant / value::ser::MapKeySerializer / Number::from_* is related by one mutual "
              "induction to the data-model image that the text serializer is proved (C03) to print; the dispatch tables of both "
              "MapKeySerializers, the bool key literals and the 128-bit branch shape are regenerated from src/value/ser.rs and "
              "src/ser.rs each run; differential run of to_value against the model, and of the property's own statement "
              "(to_value vs to_string vs from_str) on the crate",
    level_text="Machine-checked Lean 4 theorems for every serializer program within the Rust types and every configuration "
               "(preserve_order, float_roundtrip, arbitrary_precision): to_value succeeds exactly when to_string does, except for "
               "128-bit integers outside [i64::MIN, u64::MAX] without arbitrary_precision, which fail with NumberOutOfRange "
               "(c15_success_iff, c15_128_error); both fail with the same error class (c15_error_iff); on success the result is the "
               "Value denoted — under the parser's own classification rules — by the same data-model image that to_string is proved "
               "to print, with f32 widened (c15_value_is_image, c15_valueOfImage_is_canon, c15_agree_partial). The two key serializers "
               "agree on every key that does not reach serialize_some (c15_keys_partial); for Some(_) keys the pinned tree deviates — "
               "kernel-checked counter-example c15_some_key_disagrees, reproduced on the crate (known finding C15-some-key) — and the "
               "agreement theorems exclude such programs. The key-serializer dispatch tables are regenerated from the source each "
               "run and tied to the models (c15_key_dispatch); the model is compared with serde_json::to_value on generated "
               "programs and the property's statement is evaluated on the crate's own outputs.",
    level_note="Trusted: Lean kernel + propext/Classical.choice/Quot.sound; extract.py; harness/driver comparison; itoa/ryu as assumed "
               "parameters; C03's model of the text serializer; BTreeMap/IndexMap insert semantics; Model.Num as the parser's number "
               "semantics. Partial: Some(_) map keys (genuine deviation of the pinned tree, open finding); equality with the *parsed* "
               "Value is conditional on parser completeness (C01/C02); f64 equality under the stated float proviso.",
)

NOT_APPLICABLE = [
    dict(property_id=f"C{i:02d}", reason="check under construction in this build phase; not yet claimed (see DESIGN.md §11 build order)")
    for i in range(1, 21) if f"C{i:02d}" not in PROPS
]
