"""Per-property registry used by ./check (what to build, which configurations, what is trusted)."""

KERNEL = "Lean 4.33 kernel; axioms propext, Classical.choice, Quot.sound only (checked by #print axioms on every listed theorem)"
TIE = "tools/extract.py (regex translator for constants/tables) and the Rust harness + sjdriver correspondence run (differential testing)"

PROPS = {
    "C05": dict(
        lean_targets=["SJ.Props.C05", "SJ.Audit.C05"],
        configs=dict(quick=["d"], thorough=["d"]),
        gen_keys=["escape.", "hex.", "swar.", "Escape", "Hex", "Swar"],
        allowed_axioms=[],
        rule="esc/escbufs: every Unicode scalar value as a one-character string (quick: all below U+3000, every 251st, "
             "surrogate-adjacent and plane boundaries, a random 1%), every byte < 0x80 at every offset of strings of every "
             "length 0..24 over ASCII and mixed 1-4-byte filler, adjacent/leading/trailing escapes, random mixtures up to 500 "
             "chars; hex4/hex4s: all 65 536 values in lower, upper and random mixed case, all 256 substitutions at each of "
             "the 4 positions of 7 base groups, 10^5 (thorough 10^7) random four-byte groups, through ByteBuf (exact u16 via "
             "WTF-8) and String from str/slice/reader; scan: each of \" \\ 00 0a 1f 20 7f 80 ff c3 at every offset of contents "
             "of every length 0..24 (ASCII and mixed filler), closed and unclosed, after 0..8 spaces, targets &str/String/"
             "ByteBuf from str/slice/reader (quick: &str-from-slice always plus one rotating combination), two-special and "
             "multi-chunk contents, random contents. Non-trivial: esc — the string has a byte that must be escaped or a "
             "non-ASCII character; hex4 — every group; scan — non-empty content; distinct = distinct case lines.",
        trusted_base=[KERNEL + " (the two SWAR chunk lemmas and the two hex OR/shift lemmas are kernel-checked too: byte-wise "
                      "borrow ripple with 256-case byte lemmas, and toNat/msb arithmetic - no bv_decide, no SAT certificate)",
                      TIE,
                      "memchr::memchr2 specified as 'index of the first occurrence of either needle' (external crate)",
                      "u64::from_le_bytes / wrapping_sub / trailing_zeros / chunks_exact modelled by their documented semantics on BitVec 64"],
        assumptions=["memchr2 returns the first occurrence of either needle",
                     "Rust integer primitives (from_le_bytes, wrapping_sub, trailing_zeros, `as` casts, i32 shifts) behave as documented",
                     "io::Write::write_all on Vec / the recording writer delivers each buffer whole",
                     "the build uses fast_arithmetic=\"64\" (64-bit Chunk), as on the checked platform"],
        partial=["decode side: c05_decode_spec / c05_decode_reject (a well-formed literal parses to String(s) iff its surrogate "
                 "escapes are paired, its RFC 8259 decoding is s and - on byte sources - s is valid UTF-8; rejected otherwise), "
                 "c05_roundtrip / c05_roundtrip_written (parse(escape(s)) = s from every source) and c05_str_source_utf8 (the &str "
                 "source returns valid UTF-8 on valid UTF-8 input) are theorems over the byte-step parser machine, obtained from "
                 "C01/C02; c05_borrowed and c05_bytes_target (typed targets) are not part of this check; also here: serializer "
                 "escaping (c05_escape_table, c05_escape_spec, c05_escape_buffers_utf8_cut), decode_four_hex_digits "
                 "(c05_hex_tables, c05_hex4_spec) and the SWAR scanner (c05_swar_first_escape, c05_swar_in_bounds, "
                 "c05_first_escape_char)"],
        technique="Lean 4 theorems over all byte strings / all 2^32 hex groups / all slices and start indices; ESCAPE, HEX0/HEX1 "
                  "pieces and SWAR constants regenerated from source each run; the 64-bit chunk facts by a byte-wise borrow-ripple induction "
                  "(one 256-case kernel evaluation per byte fact); differential "
                  "run of escaping, \\u decoding and the scanner against the crate",
        level_text="Machine-checked Lean 4 theorems: the table-driven format_escaped_str equals the statement's per-character "
                   "escaping for every string and cuts its buffers only at ASCII bytes; decode_four_hex_digits equals the "
                   "positional hex value or None for all 2^32 groups; SliceRead::skip_to_escape (64-bit SWAR + memchr2 branch + "
                   "slow tail) returns the first escape index for every slice, index and mode. Tables and constants are "
                   "re-extracted from src/ser.rs and src/read.rs on every run and the models are run against the real crate.",
        level_note="Trusted: Lean kernel + propext/Classical.choice/Quot.sound (no other axiom: the SWAR and hex word identities are "
                   "kernel-checked, not bv_decide); extract.py; the "
                   "harness/driver comparison; memchr2 and Rust integer primitives by documented semantics. Partial: the string "
                   "decoder itself (escapes, surrogate pairing, UTF-8 validation, borrowing) belongs to the parser machine and "
                   "is not covered by this branch.",
    ),
    "C03": dict(
        lean_targets=["SJ.Props.C03", "SJ.Audit.C03"],
        configs=dict(quick=["d"], thorough=["d", "po", "ap", "fr"]),
        gen_keys=["ser."],
        rule="fixed corpus of hand-written serializer programs (every serde::Serializer entry point, every key kind valid and "
             "invalid, empty/nested containers incl. an empty struct variant inside nested maps, None-hinted empty seq/map), then "
             "random programs from gen_prog (all constructors, depth 0-4, hints None/exact, adversarial strings, float specials), "
             "each through to_vec/to_string/to_writer (serc), PrettyFormatter::with_indent for indents '', ' ', tab, two spaces, 'ab' "
             "(serp), and a recording io::Write (serbufs: exact buffer list); ill-hinted programs through the recorder only "
             "(serbufx: model comparison); Values through Display / {:#} / to_string / to_string_pretty (disp); Values through "
             "write!(sink, \"{}\" / \"{:#}\", v) into a recording fmt::Write that accepts whole fragments within a byte budget "
             "(dispf: result, the exact write_str fragment list, the to_string(_pretty) text; fixed values with every budget "
             "0..len+1, random values unbounded and with a random / exact / one-short budget); Numbers through Display and "
             "to_string (dispn). A case is "
             "non-trivial when the program contains a container, bytes or a string needing an escape (disp, dispf: array or "
             "object; dispn: never); distinct = distinct case lines.",
        trusted_base=[KERNEL, TIE,
                      "itoa and ryu are parameters (structure Ext) with recorded assumptions ExtOK: itoa prints plain decimal digits, "
                      "ryu prints finite floats as RFC 8259 numbers (the ryu text of every generated float is checked to be a number "
                      "by the executable specification on each run; that it is the shortest round-tripping decimal is not checked here)",
                      "serde's default SerializeMap::serialize_entry (= serialize_key; serialize_value), Vec<T>::serialize "
                      "(serialize_seq(Some(len))), io::Write::write_all (std's default loop: no write call for an empty buffer, one per "
                      "buffer when write returns the full length), fmt::Formatter::write_str forwarding to the underlying "
                      "fmt::Write, Display for String (= pad = write_str when no width/precision is given): by documented semantics; "
                      "a fmt::Write sink is its list of accepted fragments plus an arbitrary failure policy (Model.Display.Sink)",
                      "lean/SJ/Spec/Recognise.lean (independent recursive-descent recogniser used to check the implementation's bytes) "
                      "is proved sound against Grammar.JsonText (c03_recognise_sound); its completeness is not needed"],
        assumptions=["ExtOK: ext.itoa n = Spec.Number.decimal n; finite floats: Grammar.IsNumber (ext.ryu64 b) / (ext.ryu32 b)",
                     "programs obey the serde contract on length hints (None or Some(exact)); type names are not the private "
                     "$serde_json::private::Number / RawValue tokens (feature-gated special cases, out of scope except Number's own impl)",
                     "collect_str's Display writes its text in one write_str call (buffer-level statements only)",
                     "c03_utf8: the program's strings are UTF-8 (SVal.utf8OK: every &str payload valid, every char a scalar value — what "
                     "Rust's types guarantee) and the pretty indent string is valid UTF-8",
                     "c03_display_utf8_safe: the Value satisfies the representation invariant Spec.WF.shapeOK (strings and keys "
                     "valid UTF-8 - they are Rust Strings - and arbitrary_precision literals are numbers); c03_display_number: a "
                     "Float held by a Number is finite (Number::from_f64)"],
        partial=[],
        technique="Lean 4 theorems over all serializer programs: the transcription of Serializer/Compound/MapKeySerializer with both "
                  "Formatters (exact write_all buffer lists, State / current_indent / has_value bookkeeping) refines a structural "
                  "printer of the data-model image; the printer's output is derivable in the RFC 8259 grammar and denotes the image; "
                  "formatter literals regenerated from src/ser.rs; differential run against the crate with an independent recogniser",
        level_text="Machine-checked Lean 4 theorems (c03_compact, c03_error_iff, c03_pretty_layout, c03_hints, c03_value, "
                   "c03_no_underflow, c03_recognise_sound) state for every serializer program with exact-or-absent length hints and every indent string "
                   "that the modelled serializer either fails exactly when a map key is not string-like (same error class) or emits "
                   "buffers whose concatenation equals the structural compact/pretty layout of the program's data-model image, which "
                   "is derivable in the RFC 8259 grammar and denotes that image; hints do not change the buffers; and (c03_utf8, with the "
                   "per-string form c03_utf8_fragments) for every program whose strings are UTF-8 and either formatter (pretty: any "
                   "UTF-8 indent) every single buffer handed to the writer, and the whole output, is valid UTF-8 (Spec.Utf8.validUtf8): "
                   "formatter literals ASCII by evaluation of the extracted constants, itoa/ryu text ASCII because it is a number, "
                   "string buffers cut only at ASCII bytes. Display: the io::Write adapter over fmt::Formatter is modelled "
                   "(Model.Display: write_all -> write -> from_utf8_unchecked -> write_str, error mapping io::Error <-> fmt::Error, "
                   "the alternate flag) over a sink with an arbitrary failure policy; c03_display_adapter: Display::fmt of any "
                   "Value feeds exactly the non-empty serializer buffers to the sink until one is rejected; c03_display: "
                   "format!(\"{}\") / format!(\"{:#}\") are Ok with exactly the bytes of to_string / to_string_pretty (two-space "
                   "indent) and Display::fmt is Ok on every non-failing sink; c03_display_fault: on a failing sink the result is "
                   "fmt::Error (never Ok, never a panic), the accepted fragments are a prefix of the fault-free list and nothing "
                   "is written after the failure (byte-budget sink: Err iff the text exceeds the budget); c03_display_utf8_safe: "
                   "every buffer passed to str::from_utf8_unchecked is valid UTF-8 (the unsafe block's precondition, from c03_utf8); "
                   "c03_display_number: Display for Number is one write_str of the serializer's number text in both "
                   "representations. The byte strings "
                   "written by Formatter/PrettyFormatter are re-extracted from src/ser.rs on every run and the model is compared with "
                   "the real crate buffer by buffer on generated programs in four feature configurations, the crate's bytes being "
                   "re-parsed by an independent recogniser and compared with the image.",
        level_note="Trusted: Lean kernel + propext/Classical.choice/Quot.sound; extract.py; harness/driver comparison; itoa/ryu as "
                   "assumed parameters; serde default methods, std's write_all and fmt::Formatter forwarding by documented semantics.",
    ),
    "C17": dict(
        lean_targets=["SJ.Props.C17", "SJ.Audit.C17"],
        configs=dict(quick=["d", "po"], thorough=["d", "po"]),
        gen_keys=["map."],
        rule="operation histories on serde_json::Map over the keys a, b, c (and ` which sorts first): every history of "
             "length <= 3 over the full alphabet (48 operations by default, 63 under preserve_order: every method incl. "
             "entry API, retain, append, extend, clear, sort_keys, Index/IndexMut, get_mut, iterators, and under "
             "preserve_order shift_insert / swap_* / shift_*), every history of length 4 over a core alphabet with at "
             "least one instance of every operation kind (24 / 30); thorough adds every history of length 5 and 6 over "
             "the state-changing kinds (13 / 17; length 6 under preserve_order: every 5th). Plus random histories of "
             "5..300 operations over 4..16 keys with nested values; == and Hash between maps built by all pairs of "
             "histories of length <= 2 and by random / rebuilt-in-another-order histories; == / SipHash / recorded hasher "
             "calls / sort_all_objects on random nested values, their reordered and sign-of-zero rewritings and "
             "perturbations. Each history line records every return value, the forward iteration after every operation "
             "and the backward iteration at the end. A history is non-trivial when it has at least two operations; a "
             "value pair when the two encodings differ; distinct = distinct case lines.",
        trusted_base=[KERNEL, TIE,
                      "BTreeMap / IndexMap (indexmap 2.x) modelled by their documented semantics on the entry sequence "
                      "(insert, remove, swap_remove, shift_remove, shift_insert, extend, append, retain, sort_unstable_keys, ==)",
                      "derive(PartialEq, Hash) on Value/Number and std's Hash impls for str, slices, tuples, BTreeMap modelled as "
                      "the sequence of Hasher::write_* calls (checked against a recording Hasher on every generated value)"],
        assumptions=["BTreeMap and IndexMap behave as documented (exercised by the correspondence run in both configurations)",
                     "values stored in a Number are finite (Number::from_f64 rejects NaN/inf; the parser never produces them)",
                     "retain predicates are pure functions of (key, value)"],
        partial=[],
        technique="Lean 4 theorems over two store models (ascending association list = BTreeMap, insertion-ordered list = "
                  "IndexMap) and a Value model: refinement of a function-valued reference dictionary for every method and "
                  "every history, order invariants, == <-> equality of abstractions, hasher input as a function of the "
                  "abstraction, sort_all_objects; feature-dependent forwards of map.rs re-extracted every run; differential "
                  "run of operation histories against the crate in both configurations",
        level_text="Machine-checked Lean 4 theorems: c17_refines_btree/_index(_history) (every Map method, on every state reachable "
                   "by any history, returns what the reference dictionary Bytes -> Option V returns and leaves its contents); "
                   "c17_order_btree (iteration strictly ascending, backward = reverse) and c17_order_index(_nodup,_sort_keys) "
                   "(key sequence changes exactly by the documented insertion/swap/shift rules, no duplicate keys); "
                   "c17_eq_order_free(_btree,_index,_value) (== iff equal abstractions, at every depth, +0.0 == -0.0); "
                   "c17_hash (equal values make identical Hasher calls; preserve_order sorts entries, Number normalises zero); "
                   "c17_sort_all (ascending at every depth, == unchanged). Which IndexMap removal remove/remove_entry forward "
                   "to, append/sort_keys/Hash bodies and Number's Hash are re-extracted from src on every run and consumed by "
                   "the model; the models are replayed against the real Map on exhaustive short and long random histories.",
        level_note="Trusted: Lean kernel + propext/Classical.choice/Quot.sound; extract.py; harness/driver comparison; BTreeMap and "
                   "IndexMap are modelled by documented semantics, not verified themselves; SipHash itself is not modelled "
                   "(the theorem is about hasher input; the harness checks equal input => equal DefaultHasher output). "
                   "arbitrary_precision numbers are modelled (string equality) but not exercised (configs d, po).",
    ),
    "C08": dict(
        lean_targets=["SJ.Props.C08", "SJ.Props.C08Parser", "SJ.Audit.C08"],
        configs=dict(quick=["d"], thorough=["d", "po"]),
        gen_keys=["pow10.", "Pow10"],
        rule="fixed corpus of range-limit, sign, u64/i64-boundary and exponent-overflow literals; every power of ten "
             "1e-400..1e400 in every spelling; random mantissas of 1-40 digits x exponents in +-400 in every spelling "
             "(integer part only, fraction only, split, leading/trailing zeros, e/E, +/-/none, leading zeros in the "
             "exponent, no exponent at all); shortest ({:e}) and Display representations of f64 values for every binary "
             "exponent field 0..2046; the 15-digit / exponent-22 exactness frontier (1..17 digits x net exponents "
             "-25..25) densely; +-120 (thorough +-600) last-place neighbourhoods of 1e308, f64::MAX, 2^1024, the rounding "
             "threshold, f64::MIN_POSITIVE, 5e-324 and 2^-1075 at 17/19/20/22 digits; u64/i64 boundaries, long integers "
             "(20-330 digits), integers with more than 24/53 significant bits (f32 target); exponents around and beyond "
             "i32. Every literal goes through from_str, from_slice, from_reader and Value::as_f64 (f64) and the three "
             "sources for f32. A case is non-trivial when the literal leaves the u64/i64 integer path (fraction, "
             "exponent, more than 19 digits, -0); distinct = distinct case lines.",
        trusted_base=[KERNEL, TIE,
                      "rustc evaluates the float literals 1e0..1e308 by correct rounding; the hardware f64 *, / and the "
                      "casts u64/i64 -> f64, f64 -> f32, u64/i64 -> f32 are IEEE-754 round-to-nearest-even (modelled as "
                      "'exact result, rounded once'; confirmed bit-for-bit by the correspondence run)",
                      "serde's f64/f32 primitive visitors (visit_u64/visit_i64/visit_f64 = `as` casts) and "
                      "Number::as_f64 modelled by their source"],
        assumptions=["IEEE-754 conformance of rustc constant evaluation and of the target's f64 multiply/divide/convert",
                     "i32 exponent arithmetic does not wrap: literals shorter than 2^30 digits (the explicit hypothesis "
                     "`digits.length < 2^30` of c08_within_5ulp, c08_underflow_zero, c08_rejected_only_near_threshold, "
                     "c08_overflow_direction_partial, `fracDigits.length < 2^30` of c08_exact_short; beyond it the parser's exponent bookkeeping is meaningless: `1`, 2^31 zeros, "
                     "`e-2147483648` is deserialised to 0)"],
        partial=["c08_overflow_direction_partial (and c08p_…): proved for every grammatical literal with fewer than 2^30 digits, "
                 "against its exact value: rejected => exact >= 2^1024-2^970-2^972 (this half is the full clause "
                 "c08_rejected_only_near_threshold), exact >= 2^1024+2^972+2^965 => rejected, through digit dropping and the "
                 "parse_exponent_overflow path. Not provable because FALSE on the pinned code: 'every value >= 2^1024 is "
                 "rejected' (known finding C08-F1, kernel-checked witness c08_accepts_above_2pow1024); nothing else is missing",
                 "c08_f32_once: holds for float-path literals and integers below 2^53; FALSE for u64/i64-path integers above "
                 "2^53 (serde casts the integer directly; known finding C08-F2, kernel-checked counterexample "
                 "c08_f32_once_fails_on_large_int)"],
        technique="Lean 4: IEEE-754 round-to-nearest-even defined on exact naturals and proved against a 'nearest finite "
                  "double, ties to even, overflow from 2^1024-2^970' specification; exact-IEEE transcription of "
                  "f64_from_parts and the digit collection; POW10 table, overflow! macro and the 1e308/308 constants "
                  "re-extracted from src/de.rs each run and the table facts re-proved by kernel evaluation; bit-exact "
                  "differential run of the model and exact-rational specification against the crate",
        level_text="Machine-checked Lean 4 theorems over an exact-integer IEEE-754 semantics: roundNE64/roundNE32 are "
                   "round-to-nearest-even (c08_roundNE64_spec, full minimality form); for every grammatical literal with at "
                   "most 15 significant digits and net decimal exponent within +-22 the model of from_str::<f64> returns the "
                   "correctly rounded value (c08_exact_short, and c08_exact_short_parts for any significand < 2^53); every "
                   "result is finite and carries the literal's sign incl. -0 (c08_finite_signed); f32 = f64 result cast once "
                   "on the float path (c08_f32_once); for EVERY grammatical literal with fewer than 2^30 digits, against its exact "
                   "rational value: an accepted result is within 5 ulp, ulp of the correctly rounded value, 2^-1074 through the "
                   "subnormals (c08_within_5ulp; the proof bounds every path of f64_from_parts - table multiply/divide, the "
                   "`/= 1e308` stepping, subnormal quotients - by 4.001*2^-53 relative + 0.56*2^-1074, and the digits dropped "
                   "after u64 overflow by 10^-18 relative, the parsed value never exceeding the exact one); exact value <= "
                   "2^-1076 gives +-0 (c08_underflow_zero); rejected only if exact >= 2^1024-2^970-2^972 "
                   "(c08_rejected_only_near_threshold) and always if exact >= 2^1024+2^972+2^965 "
                   "(c08_overflow_direction_partial; the gap up from 2^1024 is finding C08-F1); the same at f64_from_parts for "
                   "every u64 significand and exponent (…_parts). The parser machine of C01/C02 converts numbers with an "
                   "independently written transcription (Model.Num.convertDefault); c08p_link proves it equal to the C08 model on "
                   "everything the scanner produces, and SJ.Props.C08Parser restates the theorems about parseTop on every RFC 8259 "
                   "number literal, every source, default configuration (c08p_parse_number, c08p_outcome, c08p_finite_signed, "
                   "c08p_exact_short, c08p_within_5ulp, c08p_underflow_zero, c08p_rejected_only_near_threshold, "
                   "c08p_overflow_direction_partial - all against the exact value of the literal read off the bytes, "
                   "c08p_literal_reading). The 309-entry POW10 table, the overflow! macro body and "
                   "the loop constants are regenerated from the source and re-proved on every run; the model is bit-exact "
                   "against the crate on all generated literals and the exact-rational specification is evaluated on the "
                   "crate's own outputs.",
        level_note="Trusted: Lean kernel + propext/Classical.choice/Quot.sound; extract.py; harness/driver comparison; IEEE "
                   "conformance of rustc literals and hardware ops; serde's primitive visitors. The 5-ulp, underflow and "
                   "rejected-only-near-threshold clauses are proved for all literals (< 2^30 digits); the only clauses not "
                   "proved are the two that are false on the pinned code. Two open known findings on the pinned tree: C08-F1 (literals in [2^1024, 2^1024+2^972) "
                   "can be accepted as f64::MAX) and C08-F2 (f32 from u64/i64-path integers is a direct cast, not f64 rounded "
                   "once).",
    ),
    "C18": dict(
        lean_targets=["SJ.Props.C18", "SJ.Audit.C18"],
        configs=dict(quick=["d", "ap"], thorough=["d", "po", "ap"]),
        gen_keys=["pointer.", "index.", "partial_eq.", "jsonmacro."],
        rule="pointer: fixed index/escape corpus; every pointer of length <= 5 (thorough 6) over the alphabet /~01a- against a "
             "document with every escape-relevant key; every existing path of random documents in RFC-order, "
             "wrong-order and raw spellings, single-edit mutations and random pointers (non-trivial: at least one reference "
             "token). get/Index/IndexMut: every value kind x 20 probe forms (usize, &str, String, references to them, present / "
             "missing / out-of-bounds / usize::MAX), then random documents probed with each of their keys, foreign keys and "
             "positions around the length; IndexMut runs under catch_unwind (non-trivial: null, array or object receiver); "
             "take through every kind of pointer. peq: ten integer types x boundary comparands (MIN, MAX, 0, +-1, 2^k+-1 for "
             "k in 7..64) x 80 values (PosInt/NegInt/Float at every type boundary, strings, bools, null, containers), f64/f32 "
             "comparands incl. NaN, +-0, +-inf, 2^53, 2^63, 2^64, bool, str/String; random value/comparand pairs that are equal, "
             "adjacent, 2^64 apart or unrelated (non-trivial: number, string or bool value); in builds with arbitrary_precision (quick tier: "
             "this op only) the same comparands against the same values as string-backed numbers plus 80 parsed literals in spellings "
             "Value::from never produces (-0, 1.0, 1e2, 100.0, 10e1, 0.10, 2^53+1, 2^64, 2^128-1, f32/f64 extremes and midpoints, 1e400, "
             "1e-400, long fractions) and random number texts of the C20 generator, case lines tagged with the configuration. json!: 20 fixed "
             "and 2000 (thorough 20000) random token trees - depth <= 3, trailing commas, duplicate keys from a 3-key pool, "
             "literal / bare-variable / parenthesised / char keys, interpolated variables of 16 Rust types and compound "
             "expressions - written into a Rust program that is compiled against the tree under check and prints the macro's "
             "value and from_str of the equivalent JSON text (non-trivial: at least one container). distinct = distinct lines.",
        trusted_base=[KERNEL, TIE,
                      "str::split / str::replace / str::parse::<usize> / Vec::get / Map::get / Map::insert / Entry::or_insert / mem::replace modelled by their documented semantics",
                      "Rust `as` casts (integer wrap-around, round-to-nearest-even to floats) and IEEE-754 `==` modelled by their language definition",
                      "arbitrary_precision accessors: <i64/u64 as FromStr> (from_str_radix grammar) and <f64/f32 as FromStr> (core::num::dec2flt: "
                      "grammar [+-]?(inf|infinity|nan|digits[.digits][e[+-]digits]); result correctly rounded, overflow to +-inf) by their documented "
                      "contract - the model rounds the exact decimal value with Spec.Ieee.roundNE64/32 (Model.NumberAp); compared with the crate on every ap case",
                      "rustc's macro-by-example matcher (rule order, `$e:expr` taking one maximal expression, nonterminal look-ahead) modelled as described in Model/JsonMacro.lean; exercised by the generated program"],
        assumptions=["Rust std string, slice and map primitives behave as documented",
                     "an interpolated expression enters the json! model as the Value to_value(&e).unwrap() gives (to_value itself is C15)",
                     "64-bit target (isize = i64, usize = u64)"],
        partial=["c18_partial_eq_ap (arbitrary_precision): 'holds that value' is read on the literal - an integer comparand equals exactly the integer "
                 "literals (no fraction/exponent) of that value; the two builds differ on one literal only, -0, which equals 0 of the signed types and no "
                 "unsigned 0 under the feature ('-0'.parse::<i64>() = Ok(0), ::<u64>() fails) and equals no integer in the default build (it is a float): "
                 "c18_partial_eq_ap_differs states this precisely; the inconsistency between 0i64 and 0u64 is inherent to the accessor definitions "
                 "C20 asks for and is not reported as a finding",
                 "c18_partial_eq_float_ap: f32 comparands are compared with ONE rounding of the decimal text to binary32 (as_f32 = parse::<f32>), the "
                 "default build with the f64 rounded again",
                 "c18_partial_eq_float is a transcription-level statement: the float clause is read as IEEE equality after one correctly rounded conversion (so json!(2^53+1) == 2^53 as f64 and json!(1e300) == f32::INFINITY hold); the integer, bool and string clauses are full strength",
                 "c18_json_macro: for token trees that are JSON-shaped (Spec.JsonMacro.shape); what the rules do outside that shape (e.g. json!([,1]) == [1]) is modelled and run but not specified"],
        technique="Lean 4 theorems: models of Value::pointer/pointer_mut/get/get_mut/Index/IndexMut/take, of PartialEq with primitives and of the "
                  "json_internal! rules against independent reference definitions, for all inputs; constants, the partialeq_numeric! table and the macro "
                  "rules regenerated from source; differential run against the crate incl. a generated, compiled json! program",
        level_text="Machine-checked Lean 4 theorems: c18_pointer, c18_pointer_mut, c18_unescape, c18_parse_index (Value::pointer / pointer_mut = RFC 6901 "
                   "reference evaluator for every value and pointer string); c18_get_index, c18_index_mut, c18_index_mut_reference, c18_take (get / "
                   "get_mut / Index / IndexMut / take = direct container access, insert-if-missing-then-address with panics exactly on the documented "
                   "cases, for every value and probe, both map configurations); c18_partial_eq (for every integer type row of the extracted "
                   "partialeq_numeric! table and every in-range comparand, == is true iff the value is an integer Number holding exactly that integer; "
                   "bool and strings likewise), c18_partial_eq_float, c18_partial_eq_nan; the same under arbitrary_precision over the string-backed "
                   "Number (Model.PartialEqAp / Model.NumberAp): c18_partial_eq_ap (== an integer iff the literal is an integer literal of that value, "
                   "unsigned comparands additionally need a literal without minus sign), c18_partial_eq_float_ap (IEEE equality with the nearest finite "
                   "f64 / f32 of the literal's exact value, nothing when that is not finite), c18_partial_eq_ap_differs; c18_json_macro (the json_internal! rules applied in source order "
                   "to any JSON-shaped token tree build the value the equivalent JSON text parses to: arrays in order, last duplicate key wins) and "
                   "c18_json_rules_tied (the rule list regenerated from src/macros.rs is the transcribed one). All models run against the real crate "
                   "on generated cases every check, json! through a generated program compiled against the tree under check.",
        level_note="Trusted: Lean kernel + propext/Classical.choice/Quot.sound; extract.py; the harness/driver comparison; std primitives, `as` casts and "
                   "rustc's macro matcher modelled by documented semantics. Float comparands: the statement is IEEE equality after conversion (see partial). "
                   "PartialEq under arbitrary_precision is modelled, proved and run (std's str::parse assumed correctly rounded). Observation (not a violation "
                   "of the stated property): json!([,1]) compiles and equals [1]; under arbitrary_precision the literal -0 equals 0i64 but not 0u64.",
    ),
}

MACHINE_TB = [KERNEL, TIE,
              "hand-written byte-step model of de.rs/read.rs (Model.Machine, Model.Num) tied to the crate by the correspondence run on all three sources",
              "io::Bytes delivers the reader's bytes in order (chunking-independent); memchr/SWAR scanning abstracted as a naive scan (C05 proves the SWAR scanner equal to it)"]

PROPS["C10"] = dict(
    lean_targets=["SJ.Props.C10", "SJ.Props.Typed", "SJ.Props.StreamTyped", "SJ.Audit.C10"],
    configs=dict(quick=["d", "ap"], thorough=["d", "ap", "fr", "po"]),
    gen_keys=["error.", "de."],
    rule="every prefix (length 0..n) of every accepted text among: a fixed corpus of number/escape/container shapes, "
         "grammar-directed random documents, every accepted token sequence of length <= 3 (thorough 4, sharded) over the "
         "41-token structural alphabet; targets Value and IgnoredAny; sources str, slice, reader. One case = one "
         "(document, target, source) with all its prefixes; non-trivial = document longer than one byte; distinct = distinct lines. "
         "Typed targets (op pfxs): a fixed list of (schema, text) pairs (128-bit bounds, quoted integer/bool/char/unit-enum keys, "
         "structs from objects and arrays, every enum spelling, bytes from strings with lone surrogates, f32, nested options), the "
         "crafted typed corpus of C16's op tt, 61 number spellings against every leaf target and as quoted keys of every integer "
         "width, and 2000 (thorough 20000) random schemas with a matching value's compact and whitespace-spaced text; every "
         "prefix is run through the universal seed (str, slice or reader) and through the typed model Model.Typed.deTypedTop. "
         "Streams (op spfx): the whole next()/byte_offset() history of StreamDeserializer<Value> / <IgnoredAny> over EVERY prefix of 19 "
         "fixed streams, every token sequence of length <= 2 (thorough 3) that starts with a value, and 300 (thorough 3000) "
         "concatenations of 1-4 generated values with every separator choice; source chosen per case among str, slice, reader. "
         "Streams of typed items (op tspfx): the history of StreamDeserializer<_, T> over EVERY prefix of a third of the 1001 crafted "
         "(schema, stream) pairs that start with a value, of the out-of-range literal 10…0e-395 2 as f64 / f32 / Value items, and of "
         "300 (thorough 3000) concatenations of 1-4 texts of one random schema; compared with Model.StreamTyped, and the statement of "
         "c10_typed_stream_prefix evaluated on the crate's histories.",
    trusted_base=MACHINE_TB,
    assumptions=["raw values as typed targets are covered by correspondence only (C19); the typed theorems are about the universal "
                 "seed's schema universe (harness/src/schema.rs), whose visitors are transcribed in SJ/Model/FromValue.lean",
                 "std io::Bytes semantics"],
    partial=["the Value-target statement has one exception, which is a genuine deviation of the crate and not a gap of the proof: a prefix "
             "that is a complete out-of-range number literal fails with NumberOutOfRange (open known finding "
             "C10-out-of-range-number-prefix); c10_prefix_value_exact characterises it exactly on the machine state and "
             "c10_prefix_value_ap shows it cannot occur under arbitrary_precision",
             "c10_typed_prefix_partial: for schemas containing an f64 / f32 / Value target the typed theorem carries the same inherent "
             "NumberOutOfRange exception (a prefix can be a complete out-of-range float literal); c10_typed_prefix has no exception "
             "for every other schema (128-bit integers and all key kinds included)",
             "c10_stream_prefix_partial: streams of Value items carry the same inherent NumberOutOfRange exception (open known finding "
             "C10-out-of-range-number-prefix-stream); c10_stream_prefix_ignored has none",
             "c10_typed_stream_prefix_partial: streams of typed items whose schema has an f64 / f32 / Value site carry the same inherent "
             "NumberOutOfRange exception; c10_typed_stream_prefix (every other schema) has none"],
    technique="Lean 4 theorems over a byte-step machine model (fold decomposition + exhaustive analysis of the end-of-input table "
              "against the classify arms regenerated from error.rs) + differential prefix sweep against the crate",
    level_text="Machine-checked: for the Value and IgnoredAny targets, in every feature configuration and for every input source, "
               "every prefix of an accepted text is accepted or fails at the end of the prefix with an Eof-classified error "
               "(c10_prefix_ignored for skipped content; c10_prefix_value_ap for Value under arbitrary_precision: pure Eof; "
               "c10_prefix_value_exact for Value in general: the single other outcome is NumberOutOfRange at the end of the prefix, and "
               "then the machine state reached after the prefix is a number state in a final phase — the prefix ends in a complete "
               "number literal — whose conversion numValue fails; conversely every such state is rejected that way, "
               "c10_number_exception; witnessed by 1 followed by 400 zeros, a prefix of the accepted 10…0e-395). "
               "Typed targets: c10_typed_prefix — for every schema of the typed universe without a float / Value site (bool, twelve "
               "integer widths incl. 128-bit, char, strings, bytes, option, unit, newtype, seq, tuple, maps with every key kind, "
               "structs, enums, IgnoredAny), every configuration and source, a proper prefix of a text accepted by the typed "
               "deserializer + end() is never accepted with a different reading: it fails with an Eof-classified error (visitor "
               "errors and fuel exhaustion excluded by proof: typed_no_panic, typed_fuel_suffices); c10_typed_prefix_partial covers "
               "all schemas with the NumberOutOfRange exception; c10_typed_core is the relational core. "
               "Streams: c10_stream_prefix_partial / c10_stream_prefix_ignored - as long as the stream over the whole input yields values, the "
               "stream over any prefix yields the same values with the same byte_offset()s up to the one call that runs into the cut, and "
               "that call yields None at the cut, a value ending exactly at the cut (a number literal cut short is a shorter number: the "
               "end of input delimits a bare scalar), or an error positioned at the end of the prefix that is Eof-classified (Value items: "
               "or the inherent NumberOutOfRange) - never another Syntax error, never a value or offset the full input does not produce. "
               "Streams of typed items (Model.StreamTyped = next() over Model.Typed.deTyped; Props/StreamTyped.lean): c10_typed_stream_prefix - the "
               "same statement for StreamDeserializer<_, T>, T any schema without a float / Value site, every configuration and source "
               "(None at the cut, a value ending at the cut, or an Eof-classified error at the cut); c10_typed_stream_prefix_partial - every "
               "schema, with NumberOutOfRange allowed only when the schema has such a site. "
               "classify and the error codes are regenerated from src/error.rs each run; the machine and the typed model are compared "
               "with the crate on every prefix of generated and exhaustive short documents, and the property's own predicate is "
               "evaluated on the crate's outputs.",
    level_note="Trusted: Lean kernel + propext/Classical.choice/Quot.sound; extract.py; harness/driver; the hand-written machine model "
               "(validated by correspondence, 0 disagreements) and the hand-written typed model SJ/Model/Typed.lean (transcription of "
               "impl Deserializer for &mut Deserializer<R>, validated by ops tt / tt3 / pfxs / rfaults, 0 disagreements); the stream model "
               "Model.Stream (ops stream, spfx). Raw values are not inside the typed model (C19 has its own).",
)

PARSE_RULE = ("every token sequence of length <= 3 (thorough: 4, 1/4 sampled by seed) over the 43-token structural alphabet "
              "(brackets, separators, quote, space/newline, escape pieces, hex digits, digits, sign/point/exponent, literals and "
              "partial literals, non-JSON bytes, control and multi-byte bytes, surrogate escapes, composite tokens); depth profiles "
              "1,2,126..130 over array/object/alternating/random mixes; grammar-directed random documents with whitespace and "
              "spelling variety and 3 single-byte/structural mutations each; each input parsed into Value (pv) and IgnoredAny (pi) "
              "from &str, &[u8] and an io::Read with a random chunking schedule. Non-trivial = input longer than one byte; "
              "distinct = distinct (op, config, input) lines.")

PROPS["C09"] = dict(
    lean_targets=["SJ.Props.C09", "SJ.Props.TypedSrc", "SJ.Props.C09Stream", "SJ.Props.StreamTyped", "SJ.Props.C09Tok", "SJ.Audit.C09"],
    configs=dict(quick=["d", "ap", "rv"], thorough=["d", "ap", "fr", "po", "rv"]),
    gen_keys=["error.", "de."],
    rule=PARSE_RULE + " C09 adds multi-line documents (spaces turned into newlines) with 4 mutations each; the three sources' "
         "outcomes (message, category, line, column, value) are compared with each other and with the model. Typed targets (op tt3): "
         "the crafted typed corpus and random (schema, text) pairs with byte-level mutations, each from str, slice and a chunked reader. "
         "Streams (op stream3): whole next()/byte_offset() histories of StreamDeserializer<Value> and <IgnoredAny> from str, slice and a "
         "reader with a random chunking, continuing 3 calls past the end, on 47 fixed streams (multi-line ones included), every token "
         "sequence of length <= 2 (thorough 3), concatenations of 1-4 generated values with every separator choice, each truncated and "
         "twice corrupted. Raw values (raw_value configuration; ops raw3, rawnest): Box<RawValue> from the three sources on a fixed "
         "corpus, every token sequence of length <= 2 (thorough 3), multi-line generated documents with 3 mutations each; "
         "Vec<Box<RawValue>> / map-of-RawValue captures of generated arrays and objects with 2 mutations each. "
         "Streams of typed items (op tstream3): next()/byte_offset() histories of StreamDeserializer<_, T> (T = the universal seed of a "
         "schema) from str, slice and a randomly chunked reader side by side, continuing 3 calls past the end and past errors: 1001 "
         "crafted (schema, stream) pairs (bare scalars where peek_end_of_value matters - 1 2, 1x, truetrue, nullnull, \"a\"\"b\", [1][2] - "
         "visitor errors, unpositioned enum errors, errors with a peeked byte, multi-line streams) and 1500 (thorough 12000) "
         "concatenations of 1-4 texts of one random schema with every separator choice (none included), each also truncated and "
         "three times corrupted.",
    trusted_base=MACHINE_TB,
    assumptions=["io::Bytes yields the reader's bytes one at a time in order, whatever the chunking (std)",
                 "typed targets are modelled (Model.Typed) and run by op tt3 (str, slice, reader outcomes of one text against "
                 "deTypedTop with src = slice / reader); streams by Model.Stream (op stream3), raw captures by Model.Raw / "
                 "Model.RawNested (ops raw3, rawnest)"],
    partial=["c09_raw_nested_sources / c09_raw_map_sources state the agreement of SUCCESSFUL nested captures (Vec<Box<RawValue>>, map of "
             "Box<RawValue>); for failing inputs the error of the enclosing Vec / map is a typed-target error (positions of visitor "
             "errors may differ by the reader's peeked byte): evaluated per case by op rawnest",
             "streams of typed items (c09_typed_stream_sources): byte_offset() of a SLICE / &str after the call that failed the stream is the "
             "index at which its parse stopped, which Model.Typed does not expose; the theorem covers every call up to and including "
             "the failing one (both sources: start of the failed item) and the reader's later calls (unchanged); the slice's later "
             "offsets are checked per case by op tstream3 (within [start of the failed item, length], at least the error index - 1)"],
    technique="Lean 4 theorem: the byte-step machine's outcome is independent of the slice/reader source (step-wise equality + all "
              "error sites include the offending byte); typed targets by a two-run simulation over the typed model (Proofs/TypedSim: "
              "the runs differ only at errorIdx sites with a peeked byte) + three-source differential run against the crate",
    level_text="Machine-checked: c09_slice_reader — for every configuration, both untyped targets and every byte string the slice and "
               "reader sources give the same value or the same error code at the same position (hence message, category, line, "
               "column); c09_str_slice_value / c09_str_slice / c09_all_sources — on every valid UTF-8 input (every &str) the &str source gives "
               "the identical outcome too (the UTF-8 check it skips never fires: what is decoded so far followed by the unread input "
               "stays valid UTF-8); c09_str_slice_ignored for skipped content without that hypothesis. Typed targets (Props/TypedSrc.lean, over "
               "Model.Typed, every schema / configuration / byte string, also in fault mode): c09_typed_slice_reader — the slice and "
               "reader outcomes are identical, except that (a) a parser error with code NumberOutOfRange (128-bit integers), "
               "ExpectedNumericKey or ExpectedSomeValue (deserialize_enum) — the three self.error(code) sites reached with a byte in "
               "the peek slot — and (b) a visitor (Data) error positioned by fix_position are reported by the reader exactly one byte "
               "later than by the slice, never earlier, and then the slice's index is that of a byte of the input (the byte in the reader's "
               "peek slot; typed_within_input: every typed error index is <= the input length); c09_typed_slice_reader_class (same value / same code / both Data, index equal "
               "or reader = slice + 1: the predicate op tt3 evaluates), _ok, _err (every other parser error at the same index); "
               "c09_typed_str_slice / c09_typed_all_sources — on valid UTF-8 the &str source gives the identical typed outcome (the "
               "typed parser consumes ASCII outside strings, so every string starts on a character boundary). "
               "c09_stream_offsets (StreamDeserializer: "
               "for every input, item type and number of calls, the slice and reader sources yield the same sequence of items - values, or "
               "errors with the same code at the same index - and the same byte_offset() after every call; on valid UTF-8 input so does "
               "the &str source: the unread input of a stream stays valid UTF-8 after each value), c09_raw_sources (from_*::<Box<RawValue>>: "
               "identical captured span or identical error code and index from slice and reader; from &str too on valid UTF-8 input - a "
               "captured value begins and ends with an ASCII byte, so the byte sources' from_utf8 check cannot fail there), "
               "c09_raw_nested_sources / c09_raw_map_sources (successful Vec<Box<RawValue>> / map-of-RawValue captures agree across the three sources). "
               "Streams of typed items (Props/StreamTyped.lean over Model.StreamTyped): c09_typed_stream_sources - for every schema, configuration, "
               "byte string and number of calls the slice's and the reader's histories agree call by call: the same byte_offset() after every "
               "call, identical items (value, None, error code and index, visitor error and index, Io) except exactly at the sites of "
               "c09_typed_slice_reader, where the reader's index is the slice's + 1 and the slice's index is that of a byte of the input; "
               "c09_typed_stream_offsets (equal offsets, the same values at the same calls); c09_typed_stream_str_slice (&str = slice, items "
               "and offsets, on valid UTF-8). The crate is run on every generated input from all three "
               "sources with random chunkings and the outcomes are compared with each other (spec) and with the model.",
    level_note="Trusted: Lean kernel + 3 standard axioms; extract.py; harness/driver; hand-written machine model validated by "
               "correspondence. Two genuine position defects found by this check were repaired in /repo (fix: commits 28defde, 9343bad).",
)

PROPS["C11"] = dict(
    lean_targets=["SJ.Props.C11", "SJ.Audit.C11"],
    configs=dict(quick=["d"], thorough=["d", "ap", "fr"]),
    gen_keys=["error.", "de."],
    rule=PARSE_RULE + " C11 adds multi-line documents with 4 mutations each; the reported (line, column) of every error is checked "
         "against an independent recursive-descent scanner (Spec.Pos) that computes the first byte after which no continuation is JSON.",
    trusted_base=MACHINE_TB,
    assumptions=["side-condition errors (surrogates, UTF-8, number range, depth) are only required to lie within the input"],
    partial=["c11_earliest holds under the state predicate SideOK (vacuous for skipped content, and for &str input under "
             "arbitrary_precision): a Value state can be doomed by a side condition before any grammar error is reported -- a string "
             "whose bytes can no longer pass the UTF-8 check of byte sources (c11_sideOK_needed: '\"\\xff' + U+0001), a number "
             "committed to a non-negative exponent whose mantissa alone is out of f64 range ('1' '0'x309 'e+x'); faults inside a \\u "
             "group are reported at the group's fourth byte (k = 4). The converse (SideOK is necessary) is proved only for the UTF-8 case"],
    technique="Lean 4 theorems on the byte-step machine (errors are raised by the step that reads the offending byte and are stable "
              "under extension; Eof errors only at end of input; line/column arithmetic) + independent positioned scanner as oracle",
    level_text="Machine-checked: c11_dead (a grammar error reported at byte count idx dooms the prefix of length idx: every continuation "
               "fails identically), c11_eof_at_end, c11_within_input, c11_line / c11_col_* (the line/column formulas of the statement), "
               "c11_earliest / c11_earliest_ignored / c11_earliest_str_ap / c11_earliest_grammar (the bytes before the reported one "
               "have an accepted continuation: explicit completions of every machine state, Proofs/Earliest*.lean), "
               "for Value and ignored targets, all configurations and sources. Every error position the crate reports on generated "
               "non-JSON inputs is compared with the model and with an independent first-dead-byte scanner.",
    level_note="Trusted: Lean kernel + 3 standard axioms; extract.py; harness/driver; machine model validated by correspondence; "
               "Spec.Pos (independent recursive-descent scanner) as executable oracle.",
)

PROPS["C14"] = dict(
    asan=True,
    lean_targets=["SJ.Props.C14", "SJ.Props.TypedDepth", "SJ.Audit.C14"],
    configs=dict(quick=["d", "ud", "rv"], thorough=["d", "ud", "ap", "rv"]),
    gen_keys=["de."],
    rule=PARSE_RULE + " C14 adds typed targets built from arrays, newtype-enum and struct-enum wrappers nested 1..140 deep in six "
         "mixes (accepted iff at most 127 containers are open), unbounded_depth runs with the limit disabled at depth 127..1000 "
         "directly and through a stream, 20k (thorough 200k) random byte strings biased to JSON punctuation, and ten pathological inputs "
         "(10^6-deep arrays open/balanced, 2*10^5-deep objects, 4 MB string, 10^6 escapes, 10^6-digit integer/fraction/exponents, "
         "10^6-element array) each through Value (slice, reader) and IgnoredAny under catch_unwind; schema-typed towers (op tt via "
         "typed::run_tdepth): ten container kinds (Vec, tuple, map with string / integer keys, struct from a map and from an array, "
         "newtype / tuple / struct enum variants, Option+newtype around Vec) and their rotation, 1, 2, 63 and 124..129 layers (62..65 for the "
         "two-level kinds) around six leaves (bool, Vec<u8> from an array, nested Value, IgnoredAny, Vec, scalar Value), complete / "
         "cut before the closers / cut in half, from slice, reader and str, compared with the typed model; under unbounded_depth also "
         "with disable_recursion_limit() up to 200 layers (tag ud+nolimit). "
         "Streams (op sdepth): "
         "StreamDeserializer over two items nested d1 / d2 deep for d1, d2 in {0,1,2,126,127,128,129,200} (quick: at least one of them "
         ">= 126), bracket mixes arrays / objects / alternating, separators none / space / newline / mixed, items Value and "
         "IgnoredAny, sources str / slice / reader, 4 calls; with unbounded_depth also with the limit disabled.",
    trusted_base=MACHINE_TB,
    assumptions=["memory safety of compiled unsafe blocks, real stack consumption and allocator behaviour are runtime properties outside any model (partial by nature)"],
    partial=["the shape invariant making every remaining model fallback unreachable is proved inside the soundness development "
             "(Proofs/Sound: Inv) but not restated per fallback",
             "the recursive Rust type of op tdepth (enum Nest) has no finite schema: its towers are covered by the unrolled enum "
             "schemas of typed::run_tdepth; c14_stream_depth_restored is about streams of Value / IgnoredAny items (the explicit "
             "counter of Model.StreamDepth follows deserialize_any's two check_recursion! sites)"],
    technique="Lean 4 invariants over the byte-step machine (stack height < 128 for every reachable state, re-dispatch happens at most "
              "once, UTF-8 of every returned string, no fuel exhaustion, termination by structural recursion) + pathological-input "
              "runs of the crate under catch_unwind (thorough: also under AddressSanitizer)",
    level_text="Machine-checked: c14_depth_bounded (every reachable state of a Value parse has at most 127 open containers, so the real "
               "recursion is bounded), c14_limit_hit (opening the 128th container is RecursionLimitExceeded at that byte), "
               "c14_again_once (the only unreachable!-style fallback of step is unreachable), c14_utf8 (every string and key of a "
               "returned value is valid UTF-8 - for the &str source, which uses str::from_utf8_unchecked, given that its input is "
               "valid UTF-8) and c14_utf8_at_closing_quote (the same at every closing quote reached, also in documents rejected "
               "later), c14_no_fuel / c14_no_fuel_machine (the fuelled f64_from_parts loop of the number conversion never runs out of "
               "fuel on anything the scanner produces; the float_roundtrip conversion has no fuel); c14_stream_depth_restored / "
               "c14_stream_item_budget (Model.StreamDepth threads the Deserializer's remaining_depth counter through a whole stream, "
               "decrementing / incrementing it where check_recursion! does and testing the limit on the counter: it yields exactly the "
               "items and offsets of the stream model, the counter reads 128 after every value - and after every failed item except "
               "RecursionLimitExceeded itself, which leaves 127 once the stream is already fused - so every item that is parsed has the "
               "full budget of 127 levels); termination by construction. Typed targets "
               "(Props/TypedDepth.lean over Model.Typed): c14_typed_depth_bounded (with the limit enabled, the model with every "
               "deserialize_* call at 128 or more open containers replaced by an arbitrary poison outcome is the same function from "
               "every depth <= 127: no such call is ever made — at most 127 containers are open on any input, accepted or not, for "
               "every schema), c14_typed_limit_hit (with 127 open, each of the seven check_recursion! entry points — Vec / tuple / "
               "bytes on '[', map / enum on '{', struct and Value on either — answers RecursionLimitExceeded at the opening byte; "
               "Option, newtype structs and unit variants pass the depth on, an enum wrapper takes one level), c14_typed_tower (an "
               "array tower of any height >= 128 on 128 '[' fails at byte count 128), c14_typed_value_depth (a nested Value runs on "
               "the typed containers' budget: at most 127 frames together). The crate "
               "is run on random bytes, mutated documents, depth profiles and megabyte/10^6-deep inputs with catch_unwind.",
    level_note="Trusted: Lean kernel + 3 standard axioms; extract.py (remaining_depth = 128 is regenerated); harness/driver; machine "
               "model. Partial by nature: actual memory safety and stack usage of compiled code cannot be exhibited by a model.",
)

PROPS["C12"] = dict(
    lean_targets=["SJ.Props.C12", "SJ.Props.StreamTyped", "SJ.Audit.C12"],
    configs=dict(quick=["d"], thorough=["d", "ap", "fr"]),
    gen_keys=["error.", "de."],
    rule="StreamDeserializer histories of next()/byte_offset(), continuing 3 calls past the end and past errors: a fixed corpus of "
         "44 streams (separators, undelimited scalars, truncations, \\u cut-offs), every token sequence of length <= 2 (thorough 3) "
         "over the structural alphabet, concatenations of 1-4 generated values with every separator choice (none, space, newline, "
         "mixed), each also truncated at a random position and corrupted by one mutation; item types Value and IgnoredAny; sources "
         "str, slice, reader. One case = one (stream, item type, source, call count); non-trivial = stream longer than one byte. "
         "Typed item types (op tstream): StreamDeserializer<_, T> with T = the universal seed of a schema, each source on its own line "
         "(reader with a random chunking): 1001 crafted (schema, stream) pairs - bare scalars where peek_end_of_value matters (1 2, 1x, "
         "truetrue, nullnull, \"a\"\"b\", [1][2], null[]), integers of every width class, floats, options, units, strings / chars / bytes, "
         "Vec / tuple / struct-from-array items, structs / maps from objects, enums in both spellings, Value and IgnoredAny as schema "
         "nodes, visitor errors in the middle of a stream - and 1500 (thorough 12000) concatenations of 1-4 texts (compact or "
         "whitespace-spaced, now and then of the wrong kind) of one random schema with every separator choice incl. none and a "
         "comma, each also truncated at a random position and twice corrupted; byte_offset() is recorded after EVERY call.",
    trusted_base=MACHINE_TB,
    assumptions=["byte_offset() after the stream has failed is not constrained by the property; for Value / IgnoredAny items it is not compared; "
                 "for typed items it is compared for readers (frozen) and bounded for slices (see C09)",
                 "typed item types: the universal seed's schema universe (harness/src/schema.rs) through Model.StreamTyped"],
    partial=[],
    technique="Lean 4 theorems over a model of Iterator::next on top of the byte-step machine (fusedness by invariant over call "
              "histories, progress, Eof errors only at end of input) + history-level differential run against the crate and an "
              "independent grammar-based oracle",
    level_text="Machine-checked: c12_fused (after a failed value every later next() is None, for any number of calls), c12_error_fails, "
               "c12_progress (each yielded value consumes at least one byte: next() terminates and yields at most n values), "
               "runPrefix_eof_at_end (an Eof error is reported only at the end of the available input), c12_values / c12_values_one "
               "(a stream w0 v1 w1 .. vn wn of derivable values meeting the side conditions and the delimiter rule yields exactly "
               "canonM of each tree with byte_offset() just past each value, then None forever at the end of the input: "
               "c12_expected_at, c12_expected_end, c12_values_canon). Typed item types (Props/StreamTyped.lean; Model.StreamTyped.nextT = the same "
               "frame around Model.Typed.deTyped): c12_typed_fused / c12_typed_fused_after (after the stream has failed every later next() is "
               "None with byte_offset() unchanged), c12_typed_error_fails (every item that is neither a value nor None fails the stream, "
               "except the trailing-characters report of peek_end_of_value after a complete bare scalar, whose index is byte_offset() + 1 "
               "and after which the stream goes on at the offending byte), c12_typed_progress (byte_offset() never decreases, grows strictly "
               "with every value and stays within the input; at most |input| values from any number of calls), c12_typed_eof_at_end (every "
               "Eof-classified error of a typed stream is positioned at the end of the input; from Proofs/TypedEofEnd.lean: every Eof "
               "code of the typed deserializer is raised where the unread input is empty), nextT_no_fuel. The delimiter and "
               "self-delineation sets are regenerated from src/de.rs. Whole histories (items and byte offsets) of the crate are "
               "compared with the model and with an independent grammar-based expectation.",
    level_note="Trusted: Lean kernel + 3 standard axioms; extract.py; harness/driver; machine, stream and typed-stream models validated by "
               "correspondence (0 disagreements; op tstream also checks on the crate's own histories: fused, nothing after None, offsets "
               "monotone and within the input, every value = deTypedTop of its own span, Eof errors at the end).",
)

PROPS["C13"] = dict(
    lean_targets=["SJ.Props.C13", "SJ.Props.Typed", "SJ.Props.TypedFaultEq", "SJ.Props.StreamTyped", "SJ.Audit.C13"],
    configs=dict(quick=["d", "rv"], thorough=["d", "rv", "ap", "po"]),
    gen_keys=["error.", "de.", "ser."],
    rule="reader side: 15 fixed + 150 (thorough 1500) generated/mutated documents, a reader that fails at every byte k in 0..=len "
         "with one of 5 error kinds, a random chunking schedule and interleaved Interrupted results, targets Value and IgnoredAny "
         "(modelled) and five typed targets ((i32,i32), Vec<u8>, BTreeMap<String,Vec<i64>>, Option<(String,bool)>, [();3]; "
         "spec only), each also run with a clean end of input after the same k bytes; schema-typed targets (op rfaults: fixed and "
         "random (schema, text) pairs through the universal seed, reader failing after every k, compared with the typed model run "
         "in fault mode); stream iteration over a failing reader (op sfault: Value items; op tsfault: typed items - a quarter of 1001 crafted "
         "(schema, stream) pairs and 400 (thorough 4000) generated streams of one random schema, reader failing after every k with a "
         "random kind / chunking / Interrupted pattern, whole next()/byte_offset() histories of the failing run and of the same bytes "
         "with a clean end, compared with Model.StreamTyped in fault mode); io::Error::from(serde_json::Error) on an error of every category (op ioconv; the category -> ErrorKind table is regenerated from error.rs: c13_into_io_error); in raw_value builds also Box<RawValue> at top level (model: Model.IoFault.rawFault) and as Vec / map elements (spec only), so that the fault arrives while the reader holds a raw buffer; "
         "writer side (op wfault): 300 (thorough 3000) serializer programs x {compact, pretty} - programs whose serialisation fails by "
         "itself (non-string / non-finite-float key) included - against a writer whose policy is a SCRIPT printed in the case line "
         "(answer to write call j = item j: s<n> = Ok(min(n,len)), z = Ok(0), i = Err(Interrupted), e<Kind> = Err(kind); then a tail "
         "answer for ever): for m in 0..=len+1 (sampled for long outputs) a script under which exactly m bytes are accepted in random "
         "short writes with Interrupted answers in between and then the writer fails (one of 6 kinds, or Ok(0)) either for ever or "
         "once (transient: an accept-everything tail, so that a serializer that went on writing would leave a non-prefix), plus 3 "
         "random scripts per program; every buffer handed to write_all is recorded, write calls are counted, and the same script is "
         "run against a second writer that only implements write (std's own write_all) and must behave identically. The driver runs "
         "Model.WriteTrace.toWriterT against Model.Write.Writer.script with the same script and compares result, kind, accepted bytes, "
         "number of write calls and handed buffers; the property itself is judged from the script alone (judgeWrite). "
         "Non-trivial = k > 0 / non-empty script; distinct = distinct lines.",
    trusted_base=MACHINE_TB + ["serializer model Model.Ser (C03) and the io::Write model Model.Write / Model.WriteTrace for the writer side",
                               "std's Write::write_all as quoted in Model/Write.lean (toolchain sources); tools/extract.py gen_write "
                               "(the scan of ser.rs behind c13_every_write_checked)"],
    assumptions=["io::Bytes retries Interrupted and yields bytes in order (std) — exercised by the harness, not modelled",
                 "a Display implementation handed to collect_str propagates the fmt::Error it receives from write_str (std's do; one that "
                 "swallows it can make collect_str go on writing after a failed write, and return Ok in release builds)",
                 "typed targets are judged by the property's predicate against the same bytes followed by a clean end of input"],
    partial=["raw values under a failing reader (raw_value builds) are tied by the model Model.IoFault.rawFault and the correspondence; "
             "no theorem is stated about rawFault"],
    technique="Lean 4 theorems: a reader fault instead of end of input turns the fold's finish into Io unless a delivered byte was "
              "already rejected (c13_read, by induction over the fold); io::Write as a state machine with an arbitrary policy, std's "
              "write_all loop and the serializer's run over it (Model.Write), proved for every policy by induction over the loop and "
              "the buffer list; a static scan of ser.rs for discarded write results; fault-injecting readers/writers against the crate",
    level_text="Machine-checked: c13_read (reader failing after bs: the result is Io iff no delivered byte is rejected, else exactly the "
               "error those bytes produce from any source), c13_read_error_class (that error is Syntax-classified and positioned "
               "within the delivered bytes; never a value, never Eof); writer clause over Model.Write (an io::Write whose every write(buf) "
               "answer - short write, Ok(0), Interrupted, error - is an arbitrary function of the call history): c13_write_all_spec (std's "
               "write_all, for every policy: Ok iff the whole buffer was delivered; Err(e) only after a proper prefix, e being the very "
               "error of the last call or WriteZero after Ok(0); Interrupted never surfaces, the call is repeated; no call after a fatal "
               "answer), c13_writer_prefix (every program that serialises, either formatter, every policy: the bytes accepted are a "
               "prefix of the fault-free output, the buffers handed over are the serializer's first j in order, no write call is made "
               "after the first fatal answer, Ok only if everything was accepted, Io(e) with the policy's own error - kind and payload, "
               "given back by io::Error::from: Res.intoIo / c13_into_io_error), c13_writer_ok_iff (contract-keeping writer: never a "
               "panic, Ok IFF the whole output was accepted), c13_writer_vec (Vec<u8>: Ok, holds the concatenated buffers = the "
               "fault-free output), c13_writer_all / c13_writer_all_vec / c13_trace_agrees (the same for EVERY program, including those "
               "that fail by themselves after having written something - Model.WriteTrace.serT keeps those buffers: a writer fault "
               "before the serializer's own error is reported, not masked), c13_writer_budget (a byte-budget writer realises "
               "Model.IoFault.writeFault; c13_write_prefix / c13_write_is_prefix remain as lemmas about that definition only), "
               "c13_every_write_checked (regenerated from ser.rs on every run: each of the 147 expressions that can reach the writer "
               "hands its io::Result on - tri!, tail, return, ? or collect_str's storing match - and only write_all is ever called), "
               "c13_buffers_utf8 (for every program whose strings are UTF-8 "
               "and either formatter, every buffer passed to write_all is valid UTF-8 on its own, hence so is what a writer holds after "
               "any number of whole buffers; the correspondence also checks every recorded buffer of the crate with "
               "Spec.Utf8.validUtf8), c13_typed_fault (typed deserializer of any schema over "
               "a reader that fails after bs: never a value — Io, or a syntax / visitor error positioned inside bs), c13_typed_fault_eq "
               "(… and when it is not Io it is EXACTLY the outcome of the same bytes followed by a clean end of input — same code / "
               "visitor error at the same index — which is then Syntax- or Data-classified: the predicate judgeFault evaluates in op "
               "rfaults), c13_typed_fault_io (if the clean run accepts or ends Eof-classified, the failing reader yields Io), c13_typed_stream_fault "
               "(StreamDeserializer over typed items, reader failing after bs, n calls: a prefix of items identical - values, "
               "peek_end_of_value reports, offsets - to the run on the same bytes with a clean end, then exactly one terminal item: Io, or "
               "the clean run's own Syntax / Data error at that call with the same offset, then None forever with byte_offset() unchanged; "
               "never None before the terminal item, never a value the clean run does not yield, never an Eof-classified error). The crate is run with readers failing at every "
               "byte and scripted writers failing after every byte count, with chunking, short writes, Interrupted, Ok(0) and transient failures.",
    level_note="Trusted: Lean kernel + 3 standard axioms; extract.py; harness/driver; machine, serializer and writer models. The reader-side "
               "std::io retry loop (io::Bytes) is assumed; write_all is modelled from std's source and cross-checked against std's own. "
               "A genuine defect found by this check (Io error yielded twice by a stream) was repaired in /repo.",
)

PROPS["C19"] = dict(
    lean_targets=["SJ.Props.C19", "SJ.Props.C19Nested", "SJ.Props.C01Iff", "SJ.Audit.C19"],
    configs=dict(quick=["rv"], thorough=["rv", "rvpofr"]),
    gen_keys=["error.", "de.", "ser."],
    rule=PARSE_RULE + " C19 adds, with raw_value enabled: every token sequence of length <= 2 (thorough 3), generated documents and "
         "their mutations captured at top level as Box<RawValue> and &RawValue from str/slice and Box<RawValue> from a reader "
         "(five captures compared with each other, with the model and with the value's source text; a borrowed capture must be "
         "a subslice at the right offset); arrays, objects and structs whose elements' exact source spans are known to the "
         "generator, with every whitespace placement around them, captured as Vec<&RawValue>/Vec<Box<RawValue>>/BTreeMap/struct "
         "fields (incl. an unknown field skipped in between); RawValue::from_string on the same inputs with to_string, pretty, "
         "nested and to_value of the result. Op rawnest: Vec<Box<RawValue>> (and Vec<&RawValue>, which must be subslices) and the "
         "entries of a map of Box<RawValue> in source order, from str, slice and a chunked reader, on a fixed corpus, every token "
         "sequence of length <= 2 (thorough 3) bare and wrapped in [..], [1,..], {\"k\":..}, {..:1}, generated arrays/objects with "
         "whitespace variety, 3 mutations each and every prefix of a quarter of them; compared with the nested-capture model "
         "(Model.RawNested) and with element spans computed by the independent scanner Spec.Pos. Op rawser: serializer programs "
         "with RawValues at arbitrary positions (random RVal programs of depth <= 3 over every container constructor, RawValue "
         "keys included, leaves = C03 programs) through a recording writer, compact and pretty with indents two spaces / tab / "
         "empty; compared buffer by buffer with Model.SerRaw.",
    trusted_base=MACHINE_TB + ["serializer model Model.Ser (C03) for op rawser; typed sequence/map machinery of Model.Typed for op rawnest"],
    assumptions=["RawValue's transmutes between str and RawValue (layout) are outside the model",
                 "struct fields captured raw (derive-generated visitor) are checked against generator-known spans (op rawelems), not modelled",
                 "to_value(RawValue) = from_str(text) is checked per case (op rawstr), not modelled"],
    partial=["object values captured raw: c19_nested_capture_map / c19_nested_grammar_map are about the entry sequence handed to the map "
             "visitor (source order, duplicates included); what BTreeMap / IndexMap make of duplicates is C17; the converse grammar "
             "direction and the comparison with the parsed Value (c19_nested_complete, c19_nested_canon) are proved for arrays only",
             "c19_nested_capture / c19_top_complete on byte sources take the UTF-8 validity of the element texts as hypothesis (it is "
             "what from_utf8 checks); that it follows from the UTF-8 validity of the whole input is proved for the three-source "
             "statement only (C09 c09_raw_sources)"],
    technique="Lean 4 theorems: top-level and array-element capture = exactly one grammar value (soundness of the machine on the consumed "
              "bytes + completeness to exclude a shorter/longer reading; loop invariant over SeqAccess), iff with the concatenation "
              "structure of the array text; one-hole contexts over the RawValue serializer route; span-exact differential runs",
    level_text="Machine-checked: c19_skip_language (the scanner of skipped/raw content accepts a byte string iff it is exactly one RFC "
               "8259 JSON text, with no depth, surrogate, UTF-8 or range condition), runPrefix_feed and c19_captured_reparses; "
               "c19_top_span / c19_top_complete (from_*::<Box<RawValue>> captures bs[p..e] iff the input is whitespace, one grammar value "
               "(Derives, first to last byte, valid UTF-8 on byte sources), whitespace - and then exactly that value); c19_nested_capture "
               "(from_*::<Vec<Box<RawValue>>> succeeds with captures cs iff the input is ws [ inner ] ws with inner = ws or ws c1 (ws , ws "
               "ci)* ws and every ci one grammar value: each element is captured from its first to its last byte, nothing else is "
               "accepted), c19_nested_grammar / c19_nested_complete (these decompositions are the array derivations JsonText bs (arr ts) "
               "with Derives ci ti), c19_nested_canon (if the same bytes parse into a Value it is an array of as many elements and the "
               "i-th capture parses on its own to the i-th element); c19_nested_capture_map (a map with String keys and Box<RawValue> values "
               "succeeds with entries (s_i, c_i) iff the input is ws { inner } ws, inner = ws or ws member (ws , ws member)* ws, member = key "
               "literal ws : ws c, every key a well-formed literal with paired escapes decoding to s_i (valid UTF-8 on byte sources) and "
               "every c_i one grammar value), c19_nested_grammar_map (these are object derivations JsonText bs (obj members)); c19_verbatim (a RawValue in the hole of any serializer context - seq, "
               "tuple, variants, map value, struct field, Some/newtype, nested to any depth - is handed to the writer as one buffer "
               "holding exactly its text, by the compact and every pretty formatter, and nothing else that is written depends on the "
               "text), c19_verbatim_top, c19_verbatim_bytes, c19_serR_is_ser (the extended serializer is the C03 serializer with the "
               "RawValue replaced by a literal leaf), c19_raw_key_rejected. The crate's captures at top level and at every nested "
               "position are compared byte for byte with the source spans and with the models; from_string/to_string/to_value round "
               "trips are checked on every input.",
    level_note="Trusted: Lean kernel + 3 standard axioms; extract.py; harness/driver; machine model (ignored target), the typed model's "
               "sequence/map machinery, Model.RawNested and Model.SerRaw (validated by ops rawnest / rawser, 0 disagreements).",
)

PROPS["C01"] = dict(
    lean_targets=["SJ.Props.C01", "SJ.Props.C01Iff", "SJ.Props.C01Ap", "SJ.Props.C01Rv", "SJ.Audit.C01"],
    configs=dict(quick=["d", "ap", "rv"], thorough=["d", "ap", "rv", "fr", "po", "ud", "rvap"]),
    gen_keys=["error.", "de."],
    rule=PARSE_RULE + " Accept/reject of the crate is compared with the model and with the independent recursive-descent "
         "recogniser + side conditions (Spec.Rec, Spec.Canon.sideConditions).",
    trusted_base=MACHINE_TB,
    assumptions=["two parser models: the byte-step machine Model.Machine (every configuration; sides with RFC 8259 on every object) and "
                 "Model.MachineAp = the machine + the reading Value's visitor applies under arbitrary_precision to an object whose first "
                 "key decodes to $serde_json::private::Number (value/de.rs visit_map / KeyClassifier, number.rs NumberFromString, "
                 "Number::from_str, de.rs end_map). The correspondence run uses MachineAp for the Value target whenever the "
                 "configuration has arbitrary_precision (0 disagreements, tag private-token included); c01_accepts_iff is a theorem "
                 "about the machine, c01_ap_conservative transfers it to MachineAp on every input without a token first key, and "
                 "c01_ap_token_object / c01_ap_token_language state what the crate does on the others. That behaviour deviates from "
                 "the property (valid JSON rejected / misread) and stays listed as open finding C01-ap-private-number-token: the "
                 "specification reports it (tightened signature: only the S lines with the outcomes the reading produces), the model "
                 "now reproduces it",
                 "raw_value: a third model, Model.MachineRv = MachineAp + the reading of an object whose first key decodes to "
                 "$serde_json::private::RawValue (value/de.rs visit_map RawValue arm, raw.rs BoxedFromString = deserialize_str with a visitor "
                 "that has visit_str only, then crate::from_str on the DECODED string - a fresh Deserializer: &str source, fresh recursion "
                 "budget, the same features, so both token readings apply again inside - its error through de::Error::custom: same "
                 "message, category Data, the nested text's own line / column; then end_map). The nested parse is a parameter of the step "
                 "function; parseTop ties the knot by structural recursion on a fuel = length + 1 and c01_rv_recursion proves the fuel "
                 "never runs out (a decoded string is strictly shorter than its text). The correspondence run uses MachineRv for the Value "
                 "target whenever the configuration tag has rv (0 disagreements with the full outcome - message, category, line, column, "
                 "three sources - tags private-token* and raw-token* included). The behaviour deviates from the property and stays listed "
                 "as open finding C01-rv-private-rawvalue-token (tightened signature: only S lines with the outcomes the reading produces)"],
    partial=["c01_ap_accepts_iff (the accepted language of the faithful model under arbitrary_precision = RFC 8259 texts with the side "
             "conditions in which every token-first object is { token : \"number literal\" }) states the shape clause on the BYTES "
             "(Spec.PrivateToken.TokenObjectsShaped: every string literal that stands directly after a { - the lexical scan is "
             "outside string literals there - and decodes to the token is followed by ws : ws \"number literal\" ws }), not on "
             "the syntax tree (Spec.PrivateToken.TokenShaped); the equivalence of the two formulations on JSON texts is not proved "
             "(it needs the unambiguity of the grammar). Tree-level formulations are proved for two families "
             "(c01_ap_accepts_iff_partial): inputs in which no first key decodes to the token and documents that are themselves a "
             "token-first object",
             "raw_value: the accepted language of the faithful model has no closed-form statement like c01_ap_accepts_iff: "
             "c01_rv_token_object / c01_rv_token_language characterise a raw-token object RECURSIVELY (accepted iff ws : ws string ws } "
             "and the decoded string is accepted by the parser itself in the environment of the nested from_str), c01_rv_conservative / "
             "c01_rv_accepts_iff_tokenfree cover every input without a raw-token first key, c01_rv_sound gives the soundness half for "
             "every input (the OUTER text is RFC 8259 JSON meeting the side conditions); a language-level iff for inputs that mix "
             "ordinary structure with raw-token objects at depth (the analogue of TokenObjectsShaped, with 'decodes to an accepted "
             "text' in place of 'decodes to a number literal') is not stated"],
    technique="Lean 4 theorem c01_accepts_iff: the byte-step machine accepts exactly an inductive RFC 8259 grammar plus the stated side "
              "conditions (completeness by induction on derivations, soundness by a zipper invariant over every step) + "
              "exhaustive-token differential run against the crate and an independent recogniser",
    level_text="Machine-checked: c01_complete_value — every byte string that is one RFC 8259 JSON text (inductive byte-level grammar) "
               "nested at most 127 deep (or limit off), with paired surrogates, UTF-8 strings (byte sources) and numbers in range "
               "(not needed under arbitrary_precision: c01_complete_value_ap) is accepted by the parser model and yields the value "
               "it denotes; c01_complete_ignored (skipped content accepts every JSON text without side conditions); "
               "c01_empty_rejected, c01_leading_ws / c01_trailing_ws; with the converse c02_denotes this gives c01_accepts_iff "
               "(accept <=> JSON text + side conditions) and c19_skip_language (skipped content <=> JSON text). The crate's "
               "accept/reject on every token sequence up to length 3-4, depth profiles 126-130, documents and mutations is compared "
               "with the model and with an independent recogniser. Under arbitrary_precision (Props/C01Ap.lean, model "
               "Model.MachineAp): c01_ap_conservative (no string literal directly after a { decodes to the Number token - a lexical "
               "scan of the bytes, Spec.PrivateToken.hasTokenFirstKey - => the faithful model IS the machine: value, error code, "
               "position; hence c01_ap_accepts_iff_tokenfree), c01_ap_number_from_str (Number::from_str accepts exactly the RFC 8259 "
               "number literals), c01_ap_token_object (at any depth, after a first key equal to the token the run succeeds iff the "
               "rest of the object is ws : ws string ws } with the string decoding to a number literal, and continues with that NUMBER "
               "in place of the object; c01_ap_conservative_cst / c01_ap_complete_tokenfree: the same from the syntax tree - a JSON "
               "text none of whose objects has a first key decoding to the token has no hit in the scan), c01_ap_token_language (a document that is such an object is accepted iff it has that shape; "
               "its value is the number), c01_ap_token_value_not_string / _not_number / _extra_member / _eof (the specific errors: "
               "serde's invalid type; Number::from_str's error with its own line and column; trailing comma / characters; EOF), "
               "c01_ap_accepts_iff_partial; c01_ap_sound (EVERY input: what the faithful model accepts is an RFC 8259 text meeting the "
               "side conditions - the token reading never admits non-JSON; by running MachineAp and the machine side by side: the "
               "machine's control flow never inspects collected values, step1_eqv) and c01_ap_accepts_iff (the faithful model accepts "
               "exactly the RFC 8259 texts meeting the side conditions in which every string literal directly after a { that decodes "
               "to the token is followed by ws : ws \"number literal\" ws } - a clause on the bytes, mentioning neither model nor run; "
               "c01_ap_accepts_iff_run: the same with the clause on the machine's run). "
               "Under raw_value (Props/C01Rv.lean, model Model.MachineRv, every combination with the other features): c01_rv_recursion "
               "(parseRv renv bs = run (parseRv renv.inner) renv init 0 bs: the nested parser of the model IS the model - fuel-free "
               "recursion equation; c01_rv_fuel_irrelevant), c01_rv_off (without the feature MachineRv = MachineAp), "
               "c01_rv_conservative (no string literal directly after a { decodes to the RawValue token - Spec.PrivateTokenRv."
               "hasRawTokenFirstKey, the same lexical scan with the other token - => MachineRv = MachineAp: value, error, message class, "
               "position; with c01_ap_conservative: = the machine, c01_rv_conservative_machine(_noap); hence "
               "c01_rv_accepts_iff_tokenfree, c02_rv_value_is_canon_tokenfree), c01_rv_token_object (at any depth, after a first key "
               "equal to the raw token the run succeeds iff the rest is ws : ws string ws }, the string - valid UTF-8 on byte sources - "
               "decodes to a text that parseRv renv.inner accepts, and continues with THAT TEXT's value in place of the object), "
               "c01_rv_token_language (a whole document that is such an object; its value is the nested text's value), "
               "c01_rv_token_value_not_string (invalid type ... expected raw value, Data, at the bracket / one later for readers), "
               "c01_rv_token_nested_error (the nested parse's failure escalated: same message, Data, ITS line and column; innermost "
               "position kept through several levels), c01_rv_token_extra_member, c01_rv_token_eof, c01_rv_sound (EVERY input, every "
               "feature combination: what the faithful model accepts is an RFC 8259 text meeting the side conditions - by a "
               "simulation against the machine that extends MachineAp's). Kernel-evaluated examples: nested tokens two levels deep, "
               "the Number token inside a raw string (both features), the fresh recursion budget (126 + 127 containers accepted, "
               "128 inside the string rejected with the nested error at column 128).",
    level_note="Trusted: Lean kernel + 3 standard axioms; extract.py (depth 128, whitespace set, literals, number::TOKEN and the "
               "fingerprints of KeyClassifier / visit_map / NumberFromString / end_map / Number::from_str regenerated); harness/driver; "
               "the hand-written models Model.Machine, Model.MachineAp and Model.MachineRv validated by correspondence (0 disagreements "
               "over all sources/configs; raw::TOKEN, BoxedFromString's expecting text and the fingerprints of the RawValue arm, "
               "BoxedFromString, from_str / from_trait and de::Error::custom / make_error regenerated, keys de.token.raw.*). The crate's "
               "readings of the private Number and RawValue tokens are deviations from the property (open findings), now theorems "
               "about the models instead of gaps of them.",
)

PROPS["C02"] = dict(
    lean_targets=["SJ.Props.C02", "SJ.Props.C02Map", "SJ.Props.C06Int", "SJ.Props.C01Iff", "SJ.Props.C01Ap", "SJ.Props.C01Rv", "SJ.Audit.C02"],
    configs=dict(quick=["d", "po", "ap"], thorough=["d", "po", "fr", "ap"]),
    gen_keys=["error.", "de."],
    rule=PARSE_RULE + " The returned Value (tagged tree: integers exact, floats as bit patterns, object keys in iteration order) "
         "is compared with the model and with the independent denotation Spec.Canon.canon of the recognised syntax tree.",
    trusted_base=MACHINE_TB,
    assumptions=["float values are whatever the configured conversion returns: their accuracy is C07/C08, not C02",
                 "arbitrary_precision: the correspondence run uses Model.MachineAp (the machine + the private Number token reading of "
                 "Value's visitor) for the Value target; c02_denotes / c02_value_is_canon are theorems about Model.Machine and transfer "
                 "to MachineAp on every input without a token first key (c01_ap_conservative, c02_ap_value_is_canon_tokenfree)",
                 "raw_value (not among C02's configurations; C01 runs it): Model.MachineRv; c02_value_is_canon transfers to it on every "
                 "input without a raw-token first key (c02_rv_value_is_canon_tokenfree); on a raw-token object the value is the nested "
                 "text's value, not the denotation of the outer text (c01_rv_token_language)"],
    partial=["arbitrary_precision: an object whose first key is the private Number token and whose only value is a string holding a number "
             "is returned as that NUMBER, not as the object the text denotes (open finding C02-ap-private-number-token: a genuine "
             "deviation of the crate, reported by the specification; the faithful model reproduces it and c01_ap_token_language "
             "states it: the value is .num (.lit txt))"],
    technique="Lean 4 theorems: objects built by sequential insertion = one entry per distinct key with the last value, sorted / "
              "first-occurrence order (mkObj = objectOf, both builds); the overflow! guard = mathematical comparison and integer "
              "classification of every digit string; completeness with value (C01) + value-level differential run",
    level_text="Machine-checked: c02_denotes / c02_value_is_canon (every accepted text has a syntax tree whose denotation canon is the "
               "returned Value, with all side conditions), c02_array_order, c02_string_is_decoded_text; and for all member lists and all "
               "digit strings: c02_object_keys_distinct, c02_object_last_duplicate_wins, "
               "c02_object_sorted_default, c02_object_first_occurrence_order, c02_mkObj_eq_objectOf, c02_canonM_eq_canon; "
               "c06_overflow_guard_spec, c06_parse_integer (u64 iff in [0,2^64), i64 iff in [-2^63,0), otherwise float), c06_minus_zero "
               "(-0 is the float 0x8000000000000000), c06_out_of_integer_range. Together with c01_complete_value (the accepted value "
               "is canon of the text's tree). Every Value the crate returns on generated/exhaustive inputs is compared with the model "
               "and an independent denotation.",
    level_note="Trusted: Lean kernel + 3 standard axioms; extract.py; harness/driver; machine model. BTreeMap/IndexMap insertion "
               "modelled by documented semantics (btInsert/ixInsert).",
)

PROPS["C06"] = dict(
    lean_targets=["SJ.Props.C06", "SJ.Props.C06Int", "SJ.Props.C06Via", "SJ.Audit.C06"],
    configs=dict(quick=["d", "ap"], thorough=["d", "ap", "fr"]),
    gen_keys=["de."],
    rule="integer literals: every value within +-40 (thorough +-300) of each power of two up to 2^128 and of each type bound, with "
         "and without '-', all values in [-300,300] (thorough: all 8- and 16-bit values), -0, fraction/exponent spellings of "
         "integral values, near-misses of the grammar (01, +1, 1., .1, padded), random 1-45 digit literals; each into the twelve "
         "integer types via from_str, from_value, Deserialize for &Value, as a quoted map key of a text object and as a key of a "
         "Value map; Number accessors (as_i64/as_u64/as_i128/as_u128/is_*) of the literal; to_string of the integer. "
         "Non-trivial = literal longer than one byte; distinct = distinct lines.",
    trusted_base=MACHINE_TB + ["serde's primitive integer visitors (range checks) modelled by documented semantics (visitInt)",
                               "hand-written models of the typed text entry points (Model.Typed), of src/value/de.rs + Number's Deserializer impl "
                               "(Model.FromValue) and of the string-backed Number (Model.NumberAp); all five paths of op int and every accessor of op "
                               "acc are computed by these models in both configurations and compared with the crate (0 disagreements)",
                               "<iN/uN as FromStr>::from_str (core::num::from_str_radix): optional + (or - for signed types), at least one digit, "
                               "nothing else, value must fit - by documented semantics (FromValue.rustParseInt)"],
    assumptions=["a Value cannot hold integers outside [i64::MIN, u64::MAX] nor -0 as an integer without arbitrary_precision: the "
                 "via-Value clause is judged on representable literals only (now a hypothesis of c06_via_value for the 128-bit targets)",
                 "itoa prints plain decimal digits (checked by the iprint op on every literal)"],
    partial=["c06_via_value_ap_partial: under arbitrary_precision the via-Value path (from_value / &Value = lit.parse::<iN>()) equals the "
             "statement's verdict for every literal and width EXCEPT the literal -0 into i8/i16/i32/i64, where it returns 0 while text and "
             "both key paths reject (-0 is the float negative zero): the exception is a conjunct of the theorem and is witnessed by the "
             "kernel-evaluated c06_ap_negative_zero_via_value; open known finding C06-ap-negative-zero-via-value",
             "c06_via_value (default build): for the 128-bit targets the via-Value clause carries the proviso the statement itself makes - the "
             "Value must hold the literal as an integer (not -0, within [i64::MIN, u64::MAX]); otherwise the Value is a float and from_value "
             "returns nothing (proved as the last conjunct)",
             "the quoted-key clause is proved at MapKey::deserialize_iN (Model.Typed.keyInt on \"lit\" followed by any rest, which is left "
             "unread); the object around it (hasNextKey, colon, value, end_map) is generic typed-model code and is exercised on the whole "
             "document {\"lit\":null} by op int (driver field 4 = deTypedTop on that document)"],
    technique="Lean 4 theorems: overflow! guard = mathematical comparison; digit-loop and integer classification for every digit string; "
              "typed deserialisation = value-and-range specification for all ten integer widths, both float configurations; "
              "accessor laws; all five access paths (text, from_value, &Value, quoted key, key of a Value object) as theorems over the "
              "typed text model, the Value parser model and the value/de.rs model against one specification of the literal's worth; "
              "boundary-dense differential run over the five paths with every field computed by those models",
    level_text="Machine-checked: c06_typed (for every integer type and every number literal, text deserialisation returns the literal's "
               "mathematical value iff it has no fraction/exponent, is not -0 (8..64-bit) and lies in the type's range; never wraps), "
               "c06_overflow_guard_spec, c06_digit_loop, c06_parse_integer(_intClass), c06_minus_zero, c06_out_of_integer_range, "
               "c06_accessors (as_* exact or None; is_* iff as_* is Some); c06_via_value (default build, both float configurations, every "
               "source: for every RFC 8259 number literal and each of the ten integer widths, from_str::<T>, the literal as a quoted key of a "
               "text object, the literal as a key of a Value object, and - whenever the literal parses into a Value - from_value::<T> and "
               "T::deserialize(&Value) all return Spec.NumberAcc.targetInt of the literal, i.e. the same integer or all reject; 128-bit "
               "targets through a Value under the representability proviso) and c06_via_value_ap_partial (the same under "
               "arbitrary_precision for all widths incl. 128 bits without proviso, with the single exception -0 into i8..i64 via Value made "
               "explicit and witnessed: c06_ap_negative_zero_via_value). The crate is run on boundary-dense literals through text, "
               "Value (owned and borrowed) and both map-key paths for twelve integer types, plus accessors and printing; all fields are "
               "computed by the models the theorems are about.",
    level_note="Trusted: Lean kernel + 3 standard axioms; extract.py; harness/driver; Model.Num/TypedInt transcriptions validated by "
               "correspondence; serde's visitors and std's integer FromStr assumed. One open finding under arbitrary_precision (-0 via Value), "
               "now an explicit, kernel-witnessed exception of c06_via_value_ap_partial.",
)

PROPS["C20"] = dict(
    lean_targets=["SJ.Props.C20", "SJ.Audit.C20"],
    configs=dict(quick=["ap"], thorough=["ap", "frap"]),
    gen_keys=["error.", "de."],
    rule="with arbitrary_precision: the C06 literal families through typed targets and accessors; every string of length <= 5 "
         "(thorough 6) over the number alphabet 0 1 9 - + . e E as candidate for Number::from_str (exhaustive near-misses of the "
         "grammar); a fixed set of spellings (-0, trailing zeros, exponent spellings, huge exponents), 2000 (thorough 20000) random "
         "number texts and 30 (thorough 300) literals with 100-1000 digit mantissas/exponents: as_str, Display, to_string of the "
         "Number and of the Value, pretty, and nested in a document read through a chunked reader; documents of arrays of such "
         "literals with whitespace re-serialised; plus the whole parser input space of C01 (values compared as literal text).",
    trusted_base=MACHINE_TB,
    assumptions=["as_f64 of an arbitrary-precision Number is str::parse::<f64> (std, core::num::dec2flt), ASSUMED correctly rounded with overflow to +-inf "
                 "(its documented contract): Model.NumberAp rounds the exact decimal value with Spec.Ieee.roundNE64; the correspondence compares the crate's "
                 "as_f64 with that model and, independently, with roundNE64 of the literal's exact value. std's exponent accumulator saturates at 65536 "
                 "digits-worth, irrelevant below 65 000-byte literals",
                 "<iN/uN as FromStr>::from_str = core::num::from_str_radix(.., 10): optional + (- for signed), digits, in range (documented semantics)",
                 "Number::from_str = number entry point + end-of-input check, modelled as 'parser returns a number and the input has no whitespace'"],
    partial=["c20_typed_same excludes schemas with a Value target inside (there the feature changes the representation of numbers by design); on all "
             "other schemas the two builds return the same outcome or both fail - they can fail with different errors in one situation only (a number "
             "where another kind is expected: peek_invalid_type parses it as deserialize_any would, so an out-of-range literal is 'number out of range' "
             "without the feature and 'invalid type' with it); for numeric targets on number-like input the outcomes are identical "
             "(c20_typed_number_identical)",
             "c20_accessors / c18 float clauses rest on the assumption that std's str::parse::<f64/f32> is correctly rounded (trusted base)"],
    technique="Lean 4 theorems derived from parser soundness/completeness: under arbitrary_precision every RFC 8259 number literal parses "
              "to the number whose text is the literal byte for byte; only number literals yield numbers; exhaustive number-alphabet "
              "differential run of Number::from_str and verbatim re-serialisation",
    level_text="Machine-checked: c20_verbatim (for every number literal p, any length and spelling, parsing p.bytes under "
               "arbitrary_precision gives Num.lit p.bytes), c20_nested (the same for a literal anywhere in a document, via the "
               "denotation theorem c02_denotes), c20_from_str_sound (a whitespace-free input that parses to a number is exactly an RFC "
               "8259 number and is stored unchanged), c20_accessors / c20_parsed_accessors (for every stored literal the accessors of the string-backed "
               "Number computed as the crate computes them - self.n.parse::<i64/u64/i128/u128/f64>() - are: the exact integer value iff the literal has no "
               "fraction/exponent and fits, unsigned ones None on any minus sign; as_f64 = Spec.Ieee.roundNE64 of the exact rational value, None iff "
               "that overflows; is_* iff as_* is Some; is_f64 iff fraction/exponent present and finite), c20_as_f32, c20_typed_same / "
               "c20_typed_same_value / c20_typed_number_identical (the typed text deserializer model returns the same outcome with and without the "
               "feature for every schema without a Value target and every input, or fails in both; identical outcomes for numeric targets). "
               "The crate's as_str/Display/to_string/pretty/nested outputs are compared with the "
               "literal on random, boundary and 1000-digit literals; Number::from_str is run on every string of length <= 5-6 over the "
               "number alphabet against the grammar.",
    level_note="Trusted: Lean kernel + 3 standard axioms; extract.py; harness/driver; machine model. A genuine defect (-0 stored as 0) was "
               "repaired in /repo (fix: d7b526b).",
)

PROPS["C16"] = dict(
    lean_targets=["SJ.Props.C16", "SJ.Props.C16Float", "SJ.Props.C16Ap", "SJ.Props.C16ApFloat", "SJ.Props.Typed", "SJ.Audit.C16"],
    configs=dict(quick=["d", "fr", "ap"], thorough=["d", "fr", "po", "ap"]),
    gen_keys=["fromvalue."],
    rule="(schema, value) pairs for the universal DeserializeSeed of harness/src/schema.rs, each run through from_value (Value by value), "
         "&Value and from_str(to_string(value)) followed by end(): a fixed corpus (every leaf target and every leaf under Option / newtype / "
         "Vec / 1-tuple against ~110 small values incl. every integer bound and number-literal spellings; tuples too short / exact / too "
         "long; every key kind (String, 10 integer widths, bool, char, unit enum) against 46 key spellings such as 12, -3, 01, 1.0, 1e0, "
         "true, +1, -0, ' 1', type bounds and bounds+-1; structs with and without deny_unknown_fields from objects (unknown / missing / "
         "optional / ill-typed fields, any order) and arrays (short / exact / long); an enum with unit, newtype, tuple and struct variants "
         "in every spelling incl. two-key and empty objects and unknown variants; the statement's three exclusions), then random schemas "
         "from gen_schema (depth 0-3, all 18 node kinds, all key kinds) with 1-3 values each from gen_value_for (matching, and deliberately "
         "mismatching at every level: wrong kind, out-of-range and just-in-range integers, floats for integers, extra / missing elements, "
         "unknown / missing / clashing fields, wrong variant payload shapes, ill-formed numeric keys) plus unrelated random values. "
         "The case line carries to_string(value); the driver runs the typed text model on it. Op tt (typed text deserializer alone): "
         "(schema, text) pairs from str, slice and chunked reader — a crafted corpus (13 array spellings incl. trailing commas against "
         "seq / tuple / struct / bytes targets; 12 literal prefixes such as nul, nulx, tru against option and leaf targets; 36 object "
         "spellings (quoted numeric / bool keys with missing quotes, signs, leading zeros, fractions, escapes) against every key kind "
         "and structs; 36 enum spellings incl. {\"V\":true ,}; nests of depth 1, 2, 126-129 against typed, Value and IgnoredAny "
         "targets sharing the recursion budget; raw strings with lone surrogates and invalid UTF-8), 61 number spellings (every "
         "integer bound +-1 up to 128 bits, exponent overflow, f32 extremes) against every leaf target and as quoted keys of every "
         "integer width, 1200 (thorough 12000) random schemas with a matching value's compact and whitespace-spaced text and an "
         "unrelated value's text, and of the short ones every truncation, every single-byte deletion, substitutions at each position and insertions from a 29-byte structural alphabet; outcome = value or (message, category, line, column). "
         "Targets outside the schema universe (op c16x, found by line coverage of value/de.rs and de.rs; no Lean model, the three-way "
         "statement itself is evaluated): 22 Rust types — maps keyed by Option<String>, byte buffers, newtype structs around String / i16 / bool, a "
         "unit-variant enum, (), char; Number, Option<Number>, Vec<Number>, Map<String, Value>, Value, IgnoredAny, Cow<str>, Box<str>, a "
         "tuple struct, a unit struct, a struct with Number / Map / skipped fields, a struct borrowing Cow<str>, (i128, u128) — each on a "
         "shared pool of 85 values and on 60 (thorough 480) type-directed values with near misses. "
         "Non-trivial = the schema is not a bare leaf or the value is an array/object; distinct = distinct case lines.",
    trusted_base=[KERNEL, TIE + "; for C16 the translator regenerates the routing table of src/value/de.rs (per method: delegation, "
                  "macro, or Value::K => callee arms; forward_to_deserialize_any lists; leftover checks; numeric-key guard) and "
                  "c16_routing_tied compares it with the table the transcription was written against (a fingerprint)",
                  "the universal seed of harness/src/schema.rs: serde's own Deserialize impls for the leaves (bool, 12 integers, f32/f64, char, "
                  "String, (), IgnoredAny, serde_bytes::ByteBuf, Value) and hand-written copies of the visitor shapes serde_derive generates for "
                  "Option, newtype struct, Vec, fixed tuples, maps, structs (seq or map, __Field identifiers, deny_unknown_fields, "
                  "missing_field) and externally tagged enums; their Lean transcription is the 'visitors' part of SJ/Model/FromValue.lean, "
                  "shared by the owned and the borrowed side as the visitor objects are in Rust",
                  "str::parse::<iN/uN/f64/f32>, `as` casts, ryu and f64::to_string are external: parse/casts modelled by documented semantics "
                  "(exact / correctly rounded, SJ.Spec.Ieee); ryu and Display texts are passed by the harness per literal (Ext parameter, "
                  "arbitrary_precision only)",
                  "SJ.Spec.Ieee is the lead's placeholder round-to-nearest-even (to be replaced by the C08 branch's, same signatures)"],
    assumptions=["Values are well-formed: Number::Float is finite, object keys are distinct and are not the private tokens "
                 "$serde_json::private::Number / RawValue; struct field names and variant names of a schema are distinct",
                 "serde visitors behave as transcribed (they are serde's, not serde_json's); raw_value builds are not in the configurations",
                 "float results are compared only under float_roundtrip or when every number of the value is an integer in [i64::MIN, u64::MAX] "
                 "or a short literal (<= 15 significant digits, |decimal exponent| <= 22), as the statement says"],
    partial=["c16_agree_partial / c16_text_agrees_partial: the owned/borrowed leg is proved in full strength over the whole universe and "
             "every configuration (c16_owned_borrowed). The text leg — Model.Typed.deTypedTop (transcription of de.rs's typed entry "
             "points + end()) on the serializer model's to_string(v) equals fromValue, matching and mismatching values alike — is "
             "proved (c16_text_agrees_partial) for every schema of the universe without f32 targets and zero-length tuple variants "
             "(both outside the claim): bool, twelve integer widths, f64, char, String, "
             "byte buffers, unit / unit struct, Option, newtype, Vec, fixed tuples, maps with every key kind (string, twelve integer "
             "widths, bool, char, unit-variant enums; arbitrary key strings), structs with and without deny_unknown_fields from "
             "arrays and objects, enums with unit / newtype / non-empty tuple / struct variants, IgnoredAny, Value at any nesting "
             "depth — over the non-arbitrary_precision values of the build (shapeOK, floats finite) whose floats the printer / parser "
             "pair returns (the named hypothesis FloatsRoundTrip, as the statement's 'float_roundtrip or short float literals'; "
             "discharged from RyuShortest under float_roundtrip: c16_text_agrees_fr; vacuous without floats: c16_text_agrees_nofloat), "
             "within the depth budget and outside the statement's exclusion 'a struct variant written as an array', which is now "
             "schema-directed both in the theorem (hx: Schema.svArr s v = false, Spec/SchemaExcl.lean) and in the executable "
             "statement of op c16 (c16Excluded2): excluded only where an enum target with a struct variant `name` meets the "
             "single-key object {name: [...]} on the way the deserializers visit the value (102 of 425,864 quick c16 cases of the "
             "default build were newly included; the three real outcomes agree on each). A float value under a 128-bit integer "
             "target is covered: scan_integer128 consumes the integer prefix of 1.5 and leaves the rejection to its caller "
             "(has_next_element / has_next_key / end_seq / the } test of an enum / end()); the proof follows it through every "
             "container with the weakened per-target invariant Agree1w (ok only with the unread input at . e E; "
             "Proofs/TypedAgree128.lean int128_float_weak) under the proviso floatsPointed ext v — the printer writes such a float "
             "with a fraction or an exponent (true of ryu, part of RyuShortest: c16_text_agrees_fr has no such hypothesis; "
             "needed: a printer writing 1e20 as 100000000000000000000 makes from_str::<i128> accept what from_value::<i128> "
             "refuses, kernel-checked example). Zero-length tuple variants: established on the crate (c16 d E2;5a;t0;55;u o1;s5a;a0; "
             "=> ERR|ERR|OK:V0;Q0; in every configuration: VariantDeserializer::tuple_variant answers an empty array with "
             "visit_unit, the text deserializer reads []) and stated for both models as a kernel-checked example — the three paths "
             "disagree, which is exactly the case the STATEMENT names as outside the claim ('zero-length tuple variants ... accepted "
             "from text only'), so it is no finding and the oracle keeps skipping it; zero-length tuples / tuple structs (T0;) are "
             "inside claim and theorem (all three accept [] only). arbitrary_precision (c16_text_agrees_ap_partial, Props/C16Ap.lean): "
             "a Value then holds number LITERALS in any RFC 8259 spelling, to_string prints them verbatim, from_value converts them "
             "with str::parse (Number::deserialize_iN = self.n.parse::<iN>(), deserialize_f64 = self.n.parse::<f64>(): "
             "rustParseInt / rustParseF64, std assumed correctly rounded and saturating) and the text path runs the JSON number "
             "scanner on the same bytes (it does not consult the feature outside Value targets: c20_typed_same). Proved for every "
             "schema of the same fragment (Value targets included) and every value of an arbitrary_precision build, outside THREE "
             "exclusions that correspond one to one to the three open findings, each tested schema-directed (Schema.allPos, "
             "Spec/SchemaAp.lean: wherever a leaf target meets a value on the way the deserializers visit the pair) and each shown "
             "necessary by a kernel-checked instance of both models: (a) apNegZero - a signed 8-64-bit integer target meets the "
             "literal -0 (C16-ap-negative-zero: \"-0\".parse::<i8>() = Ok(0), the scanner yields the float -0.0; unsigned, 128-bit and "
             "f64 targets on -0 are inside the theorem); (b) apNonFinite - an f64 target meets a literal whose nearest binary64 is "
             "not finite (C16-ap-non-finite-f64: parse saturates to inf, the scanner answers number out of range); (c) apAnyMoved - "
             "a Value target meets a value with a literal that Number::deserialize_any re-renders (-0 through as_i64, and a literal "
             "equal to f64::to_string of its value but not to ryu's spelling through the as_f64 shortcut: C16-ap-negative-zero second "
             "half, C16-ap-display-form; what ryu / Display print is the Ext parameter). One hypothesis, not an exclusion: apAccurate - "
             "wherever an f64 target meets a literal of finite range the JSON number conversion of the build returns the binary64 "
             "nearest to the exact value (the statement's 'float_roundtrip or short float literals'); discharged under "
             "float_roundtrip from C07 for literals shorter than 2^29 - 20 bytes whose exponent digits pass de.rs's i32 guard "
             "(c16_ap_accurate_fr, c16_text_agrees_ap_fr); in the default build it stays a hypothesis (true of short literals by "
             "C08's c08_exact_short, not assembled; 1,723 of 31,342 quick ap cases with an f64 target on a literal violate it and "
             "are compared on success / failure only). A literal with a fraction or an exponent under a 128-bit integer target is "
             "refused by the caller of scan_integer128 as without the feature (Agree1w). The executable statement of op c16 in the "
             "ap configuration applies exactly these exclusions (c16_ap_oracle_domain: Model.FromValue.c16ApExcluded = the three "
             "tests) and reports a failure inside the theorem's domain under a message no known finding matches: 421,842 of 425,930 "
             "quick ap c16 pairs are inside (3,513 statement-excluded, 575 in the findings, 477 of which disagree), 0 failures. The "
             "Observation outside the claim (f32 targets are excluded by the statement): under float_roundtrip "
             "from_value::<f32>(1.0000000596046448) = 0x3f800000 (f64 -> f32 cast, ties to even) while "
             "from_str::<f32>(\"1.0000000596046448\") = 0x3f800001 (parsed straight to f32) — c16 d g d3ff0000010000000 in the fr "
             "build; in the default build the three agree",
             "the wire codecs of Schema / TVal have no round-trip lemma (decode (enc x) = x); they are exercised on every case line"],
    technique="Lean 4 theorem by mutual structural induction over a nested typed universe: the two transcriptions of src/value/de.rs (owned "
              "Deserializer for Value, borrowed Deserializer for &Value, each with its seq/map/enum/variant access types, sharing Number's "
              "impl and MapKeyDeserializer as the crate does) are equal on every schema and value; structural corollaries; differential run "
              "of both transcriptions and of the three-way executable statement against the crate through a universal DeserializeSeed",
    level_text="Machine-checked Lean 4 theorems: c16_owned_borrowed — for every configuration, every schema of the typed universe (bool, 12 "
               "integer widths, f64/f32, char, string, byte buffer, option, unit, unit struct, newtype, seq, fixed tuple, map with "
               "string/integer/bool/char/unit-enum keys, struct with or without deny_unknown_fields given as object or array, externally "
               "tagged enum with unit/newtype/tuple/struct variants, IgnoredAny, Value) and every Value, the transcription of from_value "
               "and the transcription of Deserialize-from-&Value return the same outcome; plus c16_ignored_total, c16_any_identity, "
               "c16_tuple_exact_length, c16_struct_array_exact_length, c16_int_in_range, c16_enum_single_key, c16_option, "
               "c16_result_comparator_exact (the comparator of the executable statement is equality), c16_routing_tied (source routing "
               "= transcribed routing, regenerated each run). Both "
               "transcriptions are run against the real crate on every generated (schema, value) pair (0 disagreements in four feature "
               "configurations) and the three-way statement (owned, borrowed, from_str of to_string) is evaluated on the crate's own "
               "outcomes with exactly the statement's exclusions. Text side: Model.Typed transcribes every deserialize_* entry point "
               "of impl Deserializer for &mut Deserializer<R> (whitespace, literals, integer / 128-bit / float scanners, strings and raw "
               "WTF-8 strings, option, seq / tuple with end_seq, maps with MapKey for every key kind, structs, enums, ignored, any, "
               "recursion budget, error positions for slice and reader); typed_no_panic / typed_fuel_suffices / typed_fuel_irrelevant "
               "(the model is total and its fuel is sufficient: the result is never `fuel` once fuel > schema size), typed_progress, and "
               "c16_text_agrees_partial (text leg = from_value on every schema without f32 targets, f64 targets and float values "
               "included under the float hypothesis FloatsRoundTrip — c16_text_agrees_fr: from RyuShortest under float_roundtrip —, "
               "floats under 128-bit integer targets included (refused by the caller of scan_integer128), the exclusion 'struct "
               "variant written as an array' schema-directed: strings, "
               "maps with every key kind, structs, enums, IgnoredAny and nested Value included), and under arbitrary_precision "
               "c16_text_agrees_ap_partial / c16_text_agrees_ap_fr (values holding number literals in any spelling, from_value by "
               "str::parse against the JSON scanner: agreement outside three exclusions = the three open findings, each necessary "
               "by a kernel-checked instance; float hypothesis discharged from C07 under float_roundtrip) with c16_ap_oracle_domain "
               "(the ap oracle applies exactly those exclusions). The typed model is compared with the "
               "crate on every C16 pair's text and on ~200k (schema, text) cases per configuration incl. mutated texts, with message, "
               "category, line and column (0 disagreements).",
    level_note="Trusted: Lean kernel + propext/Classical.choice/Quot.sound; harness/driver comparison; the universal seed and serde's visitors "
               "as transcribed; std parse/cast and ryu/Display as parameters; the hand-written typed text model (validated by "
               "correspondence); str::parse::<f64> assumed correctly rounded (std's contract). Partial: under arbitrary_precision the "
               "text leg is proved outside the three open findings (literal -0 into i8..i64 and into Value, non-finite literals "
               "into f64, Display-form literals into Value), where the claim is false; the f64 comparison assumes a correctly "
               "rounded JSON conversion (proved under float_roundtrip, a hypothesis in the default build).",
)

PROPS["C15"] = dict(
    lean_targets=["SJ.Props.C15", "SJ.Audit.C15"],
    configs=dict(quick=["d", "ap"], thorough=["d", "fr", "po", "ap"]),
    gen_keys=["tovalue."],
    rule="serializer programs replayed against serde_json::to_value (tov) and the triple to_value / to_string / "
         "from_str(to_string(f32-widened data)) (tovagree): a fixed corpus (every serde::Serializer entry point; every integer "
         "width at 0, +-1, MIN/MAX and around i64::MIN, i64::MAX, u64::MAX, 2^64, i128/u128 extremes, alone, in sequences and as "
         "map values and keys; 33 f32 and 34 f64 specials incl. subnormals, extremes, -0, 1e22/1e23, NaN/inf as values and keys; "
         "every key kind valid (str, char, enum, collect_str, bool, every integer width, finite f32/f64, newtype chains), Option "
         "keys (Some of each kind, nested, behind newtype structs) and invalid (compound, unit, None, bytes, variants with "
         "payload, non-finite floats, Some around invalid keys), each in three contexts; duplicate and colliding keys across key "
         "kinds, insertion vs sorted order; failure-order cases mixing two key error classes and 128-bit overflow; nested "
         "variants), then random programs: 4/6 from the C03 generator gen_prog (all constructors, depth 0-4, hints None/exact, "
         "adversarial strings, float specials), 1/6 maps with colliding/repeated keys over several key kinds, 1/6 numeric programs "
         "(boundary integers, f32/f64 of every class in seq/struct/map/variant/option positions). Of the random programs with an "
         "Option key only 1 in 16 (thorough: 1 in 40) is run as generated (known finding C15-some-key; the driver prints at most 200 failures), the "
         "others with the Some wrappers removed from keys. A case is non-trivial when the program builds an object (map, struct, "
         "variant with payload), has bytes, a float or a 128-bit integer; distinct = distinct case lines.",
    trusted_base=[KERNEL, TIE,
                  "itoa and ryu are parameters (structure Ext) with the recorded assumptions ExtOK (itoa prints plain decimal digits, ryu "
                  "prints finite floats as RFC 8259 numbers); the ryu text of every generated float (and of every widened f32) is "
                  "shipped with the case and checked to be a number",
                  "the text-side facts come from C03 (c03_compact, c03_error_iff) and its trusted base; Map<String, Value> = BTreeMap / "
                  "IndexMap by documented insert semantics (Model.Machine.btInsert / ixInsert, proved equal to the declarative map "
                  "specification in SJ/Proofs/MkObj.lean); the parser's number classification is Model.Num (validated by the C01/C02 "
                  "correspondence) with the integer lemmas of SJ/Proofs/NumInt.lean",
                  "`f32 as f64` is modelled on bit patterns (Model.ToValue.f32to64) and validated against the crate on every generated f32; "
                  "serde's default SerializeMap::serialize_entry, u64/i64::try_from, String::push, to_string: by documented semantics"],
    assumptions=["ExtOK: ext.itoa n = Spec.Number.decimal n; finite floats print as numbers",
                 "programs are within the Rust types (inScope: every integer fits its entry point's type) and do not use the private "
                 "struct names $serde_json::private::Number / RawValue (SerializeMap::Number / RawValue, NumberValueEmitter, "
                 "RawValueEmitter are out of scope; `numberLit` is excluded)",
                 "float comparison (floatsRT): every finite f64 serialised as a value is read back from its printed text as the same "
                 "double — C07 + ryu correctness under float_roundtrip, short literals (<= 15 digits, |exp| <= 22) by default (C08), "
                 "vacuous under arbitrary_precision; the correspondence compares exactly under fr/ap/short and with floats erased otherwise",
                 "c15_agree: the printed value nests at most 127 deep (SVal.nest p <= 127) unless the recursion limit is off; for byte "
                 "sources the Rust string invariant SVal.utf8OK p (every &str handed over is UTF-8, every char a scalar value)"],
    partial=[],
    technique="Lean 4 theorems over all serializer programs: the transcription of value::Serializer / SerializeVec / SerializeMap / "
              "SerializeTupleVariant / SerializeStructVariant / value::ser::MapKeySerializer / Number::from_* is related by one mutual "
              "induction to the data-model image that the text serializer is proved (C03) to print; the dispatch tables of both "
              "MapKeySerializers, the bool key literals and the 128-bit branch shape are regenerated from src/value/ser.rs and "
              "src/ser.rs each run; differential run of to_value against the model, and of the property's own statement "
              "(to_value vs to_string vs from_str) on the crate",
    level_text="Machine-checked Lean 4 theorems for every serializer program within the Rust types and every configuration "
               "(preserve_order, float_roundtrip, arbitrary_precision): to_value succeeds exactly when to_string does, except for "
               "128-bit integers outside [i64::MIN, u64::MAX] without arbitrary_precision, which fail with NumberOutOfRange "
               "(c15_success_iff, c15_128_error); both fail with the same error class (c15_error_iff); on success the result is the "
               "Value denoted — under the parser's own classification rules — by the same data-model image that to_string is proved "
               "to print, with f32 widened (c15_value_is_image, c15_valueOfImage_is_canon), and it is exactly the Value obtained by parsing "
               "to_string of the f32-widened data, from every input source (c15_agree: parser completeness is the theorem parserComplete, "
               "from C01 c01_complete_value and C02 c02_canonM_eq_canon; the printed tree's side conditions are derived from the "
               "program: depth = SVal.nest <= 127, no \\u escape but \\u00XX, strings UTF-8 from SVal.utf8OK, numbers in range because "
               "the value exists). The two key serializers agree on every key program, Some(_) keys included (c15_keys; the former "
               "deviation C15-some-key is fixed in /repo). The key-serializer dispatch tables are regenerated from the source each "
               "run and tied to the models (c15_key_dispatch); the model is compared with serde_json::to_value on generated "
               "programs and the property's statement is evaluated on the crate's own outputs.",
    level_note="Trusted: Lean kernel + propext/Classical.choice/Quot.sound; extract.py; harness/driver comparison; itoa/ryu as assumed "
               "parameters; C03's model of the text serializer; BTreeMap/IndexMap insert semantics; Model.Num as the parser's number "
               "semantics. f64 equality under the stated float proviso (floatsRT); agreement with the parsed Value for programs whose "
               "printed value nests at most 127 deep (sharp: progDeep in SJ/Props/C15.lean).",
)

PROPS["C04"] = dict(
    lean_targets=["SJ.Props.C04", "SJ.Props.C04Ap", "SJ.Props.C04Rv", "SJ.Audit.C04"],
    configs=dict(quick=["d", "fr", "ap"], thorough=["d", "fr", "po", "ap", "rv"]),
    gen_keys=["ser.", "de.", "error."],
    rule="rtv: Values — a fixed corpus (boundary integers 0, +-1, +-2^53(+-1), i64::MIN/MAX, u64::MAX, powers of ten; every control "
         "character, quote, backslash, U+2028, U+FFFF, astral characters as string, as key and inside a string; strings that look "
         "like escapes; an object with all adversarial keys; empty containers; 1/2/50/100/126/127-deep arrays, objects and mixes "
         "around five leaves; floats admitted by the configuration), 4000 (thorough 30000) random values of depth 0-4 (a third "
         "without floats) and 200 (1500) random values wrapped 90-124 deep; floats: any finite f64 under float_roundtrip and "
         "arbitrary_precision, otherwise only k*10^e with k < 10^15, |e| <= 22 whose printed text has at most 15 significant digits "
         "and decimal exponent within +-22; each through to_string/from_str, to_vec/from_slice, to_writer/from_reader(chunked) x "
         "{compact, pretty}; the value read back must have the same wire encoding (integers exact, floats bit for bit, object "
         "iteration order). rtt: typed data — a zoo of derive(Serialize, Deserialize) types (harness/src/c04t.rs: all integer widths "
         "to 128 bits at their bounds, f32, char, String, Option incl. nested/unit, unit/newtype/tuple/named structs incl. empty ones, "
         "Vec, tuples, arrays, BTreeMap/HashMap with string/integer/bool/char/newtype/unit-variant keys, enums with all four variant "
         "kinds incl. empty tuple/struct variants and escaped names, ByteBuf, recursive types, std types), 40 (thorough 1500) random "
         "instances per type from the harness PRNG through the same six combinations, compared after the Some(null-like) -> None "
         "normalisation. rtm: typed data over the schema universe of C16 (harness/src/c04m.rs) — 6000 (thorough 120000) random "
         "(schema, typed value) pairs per configuration (gen_schema depth 0-3 with IgnoredAny replaced by (), values inhabiting the "
         "type: integer bounds of every width, adversarial strings / chars / bytes, maps with distinct keys of every key kind, every "
         "variant shape incl. zero-length tuple variants, Value members, f64 from the float family of the configuration, finite f32), "
         "serialised by a dynamic Serialize that makes the calls of serde's / derive's impls, compact and pretty, read back with the "
         "universal seed; the case line carries schema, value and the float texts, the driver computes the model's text and decoded "
         "value. A case is non-trivial when the value is a number, a non-empty string or a container (rtt: always; rtm: the schema "
         "is not bool / unit); distinct = distinct case lines.",
    trusted_base=[KERNEL, TIE,
                  "hand-written models Model.Ser (serializer, tied by C03's correspondence) and Model.Machine/Model.Num (parser, tied by "
                  "C01/C02's correspondence; under arbitrary_precision the driver parses with Model.MachineAp, the machine + the private "
                  "Number token reading, under raw_value with Model.MachineRv, + the private RawValue token reading); here their composition is run against the crate's own round trip on every generated Value",
                  "itoa prints plain decimal digits; ryu prints finite floats as RFC 8259 numbers (ExtOK)"],
    assumptions=["itoa::Buffer::format prints the plain decimal digits of the integer (Ext.itoa = Spec.Number.decimal)",
                 "ryu::Buffer::format_finite prints an RFC 8259 number; that the configured parser maps this text back to the same double is "
                 "the explicit hypothesis FloatsRoundTrip of the theorems (C07's corollary under float_roundtrip, C08's exact case for short "
                 "literals) and is evaluated by the driver on the text the crate printed for every generated float",
                 "io::Write / io::Read deliver bytes in order (Vec writer, chunked reader)",
                 "typed clause: the Serialize impls are serde's (leaves, Option, Vec, tuples, maps) and serde_derive's (structs, enums) — "
                 "code outside /repo; Model.TypedSer.progOf transcribes the calls they make (serialize_struct / serialize_field / "
                 "serialize_*_variant / collect_seq / collect_map ...), and the harness op rtm (harness/src/c04m.rs: Dyn) makes exactly "
                 "these calls against the real serializer for generated (schema, value) pairs"],
    partial=["arbitrary_precision: c04_value_ap / c04_reparse_ap are theorems about Model.Machine; for the faithful model "
             "Model.MachineAp (the machine + the private Number token reading; op rtv runs it: 0 disagreements) the theorem is "
             "c04_ap_value (Props/C04Ap.lean): every well-formed Value in which no object has $serde_json::private::Number as its "
             "first key in iteration order (Spec.PrivateToken.valueTokenFree) round-trips, compact and pretty, every source. The "
             "excluded Values do not round-trip on the crate - open finding C04-ap-private-number-token - and not on the model "
             "either: c04_ap_token_not_identity ({token:\"1\"} comes back as the number 1, {token:\"x\"} is rejected). "
             "raw_value: for the faithful model Model.MachineRv (op rtv runs it when the configuration has rv: 0 disagreements) the "
             "theorem is c04_rv_value (Props/C04Rv.lean): every well-formed Value in which no object has $serde_json::private::RawValue "
             "as its first key in iteration order (Spec.PrivateTokenRv.valueRawTokenFree; with arbitrary_precision also valueTokenFree) "
             "and whose floats round-trip (the hypothesis of c04_value) round-trips, compact and pretty, every source, every feature "
             "combination (c04_rv_reads_back: on the written text MachineRv IS the machine). The excluded Values do not round-trip on "
             "the crate - open finding C04-rv-private-rawvalue-token - nor on the model: c04_rv_token_not_identity ({token:\"[1]\"} "
             "comes back as the array [1], {token:\"x\"} is rejected with the nested error, {token:\"null\"} comes back as null)",
             "typed clause: c04_typed_partial (compact) and c04_typed_pretty_partial (pretty, every whitespace indent) — for EVERY "
             "schema of the serialisable universe (bool, twelve integer widths incl. every 128-bit value, f64, f32, char, String, byte "
             "buffers, unit / unit struct, Option, newtype, Vec, tuples of any length, maps with every key kind, structs, enums with "
             "unit / newtype / tuple (zero-length included) / struct variants, Value members) and every well-formed typed value (wfTVx: "
             "inhabits the type, floats finite, strings valid UTF-8, chars scalar, field / variant / key names distinct valid UTF-8, a "
             "Value member is a value of the build (shapeOK), no Some(x) with x serialising as null) whose text nests <= 127 deep, whose "
             "f64 members and floats inside Value members the printer / parser pair returns (the named hypothesis FloatsRoundTrip on the "
             "written document valueOfL) and whose f32 members deserialize_f32 returns (F32sRoundTrip: per member, RyuShortest under "
             "float_roundtrip, the named F32RoundTrip otherwise): serCompact / serPretty of the serializer program "
             "Model.TypedSer.progOf s v (the calls serde's / serde_derive's Serialize impls make) succeeds and deTypedTop s of that text "
             "returns v, from every source. Under float_roundtrip both float hypotheses are discharged from RyuShortest alone "
             "(c04_typed_fr: both formatters, all finite f64 / f32 members; c04_typed_f32_leaf is an instance); without floats they are "
             "vacuous (c04_typed_nofloat). Proved DIRECTLY on the written text (Proofs/TypedRT*.lean: Reads, the success direction of "
             "the typed deserializer on the text of each member threaded through the container loops of de.rs for a layout whose "
             "separators are whitespace; reads_gen), composed with C03 (text = render / layout of the program's image) and "
             "image_progOfL (that image is the image of the document valueOfL, an f32 member being the number literal ryu prints); the "
             "leaves reuse the former composition (agree_gen_L + fromValue_valueOf), which was closed to f32 members, Value members "
             "and zero-length tuple variants. arbitrary_precision: c04_typed_ap_partial — schemas WITHOUT Value members, both "
             "formatters, by c20's rel_top (the typed entry points other than Value do not consult the feature). Missing: typed data "
             "WITH Value members under arbitrary_precision (a Value member then holds number literals, read back verbatim by the "
             "machine — c04_value_ap for a bare Value; the typed leaf lemmas around it are proved with the feature off); IgnoredAny "
             "has no Serialize impl. The correspondence op rtm (both formatters, floats, f32, Value members, int keys, zero-length "
             "tuple variants: model text and model decoded value computed, 0 disagreements; the driver now checks the generator "
             "against wfTVx) and rtt (zoo of real derived types, model = echo) cover all configurations",
             "floats: c04_value takes the hypothesis FloatsRoundTrip cfg ext v (for every Float in v, parsing the text ryu prints gives that "
             "Float back); under float_roundtrip it is now discharged: c04_value_fr needs only the named hypothesis RyuShortest about "
             "the external printer (C07: c07_correct / c07_roundtrip); for the default build it remains a hypothesis (C08 covers short "
             "literals); c04_value_nofloat and c04_value_ap need no such hypothesis",
             "c04_reparse: serialise-then-parse of a parsed value gives it back under the same float hypothesis FloatsRoundTrip (none "
             "under arbitrary_precision: c04_reparse_ap); that parsed values are well-formed is now hypothesis-free (c04_wf_of_parse)"],
    technique="Lean 4 theorems obtained by composing the Value fragment of C03 (serializer output = one RFC 8259 value with syntax tree "
              "cstOf(image); re-proved layout-independently: the extracted formatter literals need only be their structural character plus "
              "JSON whitespace, so a harmless change of the pretty layout alarms C03 but not C04) with C01 "
              "completeness (derivable text meeting the side conditions is accepted with value canonM) and a structural induction showing "
              "canonM(cstOf(image v)) = v for every well-formed Value; differential run of the composed models against the crate's own "
              "round trips; typed data: Lean theorems c04_typed_partial / c04_typed_pretty_partial — C03 on the program progOf, image = image of the "
              "document valueOfL, and a direct induction over the schema on the written text (Reads: success direction of the typed "
              "deserializer through the container loops, for every whitespace layout; leaves from the text leg of C16 + "
              "from_value(to_value) = id, f32 leaf from C07), c04_typed_ap_partial by c20's typed-same theorem —, differential round trips of a zoo of derived types (rtt) and of generated "
              "(schema, value) pairs with computed model text and value (rtm)",
    level_text="Machine-checked: c04_value / c04_value_pretty (for every build, source, well-formed Value v and whitespace indent: the model "
               "serializer's output parses back to exactly v, given that the float printer/parser pair returns the floats of v), "
               "c04_value_nofloat and c04_value_ap (no float hypothesis), c04_value_all_floats (global float hypothesis), c04_value_fr (under "
               "float_roundtrip every well-formed Value, all finite floats included, round-trips given only RyuShortest), with each clause "
               "of the representation invariant shown necessary by a counterexample; c04_wf_of_parse (whatever the parser returns, from any "
               "source in any build, satisfies the representation invariant — for &str given that the input is valid UTF-8; the finiteness "
               "of parsed floats is the theorem c04_parsed_floats_finite, from C08's c08_finite_signed through the parser link for the "
               "default build and from roundNE64's range for float_roundtrip), hence c04_reparse / c04_reparse_ap (serialise-then-parse "
               "of any parsed value gives it back, across sources and formatters). The crate's to_string/to_vec/to_writer(+pretty) "
               "followed by from_str/from_slice/from_reader is run on generated Values and compared both with the original and with the "
               "Lean round trip. Typed clause: c04_typed_partial / c04_typed_pretty_partial (machine-checked, both formatters, every "
               "source, the whole serialisable universe incl. f32 / Value members and zero-length tuple variants, under the float "
               "hypotheses FloatsRoundTrip / F32sRoundTrip; c04_typed_fr / c04_typed_pretty_fr under float_roundtrip "
               "from RyuShortest alone; c04_typed_ap_partial under arbitrary_precision for schemas without Value members); typed data (derived types covering the serde data model) is round-tripped through the crate (rtt), and "
               "generated (schema, value) pairs are serialised and read back by the crate and by the models, compared byte for byte "
               "and value for value (rtm).",
    level_note="Trusted: Lean kernel + 3 standard axioms; extract.py; harness/driver; the serializer and parser models (tied by C03 and "
               "C01/C02 correspondence); itoa/ryu as parameters; serde's and serde_derive's Serialize impls as transcribed by progOf. "
               "Partial: typed clause proved for both formatters over the whole serialisable universe without arbitrary_precision, and "
               "under it for schemas without Value members; typed data with Value members under arbitrary_precision by correspondence; float step is a named hypothesis in the default build (C08), discharged under "
               "float_roundtrip (C07 + RyuShortest).",
)

PROPS["C07"] = dict(
    lean_targets=["SJ.Props.C07", "SJ.Audit.C07"],
    configs=dict(quick=["fr"], thorough=["fr", "frap", "d"]),
    gen_keys=["lexical.", "Lexical", "LexMath"],
    rule="number literals of the property's quantifier, each into f64 (from_str, from_slice, a two-element array through a chunked "
         "reader, Value::as_f64) and into f32 (str, slice, reader): f64 values sampled across every binary exponent (shortest {:e}, "
         "shortest {}, 17 significant digits; thorough also 15 and 20), every power of two and its neighbours, every power of ten "
         "10^-345..10^310 in several spellings and its neighbours, exact decimal expansions (big-integer arithmetic in the harness) of "
         "midpoints between adjacent doubles and between adjacent f32 values (up to ~770 digits; both ends of the range always), each "
         "also perturbed by +-1 in the last digit, extended by zeros and by zeros followed by a final 1 (beyond the 768-digit limit), cut "
         "at 767/768/769 digits, in five spellings (scientific, positional, integer E, 0.ddd e, split); subnormal/overflow boundaries and "
         "a fixed list of special spellings (exponents beyond i32, leading zeros of the exponent, u64-overflow frontiers of the integer "
         "and fraction digit loops); random 1-40 digit mantissas with exponents in +-400; spellings that steer into lexical's fast, "
         "moderate (extended-precision) and big-integer paths; print -> parse of f64/f32 sampled across every exponent (f64pr/f32pr). "
         "Thorough: all 2^32 f32 bit patterns print -> parse inside the harness (f32all), also in the default build. "
         "Limb level (op lm, the crate's own src/lexical compiled into the harness): every function of lexical/math.rs - "
         "scalar add/sub/mul on all pairs of 15 edge limbs and random limbs; small iadd_impl/isub_impl at every start index of "
         "0-7-limb vectors of eight kinds (random, all ones, all ones below a random top, zeros below the top, low half zero, "
         "high half ones, edge limbs, zero top), carries rippling over 20/40 limbs; imul/mul/normalize/leading_zeros/bit_length/"
         "nonzero on random vectors of 0-19 limbs; ishl_bits by every count 0-63, ishl by multiples of 64 +-1 and random counts "
         "to 1400, ishl_limbs; hi64 (and u64_to_hi64_1/2) of 1-5 limbs with 0/1/31/32/63 leading zeros, with and without sticky "
         "bits in the second and in lower limbs, unnormalised inputs; compare/less/greater_equal on equal, one-limb-different and "
         "random normalised pairs and on unnormalised ones; large iadd_impl (every start, past the end), add, isub (ordered and "
         "unordered); long_mul, large::imul, karatsuba_mul / karatsuba_uneven_mul / karatsuba_mul_fwd on 64 length pairs around "
         "KARATSUBA_CUTOFF and 2*CUTOFF (x.len in {1, 2, y/2-1, y/2, y/2+1, y-1, y, y+1}; thorough: up to 160 limbs) x five "
         "content kinds, low-half-zero and empty operands, the kernel-checked panic witnesses; imul_pow5/imul_pow10 on both "
         "routes and at the frontier of the route choice; the trait Math over the unmodified sources; bhcomp.rs on limb vectors "
         "(parse_mantissa, large_atof, small_atof, bhcomp on exact midpoints, perturbed, extended beyond MAX_DIGITS, cut, in three "
         "integer/fraction splits). Non-trivial = literal longer than one byte (every lm case); distinct = distinct lines.",
    trusted_base=[
        "Lean 4.33 kernel; axioms propext, Classical.choice, Quot.sound only (checked by #print axioms on every listed theorem)",
        "tools/extract.py gen_lexical (regex translator: cached powers, small/large power tables, per-type float constants, and the "
        "shapes of the error/rounding expressions) and the Rust harness + sjdriver correspondence run (differential testing, bit for bit)",
        "hand-written transcription of src/lexical/* and of the float_roundtrip integration of de.rs (Model.Lexical), tied to the crate "
        "by the correspondence run; the limb-level big-integer arithmetic of lexical/math.rs is no longer abstracted: Model.LexMath "
        "transcribes it (64-bit limbs; every function's shape is re-checked by extract.py gen_lexmath each run), the theorems "
        "c07_limbs_* prove that it refines the Nat-level model, and the crate's own math.rs / bhcomp.rs (compiled into the harness by "
        "harness/build.rs, once unmodified and once with visibility keywords opened) is run against it op by op",
        "the limb width: the model is for fast_arithmetic=\"64\" (every 64-bit target; checked against the compiled Limb::BITS by op "
        "`lm bits`); the 32-bit-limb configuration (hi64 for u32 limbs, large_powers32) is not modelled",
        "IEEE-754 conformance of the hardware multiply/divide/int-to-float cast used by lexical's fast path; rustc's conversion of the "
        "float literals 1.0..1e22; serde's f32/f64 visitors (`as` casts)",
    ],
    assumptions=["RyuShortest (hypothesis of c07_roundtrip and c04_value_fr, lean/SJ/Proofs/LexTopRoundtrip.lean): the text ryu prints for a "
                 "finite float is an RFC 8259 number of at most 24 bytes (ryu::Buffer; at most 17 significant digits for f64, 9 for "
                 "f32), written with a fraction or an exponent, exponent part at most 5 bytes, whose exact decimal value rounds to "
                 "nearest-even to the float printed; exercised by f64pr/f32pr on every exponent and, for f32, exhaustively by f32all "
                 "in the thorough tier",
                 "literals with 2^29-20 or more digits (beyond 2^31 the exponent arithmetic of exponent.rs saturates) are outside "
                 "c07_correct"],
    partial=[
        "the 'every finite f32 survives in every configuration' clause (default build: f64 conversion then `as f32`) is a finite "
        "enumeration in the harness (f32all, 2^32 patterns in fr, fr+ap and default builds), not a theorem",
        "c07_all_sources links the Value target of the byte machine (all three sources, nested values) to deFloatRoundtrip; the typed "
        "targets are linked by c07_typed_f32_link (Typed.deNumber = scan, then deFloatRoundtrip single_precision under float_roundtrip "
        "resp. convertDefault, then the visitor; Typed.f32Roundtrip = deFloatRoundtrip true + serde's f32 visitor) and "
        "c07_typed_nearest (IsNearestEven64/32 for deserialize_f64 / deserialize_f32) for inputs shorter than 2^29-20 bytes",
        "the 32-bit-limb configuration of lexical/math.rs is not modelled (c07_limbs_* are about 64-bit limbs, every 64-bit target)",
    ],
    technique="Lean 4: extracted lexical tables proved against exact powers by kernel evaluation; transcription of lexical and its de.rs "
              "integration run bit for bit against the crate; independent exact-rational round-to-nearest-even oracle evaluated on the "
              "crate's output for constructed hard cases (exact midpoints, 768-digit limit, path frontiers)",
    level_text="Machine-checked (Lean 4, no axioms beyond the three standard ones): c07_correct (for every well-formed literal of fewer "
               "than 2^29-20 digits and both targets, de.rs's digit collection + lexical + de.rs's infinity check and sign = "
               "Model.Num.convertRoundtrip / convertRoundtripSingle: integers classified, otherwise nearest-even of the exact value, "
               "sign kept incl. -0.0, underflow to +-0, NumberOutOfRange iff the rounding is infinite, exponent-overflow rule - no "
               "further hypothesis); c07_nearest_even (the same against the independent specification: IsNearestEven64/32 of "
               "Spec.Decimal's exact value, rejected exactly when Overflows64/32), c07_underflow, c07_other_literals (integers, "
               "exponent beyond i32), c07_all_sources (the byte machine under float_roundtrip, from_str/from_slice/from_reader, "
               "Value target, returns exactly that number or NumberOutOfRange), c07_roundtrip (under the named hypothesis "
               "RyuShortest every finite f64/f32 is read back bit for bit - for f32 including the visitor's `as f32` on the exactly "
               "widened result, F64.toF32 (F32.toF64 b) = b; c04_value_fr: hence every well-formed Value round-trips "
               "under float_roundtrip). Layers: c07_split (the leaf of de.rs's digit collection and its arguments denote exactly "
               "the literal's digits and decimal exponent); c07_cached_power_accuracy (10 small cached powers exact, 66 large ones "
               "truncated) and c07_power_tables; c07_fast_path_exact; c07_into_float_rne; c07_moderate_path_sound (mul = "
               "floor((a*b+2^63)/2^64), the booked error count strictly bounds the true error of the extended product - true "
               "only with the repaired error_scale() booking -, an accepted estimate rounds like the exact value, a rejected one "
               "leaves the exact value in the neighbourhood bhcomp assumes); c07_bhcomp_exact (Bigint as Nat; MAX_DIGITS "
               "truncation argument 2^54*5^1075 < 10^768; sticky digit only for a non-zero tail); c07_parse_exact. "
               "The Bigint abstraction is closed: "
               "c07_limbs_scalar/small/isub/compare/add/long_mul/karatsuba/hi64/pow (every function of lexical/math.rs on limb vectors "
               "refines +, -, *, <<, comparison, top-64-bits-with-sticky on the numbers denoted, keeps limbs limbs and normalised "
               "vectors normalised; Karatsuba = schoolbook = product wherever it returns; c07_karatsuba_panics: it does not always "
               "return - two kernel-checked witnesses replayed on the crate, in code unreachable from serde_json's API), "
               "c07_limbs_refine_nat (parse_mantissa / large_atof / small_atof / bhcomp on limb vectors = the Nat-level model that "
               "c07_bhcomp_exact is about), c07_limbs_total (no panic for -2048 < scaled_exponent < 1024) and their composition "
               "c07_bhcomp_limbs_exact (bhcomp.rs run on limb vectors returns the correctly rounded value). "
               "The transcription is run bit for bit against the crate, and the independent exact-rational oracle is evaluated on the "
               "crate's output, on 81k (quick) / 1.4M (thorough) constructed literals incl. exact midpoints up to 770 digits and "
               "all 2^32 f32 patterns print->parse.",
    level_note="Trusted: Lean kernel + 3 standard axioms; extract.py; harness/driver; Model.Lexical transcription validated bit for bit; "
               "math.rs limb arithmetic verified (c07_limbs_*: Model.LexMath refines the Nat-level model; 64-bit limbs only); the named hypothesis RyuShortest about the external printer (only for "
               "c07_roundtrip / c04_value_fr). The three findings of the pinned tree (C07-zero-tail, C07-f32-negint, "
               "C07-moderate-truncated) are fixed in /repo (1024dba, be03444, eca65d4); c07_moderate_path_sound and c07_correct are "
               "theorems about the repaired code (each is false of the pinned code on the finding's witness).",
)

# ---- line / column bookkeeping of the readers (Model.LineCol; docs/LINECOL-NOTES.md). Additive amendments of C11 and C09.
LINECOL_TB = ("line/column bookkeeping is now modelled and proved equal to the specification: LineColIterator's counters as read by "
              "IoRead::position / peek_position / byte_offset (with the peek slot) and SliceRead::position_of_index / position / "
              "peek_position (Model.LineCol) are proved equal to lineCol (c11_iter_linecol, c11_reader_linecol, c11_slice_linecol, "
              "c11_slice_positions, c09_positions_agree, c09_readers_in_step); what stays trusted there: memchr::memrchr / "
              "memchr_iter().count() by their documented contract (naive scans, c11_memchr_contract), usize arithmetic as Nat "
              "(counters bounded by the bytes read), and the correspondence run of ops lc3 / lcs")
PROPS["C11"]["trusted_base"] = PROPS["C11"]["trusted_base"] + [LINECOL_TB]
PROPS["C09"]["trusted_base"] = PROPS["C09"]["trusted_base"] + [LINECOL_TB]
PROPS["C09"]["lean_targets"] = PROPS["C09"]["lean_targets"][:-1] + ["SJ.Props.C09LineCol"] + PROPS["C09"]["lean_targets"][-1:]
LINECOL_RULE = (" Line/column bookkeeping (ops lc3, lcs; harness/src/linecol.rs): twelve schemas (Value, IgnoredAny, i32, (u8,u8), Vec<i32>, "
                "map with u8 keys, Option<String>, u128, a struct, an enum, Vec<Value>, map of IgnoredAny), 60 (thorough 600) well-typed token "
                "sequences each, rendered with newline-rich gaps between the tokens (\\n, \\r\\n, \\r, runs of newlines, blanks; multi-byte "
                "characters and escaped \\n inside strings), each: intact, three times with one byte that no JSON continuation allows "
                "planted in a gap (before / inside / after the newlines; the rest kept or cut), twice with a raw control character "
                "(newline, CR, tab, 0x01) planted inside a string, four single-byte mutations / truncations; a crafted list putting a "
                "newline (or \\r\\n, \\r, blank, nothing) where the reader has a byte peeked when a typed error is positioned (visitor "
                "errors after a number, 128-bit overflow, numeric map keys, enum closing brace, tuple / struct / Option sites); "
                "each text from str, slice and a randomly chunked reader. Streams: 300 (thorough 3000) concatenations of 1-4 values "
                "with such gaps, intact / two planted bytes / cut, next() + byte_offset() histories of Value and IgnoredAny items from "
                "the three sources. Non-trivial: an error in a text containing a newline or carriage return.")
PROPS["C11"]["rule"] += LINECOL_RULE
PROPS["C09"]["rule"] += LINECOL_RULE
PROPS["C11"]["assumptions"] = PROPS["C11"]["assumptions"] + [
    "memchr::memrchr returns the last index holding the needle (None if absent) and memchr_iter().count() the number of occurrences "
    "(modelled as naive scans); LineColIterator's usize counters do not overflow (they are bounded by the number of bytes read)"]
PROPS["C09"]["assumptions"] = PROPS["C09"]["assumptions"] + [
    "memchr's documented contract for memrchr / memchr_iter (position_of_index), usize counters as Nat"]
PROPS["C11"]["technique"] += ("; the crate's two position computations (LineColIterator, position_of_index) transcribed (Model.LineCol) and "
                              "proved equal to the line/column specification; correspondence on errors planted at chosen bytes")
PROPS["C09"]["technique"] += ("; 'same index' is turned into 'same line and column' by proving both position computations of the crate "
                              "(incremental counters vs. memchr recomputation) equal to one specification")
PROPS["C11"]["level_text"] += (" Line and column as the crate computes them (Model.LineCol, Proofs/LineCol.lean): c11_iter_linecol (after the "
                               "first k bytes LineColIterator's (line, col) = lineCol bs k, byte_offset() = k, start_of_line = k - col), "
                               "c11_reader_linecol (after any sequence of next / peek / discard calls on an IoRead: byte_offset() is the number "
                               "of consumed bytes, peek_position = position, position = lineCol at byte_offset() when the peek slot is empty "
                               "and at byte_offset() + 1 when it holds a byte - the iterator has already counted the peeked byte), "
                               "c11_linecol_succ (one more byte: next line column 0 after a newline, else one more column; columns count "
                               "bytes, \\r is a column), c11_slice_linecol (position_of_index(i) = lineCol bs i for i <= len, its start_of_line "
                               "is the iterator's; it panics beyond len), c11_slice_positions (position / peek_position of a SliceRead never "
                               "panic for index <= len; the min(len, index + 1) cap is needed exactly at index = len, where every Eof error "
                               "is raised), c11_memchr_contract. Ops lc3 / lcs run the crate on errors planted at chosen bytes after newline "
                               "patterns: model side through Model.LineCol per source, specification side lineCol at the first dead byte found "
                               "by Spec.Pos.")
PROPS["C09"]["level_text"] += (" Line and column (Props/C09LineCol.lean): c09_positions_agree (for one byte index k <= len, "
                               "SliceRead::position_of_index(k) and an IoRead that has handed out k bytes - peek slot full or empty - report "
                               "the same Position, lineCol bs k), c09_readers_in_step (the same next / peek / discard calls, discard only "
                               "while a peeked byte is pending, on IoRead and SliceRead: same bytes returned, same byte_offset(), equal "
                               "position() when nothing is pending, reader's position() = slice's peek_position() when a byte is), "
                               "c09_untyped_line_col (Value / ignored: same code, same index, same line and column from slice and reader), "
                               "c09_typed_line_col (typed targets: identical outcomes carry the same line and column; at the PeekCode / "
                               "visitor-error sites where the reader's index is the slice's i + 1 the reader reports (line, column + 1), or "
                               "(line + 1, 0) when byte i - the peeked one - is a newline: '256\\n' as u8 is 1:3 from a slice, 2:0 from a reader).")
PROPS["C11"]["level_note"] += " Line/column bookkeeping modelled and proved (Model.LineCol); memchr by contract."
PROPS["C09"]["level_note"] += " Line/column bookkeeping modelled and proved (Model.LineCol); memchr by contract."

# ---- RawValue, second part: struct fields, to_value / from_value, object captures completed, raw values under a failing
# ---- reader, failing nested captures across sources (harness/src/c19b.rs, lean/SJ/Drv/C19b.lean). Additive amendments of C19 / C09 / C13.
PROPS["C19"]["lean_targets"] = PROPS["C19"]["lean_targets"][:-1] + ["SJ.Props.C19Map"] + PROPS["C19"]["lean_targets"][-1:]
PROPS["C19"]["lean_targets"] = PROPS["C19"]["lean_targets"][:-1] + ["SJ.Props.C19Value"] + PROPS["C19"]["lean_targets"][-1:]
PROPS["C19"]["lean_targets"] = PROPS["C19"]["lean_targets"][:-1] + ["SJ.Props.C19Struct"] + PROPS["C19"]["lean_targets"][-1:]
PROPS["C09"]["lean_targets"] = PROPS["C09"]["lean_targets"][:-1] + ["SJ.Props.C09RawNested"] + PROPS["C09"]["lean_targets"][-1:]
PROPS["C13"]["lean_targets"] = PROPS["C13"]["lean_targets"][:-1] + ["SJ.Props.C13Raw"] + PROPS["C13"]["lean_targets"][-1:]
PROPS["C19"]["rule"] += (" Op rawfld (harness/src/c19b.rs): real serde_derive structs { a: Box<RawValue>, b: Option<Box<RawValue>>, c: Box<RawValue> } "
                         "(s1), the same two fields with deny_unknown_fields (s2) and { id: Option<u32>, payload: Box<RawValue>, tail: Box<RawValue> } (s3), each "
                         "with its borrowed twin (&RawValue fields, which must be subslices of the input), from str, slice and a chunked reader: a fixed "
                         "corpus (fields in any order, missing / duplicated / unknown / escaped names, null, array form, lone surrogates, invalid UTF-8), "
                         "every token sequence of length <= 2 (thorough 3) as the value of a raw field, of an Option field, of an unknown field and as a "
                         "key, 800 (thorough 8000) generated struct documents per shape with 2 mutations each and every prefix of an eighth of them; "
                         "compared with Model.RawStruct and with the members' spans computed by the independent scanner Spec.Pos. Op rawconv: on the "
                         "corpus, every token sequence of length <= 2 (thorough 3) and 800 (thorough 8000) generated documents with a mutation each: "
                         "to_value(&raw) of the captured RawValue against from_str::<Value> of the document, from_value::<Box<RawValue>>(v) (by value and "
                         "by reference) against to_string(&v), and to_value of that RawValue against v; compared with Model.RawConv.")
PROPS["C19"]["assumptions"] = [
    "RawValue's transmutes between str and RawValue (layout) are outside the model",
    "struct fields captured raw are modelled (Model.RawStruct: the typed model's deserialize_struct / MapAccess machinery and derive's visitor over "
    "field types raw / Option<raw> / typed) and run by op rawfld against three real serde_derive structs; to_value(&RawValue) and "
    "from_value::<Box<RawValue>>(v) are modelled (Model.RawConv) and run by op rawconv",
    "Display for Value cannot fail (c03_display), so ToString's panic in OwnedRawDeserializer { raw_value: Some(self.to_string()) } is unreachable"]
PROPS["C19"]["partial"] = [
    "struct fields: c19_field_capture / c19_field_text are proved for structs all of whose fields are Box<RawValue> / Option<Box<RawValue>> "
    "given in object form; a struct with further typed fields (shape s3 of op rawfld) and the array form (derive's visit_seq) are modelled "
    "(Model.RawStruct) and tied by correspondence only",
    "c19_nested_capture / c19_top_complete / c19_field_capture on byte sources take the UTF-8 validity of the captured texts as hypothesis "
    "(it is what from_utf8 checks); that it follows from the UTF-8 validity of the whole input is proved for the three-source statements "
    "(C09 c09_raw_sources, c09_raw_nested_str_slice)"]
PROPS["C19"]["trusted_base"] = PROPS["C19"]["trusted_base"] + [
    "typed struct machinery of Model.Typed repeated over field types in Model.RawStruct (op rawfld); Display adapter model Model.Display (C03) for from_value"]
PROPS["C19"]["technique"] += ("; object captures: the converse grammar direction by induction over Members, the comparison with the parsed Value through "
                              "determinism of the &str capture model; struct fields: derive's visit_map as a pure fold (assign / finishSlots) over the "
                              "member decomposition of the map theorems; to_value / from_value by composition of C01 / C02 / C03 / C04")
PROPS["C19"]["level_text"] += (" Second part. Object captures completed (Props/C19Map.lean): c19_nested_complete_map (EVERY object text JsonText bs (obj "
                               "members), duplicate keys included, is captured member by member when its keys are strings of the target), "
                               "c19_nested_canon_map (if the same bytes parse into a Value, the i-th capture parses on its own to a value x_i and the Value "
                               "is the map built by inserting (decoded key_i, x_i) in source order), c19_nested_canon_map_last (so a duplicated key holds "
                               "what the LAST capture with that key denotes). Struct fields (Props/C19Struct.lean over Model.RawStruct): c19_field_capture "
                               "(a struct of Box<RawValue> / Option<Box<RawValue>> fields, with or without deny_unknown_fields, succeeds iff the document is "
                               "ws { members } ws with every key a string of the target, every member value ONE grammar value first to last byte - captured, "
                               "UTF-8 on byte sources, when the key names a field; only skipped when it does not - and derive's visitor accepts the member "
                               "sequence: fields in any order, no field twice, no unknown field under deny, only Option fields missing), c19_field_text "
                               "(then each Box<RawValue> field holds exactly the value text of THE one member its name selects; an Option field None for a "
                               "missing member or the text null, Some of exactly the text otherwise). RawValue and Value (Props/C19Value.lean over "
                               "Model.RawConv): c19_to_value (to_value of the RawValue captured from a document succeeds with v iff from_str::<Value> of the "
                               "document gives v: to_value(raw) is the Value of its text, and fails exactly for a lone surrogate, a number out of range or "
                               "nesting beyond the limit), c19_to_value_of_parse, c19_to_value_canon (to_value(raw) = v iff the text is a JSON text whose "
                               "tree denotes v within depth / surrogate / range limits), c19_from_value (from_value::<Box<RawValue>>(v) cannot fail and holds "
                               "exactly to_string(&v) = render(image v): one grammar value without surrounding whitespace; to_value of it is v again under "
                               "C04's hypotheses).")
PROPS["C19"]["level_note"] += " Model.RawStruct and Model.RawConv validated by ops rawfld / rawconv (0 disagreements)."
PROPS["C09"]["rule"] += (" Failing nested raw captures: the rawnest inputs above (fixed corpus, token sequences, mutations, prefixes) are mostly "
                         "failing runs; their three outcomes are compared with Model.RawNested per source and with each other (judgePair).")
PROPS["C09"]["partial"] = [x for x in PROPS["C09"]["partial"] if not x.startswith("c09_raw_nested_sources / c09_raw_map_sources state")]
PROPS["C09"]["level_text"] += (" Nested raw captures on EVERY input (Props/C09RawNested.lean; deserialize_raw_value inside the two-run simulation of the "
                               "typed model, Proofs/RawSim.lean): c09_raw_nested_slice_reader / c09_raw_map_slice_reader / c09_raw_one_slice_reader "
                               "(Vec<Box<RawValue>>, map of Box<RawValue>, Box<RawValue>, clean end or failing reader: slice and reader outcomes identical "
                               "- same captures, same parser error code at the same index, InvalidUnicodeCodePoint of a non-UTF-8 capture included - except "
                               "that an error positioned with a byte in the reader's peek slot (the invalid type of an input that is not an array / "
                               "object) is one byte later from the reader, and then the slice's index is that of a byte of the input), "
                               "c09_raw_nested_class (same class, index equal or + 1: the predicate judgePair evaluates in op rawnest), "
                               "c09_raw_nested_str_slice (on valid UTF-8 input the &str source gives the IDENTICAL outcome as the slice, failing runs "
                               "included: the from_utf8 check of a captured text cannot fail there).")
PROPS["C13"]["partial"] = []
PROPS["C13"]["technique"] += ("; raw values: the fault-mode run of deserialize_raw_value inside the typed model's fault / clean simulation, plus an exact "
                              "analysis of the one read issued beyond a complete value (after a bare number, which is ASCII)")
PROPS["C13"]["level_text"] += (" Raw values (Props/C13Raw.lean): c13_raw_fault (from_reader::<Box<RawValue>> over a reader that fails after bs, model "
                               "rawFault: Io, or EXACTLY the clean run's error - same code and index - which is then Syntax-classified and positioned "
                               "within bs; never a value, never Eof-classified), c13_raw_fault_io (Io iff the clean run accepts or ends Eof-classified), "
                               "c13_raw_fault_steps (the same for the byte-by-byte transcription: deserialize_raw_value + end() of the typed model with "
                               "every read beyond bs answering Error::io, against its clean run, which is rawTop: c13_raw_clean_is_rawTop), "
                               "c13_raw_fault_agrees (that transcription returns exactly what rawFault returns, on every input: the from_utf8 check of "
                               "the raw buffer is never pre-empted by the fault, because ignore_value reads beyond a complete value only after a bare "
                               "number, which is ASCII).")

# properties not claimed yet (kept current as checks are added)
NOT_APPLICABLE = [
    dict(property_id=f"C{i:02d}", reason="check under construction in this build phase; not yet claimed (see DESIGN.md §11 build order)")
    for i in range(1, 21) if f"C{i:02d}" not in PROPS
]

# ---------------------------------------------------------------------------------------------------------------
# Honesty pass after two independent read-only audits of the theorem statements (audit-A: C01-C10, audit-B: C11-C20):
# gaps that were real but unlisted, and theorems that are true by construction of the model, are named here.
def _add(p, key, items):
    PROPS[p].setdefault(key, [])
    PROPS[p][key] = list(PROPS[p][key]) + list(items)

_add("C01", "partial", [
    "number-range clause, default build only: `numbersInRange` in c01_accepts_iff is `(Spec.Canon.numOf cfg p).isSome`, the model's "
    "conversion. Under float_roundtrip this is now a theorem about the specification: c01_range_fr (numbersInRange <=> "
    "Spec.Range.finiteRange: integer literal within [i64::MIN, u64::MAX] or exact decimal value with a finite nearest-even binary64 "
    "rounding) and c01_accepts_iff_fr (the accepted language with no notion of the model on the right-hand side; inputs shorter than "
    "2^29-20 bytes). In the DEFAULT build the equivalence is false in both directions and stays so: only the band is proved "
    "(c01_range_default_band: accepted => exact < 2^1024+2^972+2^965, exact < 2^1024-2^970-2^972 => accepted) with kernel-checked "
    "witnesses on both sides (c01_default_rejects_finite: 17976931348623156225e289 is below f64::MAX and rejected; "
    "c01_default_accepts_infinite: 179769313486231591e291 >= 2^1024 is accepted) - open finding C01-default-range-band. The driver "
    "judges the clause with Spec.Range (roundNE64 of the exact value; c01_range_oracle) independently of Model.Num",
    "fuel: numValue maps the conversion's outOfFuel to NumberOutOfRange; that outcome is excluded by c14_no_fuel / c08p_link, not by this theorem",
])
_add("C02", "partial", [
    "for float literals `canon` is the configured conversion itself (Spec.Canon.numOf = Model.Num.convert*): c02_value_is_canon says nothing "
    "about float accuracy (C07: nearest-even under float_roundtrip for EVERY literal, c07_typed_nearest_all / c07_nearest_even_all; C08: "
    "5 ulp in the default build). The driver no longer rests on that: every number of the value the crate returns is matched with its "
    "literal in the text and judged with Spec.Decimal / Spec.Ieee alone (exact integer; float within 5 ulp, resp. the nearest-even "
    "double under float_roundtrip) - verdict `C02 <src>: float value of literal ...`",
])
_add("C04", "partial", [
    "c04_value_ap / c04_reparse_ap and every c04_* theorem other than c04_ap_* / c04_rv_* are theorems about the machine model, which "
    "reads an object keyed by a private token as RFC 8259 does; the crate does not (open findings C04-ap-private-number-token, "
    "C04-rv-private-rawvalue-token): WFValue does not exclude such keys; c04_ap_value / c04_rv_value are the statements for the faithful models",
    "RyuShortest ext (hypothesis of c04_value_fr, c04_typed_fr, c07_roundtrip, ...) is a statement about the external printer ryu; no Lean "
    "witness ext satisfying it is constructed (the stand-in ext0 of the examples prints every float as 1.5 and does not); it is exercised "
    "on the real ryu by ops f64pr / f32pr (every exponent) and f32all (all 2^32 patterns)",
])
_add("C05", "partial", [
    "two clauses of the statement have no theorem: 'a borrowed &str is a subslice and exists exactly when there are no escapes' and 'as "
    "bytes: WTF-8 for unpaired surrogates, raw non-UTF-8 passes through' (typed String / &str / bytes targets; the raw-string automaton "
    "stepRaw of Model.Typed is tied by ops tt / c16x only); the decode theorems are for the Value target",
])
_add("C06", "partial", [
    "IntTy has ten widths (isize / usize are not separate: 64-bit target)",
])
# C07: both items of the honesty pass are closed (wip-range): c07_bhcomp_calls_in_range / c07_correct_limbs compose the limb-level
# closure with c07_correct; c07_int_literals_nearest / c07_typed_nearest_all / c07_nearest_even_all / c07_exponent_overflow_spec
# leave no excluded class of literals.
# C08: both items of the honesty pass are closed (wip-range): c08_f32_once_typed states the f32 clause on the typed path
# (c08_f32_once, true by construction, is kept as a lemma about Model.FloatDefault only); c08_underflow_zero_sharp covers the
# whole interval below 2^-1075.
_add("C09", "partial", [
    "c09_slice_reader (and with it the slice/reader half of c09_stream_offsets and c09_untyped_line_col) is close to true by construction: "
    "Model.Machine has ONE reader abstraction and consults env.src only in the UTF-8 check of endStr and in errIdx, where every error is "
    "`.incl`; SliceRead's and IoRead's separate string scanners (parse_str_bytes, ignore_str, decode_hex_escape) are merged in the model. "
    "What ties the two real readers together is the three-source correspondence run (which found the two position defects 28defde, "
    "9343bad), not this theorem. The typed theorems (c09_typed_slice_reader, over Model.Typed's explicit peek-slot positions) and the "
    "line/column theorems (two separately modelled readers) do have content",
    "'same message' for visitor (Data) errors: Model.Typed carries only the position of a visitor error, the wording is echoed from the crate",
    "PeekCode contains NumberOutOfRange for every target, so for an out-of-range FLOAT the typed theorem allows 'same or +1' although the "
    "repaired crate (9343bad) reports the same index; the untyped theorem pins it",
])
_add("C11", "partial", [
    "the tie from the machine's byte index to the readers' line/column bookkeeping (c11_reader_linecol, c11_slice_linecol) is by "
    "correspondence (ops lc3 / lcs): the machine itself does not run Model.LineCol",
    "c11_eof_viable (an Eof-classified error means: a proper prefix of an ACCEPTED input) carries the same two qualifications as "
    "c11_earliest: the state predicate SideOK for Value (necessary: c11_eof_sideOK_needed, '\"\\xff' from a slice is Eof and dead; "
    "at grammar level, c11_eof_viable_grammar / c11_eof_proper_prefix, nothing is assumed), and an input that ends inside the four "
    "bytes after \\u is Eof whatever those bytes are (the crate and C12's statement call this truncation): the viable prefix then "
    "ends right after \\u (k <= 3)",
    "c11_string_fault_bounds: the upper bound is against the independent lenient scan Spec.Pos.literalEnd; one forced exception - "
    "a quote (or a backslash before one) among the four bytes after \\u is taken as a digit by decode_four_hex_digits, so InvalidEscape "
    "at the group's fourth byte can lie past the lenient end of the literal (then the \\u itself lies within it: second alternative "
    "of the theorem, the oracle's hexEnd)",
])
_add("C12", "partial", [
    "typed items: c12_typed_values characterises an item by the item deserializer's own verdict in place (ItemOK: deTyped started on "
    "the item's first byte with the rest of the stream behind it returns the value and leaves exactly that rest) - there is no grammar "
    "of typed texts; the theorem adds the iterator's frame (whitespace, offsets, peek_end_of_value, no failure, the end). Wholesale "
    "instances come from the C16 / C04 text leg (Agree1; c12_typed_values_agree) and need NON-EMPTY whitespace between items; "
    "touching items ([1][2]) are covered by the general theorem only",
    "'Eof whenever the rest is a proper prefix of a value, Syntax otherwise' for Value / IgnoredAny items: Eof direction = C10's "
    "stream-prefix theorems (under side conditions), converse = c12_eof_proper_prefix / c12_syntax_otherwise (grammar level, no "
    "hypothesis on the state) with the \\u qualification the statement itself makes; typed items: Eof-classified errors sit at the end "
    "of the input (c12_typed_eof_at_end), no 'proper prefix of a typed text' theorem in the converse direction",
    "'an undelimited bare scalar yields an error' and 'byte_offset() of an error item is the first byte of that value' hold by the model's "
    "definition of next(); they are tied to the crate by correspondence only",
    "typed streams: Model.StreamTyped reads every item at depth 0 by construction; that this is what a stream with ONE deserializer "
    "(one remaining_depth counter living across the items) does is now a theorem - c12_typed_items_full_budget / "
    "c14_typed_stream_depth_restored over Model.StreamTypedDepth (Props/StreamTypedDepth.lean), as c14_stream_depth_restored is for "
    "Value / IgnoredAny items. What remains by construction: in Model.StreamTypedDepth the padding height `t` of a nested Value "
    "(how the model finds the end of the nested value) is still passed downward; every limit test reads the counter",
])
_add("C13", "partial", [
    "writer clause: 'the serializer performs the write_all calls of Model.Ser's buffer list in order and stops at the first failing one' "
    "is the definition of Model.Write.Writer.runBufs, not a transcription of ser.rs with the writer threaded through (as "
    "Model.Display.Adapter.writeBufs is for fmt::Write); it is tied to the source by the static scan c13_every_write_checked and by the "
    "correspondence op wfault (mutations: a swallowed map_err(Error::io)?, a closing quote written after a failed fragment, write "
    "instead of write_all - all VIOLATION with replay, docs/WRITER-NOTES.md). An endless Interrupted loop is outcome `hang` (fuel); "
    "flush / write_vectored / write_fmt are never called by to_writer* and are not modelled; collect_str is one write_str of a "
    "well-behaved Display (assumption)",
    "c13_read is near-definitional (runFault = feed with end-of-input replaced by Io); its content is the modelling claim that every state "
    "asks for another byte, tied by op rfault at every k",
])
_add("C16", "partial", [
    "depth: c16_text_agrees_* assume depth <= 127; beyond it from_value succeeds and the text path fails (open finding C16-text-depth-limit, "
    "generated by op c16x)",
    "both legs compare success / failure and the value; error messages are not compared",
    "c16_agree_partial restates c16_owned_borrowed",
    "arbitrary_precision: c16_text_agrees_ap_partial excludes exactly the three open ap findings (no theorem can cover them: the claim is "
    "false there, kernel-checked) and carries the float hypothesis apAccurate, discharged only under float_roundtrip (C07, literals "
    "below 2^29 - 20 bytes with the exponent digits inside de.rs's i32 guard); str::parse::<f64> is std's and ASSUMED correctly rounded "
    "(false for texts above ~655 KB: finding C20-as-f64-exponent-saturation); the ap configuration is part of the thorough tier only",
])

# ---- gaps of the honesty pass closed by theorems (branch wip-c11b): C11 converse of eof_at_end, grammar reading without SideOK,
#      string-fault upper bound; C14 typed UTF-8; C12 'Syntax otherwise' and typed values.
PROPS["C11"]["level_text"] += (
    " Eof-classified errors, conversely (Proofs/EofViable.lean): c11_eof_viable / c11_eof_viable_plain / c11_eof_viable_ignored - the input (minus the k <= 3 "
    "unchecked bytes of a \\u group it ends in) has a NON-EMPTY continuation that is accepted, under SideOK for Value and "
    "unconditionally for skipped content; c11_eof_viable_grammar / c11_eof_proper_prefix - for every target, unconditionally, it is a "
    "proper prefix of an RFC 8259 JSON text. The property's grammar reading without any state predicate (Proofs/EarliestSim.lean: "
    "the scanner of skipped content, which accepts exactly the grammar, consumes whatever any run consumes and fails where a run fails "
    "with a grammar code; Proofs/EarliestGrammar.lean): for every target, a grammar error code (sideCode c = false: not "
    "NumberOutOfRange, RecursionLimitExceeded, InvalidUnicodeCodePoint, LoneLeadingSurrogateInHexEscape, UnexpectedEndOfHexEscape) "
    "reported at byte count idx means that no continuation of the first idx bytes is a JSON text (c11_dead_grammar) and the first "
    "idx - 1 bytes do continue to one (c11_earliest_value_grammar; k = 4 inside a \\u group). Faults inside a string literal "
    "(c11_string_fault_bounds, Proofs/EarliestStrBound.lean): the codes ControlCharacterWhileParsingString, InvalidEscape, "
    "InvalidUnicodeCodePoint, LoneLeadingSurrogateInHexEscape, UnexpectedEndOfHexEscape are raised only from string states; the first "
    "idx bytes are dead, and idx is not past the end of the literal as the independent lenient scan Spec.Pos.literalEnd finds it from "
    "the literal's opening quote (InvalidUnicodeCodePoint exactly at the closing quote), for every source.")
PROPS["C11"]["technique"] += ("; step-by-step simulation of every run by the scanner of skipped content (grammar-level corollaries "
    "without state predicates); an invariant tying the machine's string sub-states to a lenient closing-quote scan")
PROPS["C14"]["lean_targets"] = PROPS["C14"]["lean_targets"][:-1] + ["SJ.Props.TypedUtf8"] + PROPS["C14"]["lean_targets"][-1:]
PROPS["C14"]["level_text"] += (
    " Typed targets, UTF-8 (Props/TypedUtf8.lean): c14_typed_utf8 - every str (String / &str targets, string keys, strings and keys of a "
    "nested Value) inside a value returned by Model.Typed.deTypedTop is valid UTF-8 and every char (char targets and keys) a Unicode "
    "scalar value (TVal.utf8OK), for every schema, configuration and fault mode: on byte sources unconditionally (a direct state "
    "invariant of the machine, Proofs/TypedUtf8Mach.lean: every value and key stored in a state is valid, preserved by every step from "
    "any start state incl. parse_str's and the padding frames; then by the structure of deTyped, Proofs/TypedUtf8.lean), on &str input "
    "given that it is valid UTF-8 (through c09_typed_str_slice). Variant / field names do not occur in a typed result (indices into "
    "static lists); bytes targets are deliberately unconstrained.")
PROPS["C12"]["level_text"] += (
    " 'Syntax otherwise' (Props/C12.lean over Proofs/StreamSyntax.lean): c12_eof_proper_prefix - a Value / IgnoredAny item that is an "
    "Eof-classified error: the rest of the input at that item (minus the k <= 3 bytes of a cut-off \\u group) is a proper prefix of a "
    "value at grammar level; c12_syntax_otherwise - if no non-empty continuation of the rest derives a value (and it does not end "
    "inside a \\u group) the item's error is Syntax-classified. Typed items (Props/StreamTyped.lean over "
    "Proofs/StreamTypedValues.lean): c12_typed_values / c12_typed_expected_at / c12_typed_expected_end - a stream w0 x1 w1 .. xn wn "
    "whose items are accepted in place (ItemOK) with whitespace between and the delimiter rule yields exactly v1 .. vn with "
    "byte_offset() just past each item, then None at the end of the input for every further call; c12_typed_values_agree - the same "
    "for item texts of the C16 / C04 text leg (Agree1) separated by non-empty whitespace.")
_add("C09", "partial", [
    "Value target under arbitrary_precision / raw_value: c09_slice_reader is a theorem about Model.Machine; for the faithful models "
    "(Model.MachineAp / Model.MachineRv, used by op pv in those configurations) it holds on every input without a private-token first key "
    "(c09_rv_slice_reader_tokenfree) and FAILS where the value behind a token is not a string: serde's invalid type is positioned by "
    "fix_position with the offending byte only peeked, so the reader's column is the slice's + 1 (c09_rv_token_not_string_reader_later, "
    "c09_ap_token_not_string_reader_later; witnesses c09_token_sources_differ; open finding C09-private-token-invalid-type-position, "
    "exercised by the thorough tier, which runs the private-token generators of C01 with the full outcome compared)",
])
# ---- the two real string scanners of read.rs (Model.ReadSlice / ReadIo / ReadEscape; docs/READERS-NOTES.md). Additive amendments of C09 and C05.
READERS_RULE = (" String scanners called directly (ops rd, rs; harness/src/readers.rs): serde_json::de::{StrRead, SliceRead, IoRead} are public and "
                "the #[doc(hidden)] methods of the sealed trait Read can be called: parse_str, parse_str_raw, ignore_str (and decode_hex_escape "
                "wherever a \\u has just been read) after `start` calls of next(), on the three readers side by side (IoRead over a randomly chunked "
                "io::Read), observing bytes, Reference::Borrowed vs Copied (does the returned pointer lie inside the input, at which offset), "
                "byte_offset() afterwards, or message, category, line, column and byte_offset(). Inputs: every escape family of c01::strings() as "
                "bare literals (all ordered pairs of \\uXXXX over the 16 surrogate-class boundary values, triples after a leading surrogate, every "
                "plane as a pair, 1500 (thorough 20000) random pairs), all 256 byte values at 12 position classes (raw, after a backslash, at each "
                "of the four hex positions, after a leading surrogate, after its backslash, inside the second group) closed and at the end of "
                "input, 11 literals with \\u groups cut at every length (with quotes / newlines / non-digits among the last bytes), bodies of every "
                "length 0..26 (thorough 40) after 0..8 spaces with each of 8 special bytes at every offset (8-byte SWAR chunk boundaries), runs of "
                "63..1000 (thorough 4097) bytes plain / with one escape / with a control byte / unclosed / all-\\u, 16 ill-formed and 6 well-formed "
                "UTF-8 sequences in 6 contexts, 4000 (thorough 60000) random mixtures; a subset also end to end through Deserializer::from_str / "
                "from_slice / from_reader into String, &str, ByteBuf, IgnoredAny (op rs). Non-trivial: the bytes after `start` are not all plain "
                "ASCII, or the call fails.")
PROPS["C09"]["rule"] += READERS_RULE
PROPS["C05"]["rule"] += READERS_RULE
PROPS["C09"]["lean_targets"] = PROPS["C09"]["lean_targets"][:-1] + ["SJ.Props.C09Readers"] + PROPS["C09"]["lean_targets"][-1:]
PROPS["C05"]["lean_targets"] = PROPS["C05"]["lean_targets"][:-1] + ["SJ.Props.C09Readers"] + PROPS["C05"]["lean_targets"][-1:]
PROPS["C09"]["gen_keys"] = PROPS["C09"]["gen_keys"] + ["readesc.", "ReadEsc", "hex.", "swar.", "Hex", "Swar"]
PROPS["C05"]["gen_keys"] = PROPS["C05"]["gen_keys"] + ["readesc.", "ReadEsc"]
PROPS["C09"]["lean_targets"] = PROPS["C09"]["lean_targets"][:-1] + ["SJ.Props.C09ReadersRaw"] + PROPS["C09"]["lean_targets"][-1:]
# the honesty-pass item about c09_slice_reader (one reader abstraction in Model.Machine) is answered for strings: replace it
PROPS["C09"]["partial"] = [x for x in PROPS["C09"]["partial"] if not x.startswith("c09_slice_reader (and with it")] + [
    "c09_slice_reader is a theorem about Model.Machine, which has ONE reader abstraction (env.src is consulted only in endStr's UTF-8 check and "
    "in errIdx). For STRING LITERALS - where the crate really has two scanners - this is no longer the whole story: SliceRead / StrRead and "
    "IoRead are modelled separately (Model.ReadSlice, Model.ReadIo; the generic parse_escape / parse_unicode_escape / ignore_escape once, "
    "Model.ReadEscape, as in the crate) and each is proved to refine the machine's string steps on every input (c09_machine_string_steps, "
    "c09_slice_str_refines, c09_strread_str_refines, c09_io_str_refines, c09_slice_ignore_refines, c09_io_ignore_refines; raw variant against "
    "Model.Typed.runRaw: c09_slice_raw_refines, c09_io_raw_refines), hence c09_str_readers_agree / c09_raw_readers_agree / "
    "c09_str_readers_positions / c09_strread_slice are theorems about two different pieces of code. OUTSIDE string literals (whitespace, "
    "numbers, idents, structure) de.rs is one generic body over next / peek / discard; there the difference between the sources is the "
    "position bookkeeping, modelled separately in Model.LineCol (c09_readers_in_step, c09_positions_agree); the machine's 'reader' for those "
    "parts remains one abstraction tied by the three-source correspondence run",
    "the refinement theorems are stated from the state de.rs calls the functions in (slice: index <= len; reader: i bytes handed out, peek "
    "slot empty, clean end of input); Error::io of a failing reader inside a string is Model.IoFault's business (C13), not modelled in "
    "Model.ReadIo; the models are list-based (no usize overflow, no allocation failure)",
]
PROPS["C05"]["partial"] = [x for x in PROPS["C05"]["partial"] if not x.startswith("two clauses of the statement have no theorem")] + [
    "borrowed clause: c05_borrowed / c05_borrowed_subslice (SliceRead::parse_str returns Reference::Borrowed exactly when the body holds no "
    "backslash, and then the bytes are input[start .. end-1]) are theorems about Model.ReadSlice, the separately modelled slice scanner "
    "(SWAR scan, bulk copy, scratch.is_empty() test), tied to the crate by op rd (pointer range of the returned &str). The step from "
    "Reference::Borrowed to '<&str>::deserialize succeeds' is serde's visitor convention (visit_borrowed_str vs visit_str), observed by op rs",
    "bytes clause ('WTF-8 for unpaired surrogates, raw non-UTF-8 passes through'): both readers' parse_str_raw are proved equal to "
    "Model.Typed.runRaw (c09_slice_raw_refines, c09_io_raw_refines), the automaton behind the typed bytes target; there is no theorem "
    "relating runRaw to an independent WTF-8 specification, and the borrowed flag of the raw variant is checked per case only (op rd R); "
    "the decode theorems c05_decode_spec / c05_roundtrip are for the Value target of the machine, to which the real scanners are now tied "
    "by c09_slice_str_refines / c09_io_str_refines + c09_machine_string_steps",
]
READERS_TB = ("the two string scanners of read.rs are modelled separately (Model.ReadSlice over Model.Swar.skipToEscape + Model.LineCol.SlicePos; "
              "Model.ReadIo over Model.LineCol.IoPos; the generic free functions once in Model.ReadEscape) and proved to refine the machine's "
              "string steps; what stays trusted there: the hand transcription of control flow (validated by ops rd / rs calling the real methods), "
              "tools/extract.py gen_readesc for the escape letters / surrogate bounds / pair constants / hex-group lengths, str::from_utf8 = "
              "Spec.Utf8.validUtf8, Vec / slice operations by documented semantics, memchr2 by contract (C05)")
PROPS["C09"]["trusted_base"] = PROPS["C09"]["trusted_base"] + [READERS_TB]
PROPS["C05"]["trusted_base"] = PROPS["C05"]["trusted_base"] + [READERS_TB]
PROPS["C09"]["level_text"] += (" String scanners (Props/C09Readers.lean, Props/C09ReadersRaw.lean): SliceRead/StrRead and IoRead are separate models "
                               "and each refines the machine's string steps on every input - same decoded bytes and end index, or same error code at "
                               "the same index (control characters, invalid escapes, lone / unpaired surrogates, \\u cut by the end of input: both "
                               "EofWhileParsingString at the end of input whenever fewer than four bytes follow \\u, InvalidEscape at k+4 otherwise iff "
                               "not four hex digits; InvalidUnicodeCodePoint at the closing quote) - hence agree with each other, with the same line "
                               "and column; &str = slice on valid UTF-8; parse_str_raw of both = Model.Typed.runRaw.")
PROPS["C05"]["level_text"] += (" Borrowed clause: c05_borrowed / c05_borrowed_subslice over the separately modelled slice scanner (Model.ReadSlice); "
                               "the real scanners are tied to the machine's decode theorems by c09_slice_str_refines / c09_io_str_refines.")
# wip-range: the number-range clause on the specification side (Spec.Range, Props/C01Range)
PROPS["C01"]["lean_targets"] = ["SJ.Props.C01", "SJ.Props.C01Iff", "SJ.Props.C01Range", "SJ.Audit.C01"]

# wip-range: C07 without excluded classes and with the limb-level closure composed; C08 sharpened
PROPS["C07"]["lean_targets"] = ["SJ.Props.C07", "SJ.Props.C07Total", "SJ.Audit.C07"]
PROPS["C08"]["lean_targets"] = ["SJ.Props.C08", "SJ.Props.C08Parser", "SJ.Props.C08Sharp", "SJ.Audit.C08"]
PROPS["C01"]["level_text"] += (
    " Number range on the specification side (Props/C01Range): c01_range_fr, c01_accepts_iff_fr (float_roundtrip: accept <=> JSON "
    "text + side conditions with Spec.Range.finiteRange - exact decimal value, nearest-even rounding finite - for inputs shorter than "
    "2^29-20 bytes), c01_range_default_band with the witnesses c01_default_rejects_finite / c01_default_accepts_infinite (default build: "
    "only a band of 2 ulp either side of 2^1024-2^970 is undetermined; open finding C01-default-range-band), c01_range_oracle (the "
    "driver's executable verdict decides finiteRange).")
PROPS["C01"]["rule"] += (" Tag range-band: literals in and around the band [2^1024-2^970-2^972, 2^1024+2^972+2^965) in 17-25 digit, "
    "pointed, 0.000-prefixed, e/E/e+ and 309-digit integer spellings (exact 2^1024-2^970, f64::MAX, 2^1024 and neighbours), top level and "
    "nested in arrays / objects; tag range-tiny: exponents below -308, subnormals, underflow. The accept/reject of the crate on them is "
    "judged by Spec.Range (exact rational, roundNE64), not by the model.")
PROPS["C02"]["rule"] += (" Every number of a returned value is matched with its literal in the text and judged with Spec.Decimal / "
    "Spec.Ieee alone: exact integer, float within 5 ulp (default build) resp. the nearest-even double (float_roundtrip).")
PROPS["C07"]["level_text"] += (
    " Closed gaps (Props/C07Total): c07_bhcomp_calls_in_range (every call of bhcomp by parse_concise_float / parse_truncated_float has "
    "a non-zero mantissa and scaled_exponent in [-1118, 330), inside the range of c07_limbs_total) and c07_correct_limbs (the whole "
    "conversion with bhcomp.rs on limb vectors through math.rs, Model.LexicalLimbs, never panics and equals the specification); "
    "c07_nearest_even_all and c07_exponent_overflow_spec (exponent digits beyond i32: NumberOutOfRange iff Overflows64/32 of the exact "
    "value, otherwise +-0 = the nearest-even value); c07_int_literals_nearest (u64/i64 literals cast by serde's visitor are nearest-even "
    "for f64 and, rounded once, for f32) and c07_typed_nearest_all (deserialize_f64 / deserialize_f32 under float_roundtrip return the "
    "nearest-even value of EVERY literal; rejected exactly when it is infinite).")
PROPS["C08"]["level_text"] += (
    " Sharpened (Props/C08Sharp): c08_underflow_zero_sharp(_parts) / c08p_underflow_zero_sharp - every exact value below 2^-1075 (the whole "
    "interval that rounds to zero) gives +-0: monotonicity of nearest-even rounding + kernel evaluation of the largest u64 significand "
    "below the bound at each of the twenty exponents -324..-343; c08_f32_once_typed - on the typed path (Model.Typed.deNumber) in the "
    "default build deserialize_f32 returns F64.toF32 of what deserialize_f64 returns on a float-path literal and fails alike "
    "(c08_f32_once_typed_fails_on_large_int: finding C08-F2 on the typed path).")
PROPS["C08"]["rule"] += (" Tag tiny-band: for each exponent -324..-343 the largest u64 significand below 2^-1075, its neighbours and "
    "random significands in the upper half of (2^-1076, 2^-1075), in every spelling.")

# ---- gaps of the honesty pass closed by theorems (branch wip-smalls): C20 text -> value -> text; C05 bytes target; C13 kind;
#      C06 128-bit typed path; C08 typed f32.
PROPS["C20"]["lean_targets"] = PROPS["C20"]["lean_targets"][:-1] + ["SJ.Props.C20Text"] + PROPS["C20"]["lean_targets"][-1:]
PROPS["C20"]["configs"] = dict(quick=["ap"], thorough=["ap", "frap", "poap"])
PROPS["C20"]["rule"] += (" Op reprint also on 900 (thorough 6000) generated documents with objects and strings, blanks at every place the "
    "grammar allows and inside string literals: half of them with distinct keys in the map's order and every string in the serializer's "
    "spelling (the output must be the input minus insignificant whitespace), the others breaking one proviso each (keys out of order, a "
    "duplicate key, another RFC 8259 spelling of a string: \\u0041, \\/, \\ud83d\\ude00); thorough also under preserve_order (poap).")
PROPS["C20"]["level_text"] += (
    " Text -> value -> text (Props/C20Text.lean over Spec/TextNorm.lean, Proofs/TextNorm.lean): c20_text_roundtrip - for every text bs the "
    "parser accepts under arbitrary_precision, with t its syntax tree and v the value: to_string(v) succeeds and is (1) always the compact "
    "rendering of v = Spec.Canon.canon t (members in the Map's order, a duplicate key collapsed to its last value), (2) normText t - the "
    "input's tokens in the input's order, no whitespace, EVERY NUMBER LITERAL BYTE FOR BYTE, strings in the serializer's spelling - when "
    "every object has distinct keys standing in ascending byte order (Spec.TextNorm.keysInMapOrder; under preserve_order distinctness "
    "alone), (3) stripWs bs - the input with the whitespace outside string literals removed by an independent byte-level scan, nothing "
    "else changed - when moreover the string literals are spelled as the serializer spells them (spelledCanonically: RFC 8259 allows "
    "other spellings of the same string, \\u0041 or \\/, which do not survive). c20_text_roundtrip_ap: the same for the token-aware "
    "model Model.MachineAp on inputs without a private-token first key (c01_ap_conservative). c20_number_display: a parsed number "
    "literal p gives Num.lit p.bytes and as_str, Display (one write_str), to_string of the Number, of the Value in both formatters and "
    "Value's Display all return exactly p.bytes. The executable statement of op reprint is now clause (2) / (3) on the tree found by "
    "the independent recogniser, and the model column is serCompact (ofValue (parseTop doc)).")
PROPS["C20"]["technique"] += ("; composition of parser soundness (C02), the serializer theorem for Value (C03) and a mutual induction over the "
    "syntax tree (render of the canonical value = compact spelling of the tree; a member list in map order is the map it builds); "
    "induction over derivations for the byte-level whitespace stripper")

# C05 bytes clause (branch wip-smalls): independent WTF-8 specification + theorem on every input; finding for bare control characters
PROPS["C05"]["lean_targets"] = PROPS["C05"]["lean_targets"][:-1] + ["SJ.Props.C05Bytes", "SJ.Props.C05BytesReaders"] + PROPS["C05"]["lean_targets"][-1:]
PROPS["C05"]["partial"] = [x for x in PROPS["C05"]["partial"] if not x.startswith("bytes clause ('WTF-8 for unpaired surrogates")] + [
    "bytes clause: c05_bytes_target_total characterises parse_str_raw on EVERY input by the independent Spec.Wtf8 (lex + decodeBytes) and "
    "c05_bytes_target_readers carries it to both real scanners (through c09_slice_raw_refines / c09_io_raw_refines). ONE deviation from the "
    "statement, open finding C05-bytes-control-char-accepted: 'the same decoding applies' keeps the rejection of a bare control character, "
    "the crate's non-validating scanner (validate = false) copies it - the theorems describe the code (a raw item is any byte but quote and "
    "backslash; witness c05_bytes_control_passes), op bytesctl reports the deviation. The borrowed flag of the raw variant is still "
    "checked per case only (op rd R)",
]
PROPS["C05"]["rule"] += (" Op bytesctl: each of the 32 control bytes alone in a literal (and three of them in a context with an escape, a "
    "multi-byte character and a lone surrogate escape) read as ByteBuf from str / slice / reader; 0x20 and 0x7f as controls of the check. "
    "Op rd R additionally carries the executable bytes clause (Spec.Wtf8: decoded bytes, end offset, InvalidEscape / Eof position) on "
    "every generated case.")
PROPS["C05"]["level_text"] += (
    " Bytes clause (Spec/Wtf8.lean, Proofs/Wtf8.lean, Props/C05Bytes.lean, Props/C05BytesReaders.lean): Spec.Wtf8.decodeBytes - raw bytes "
    "copied (0x80-0xFF in any arrangement), simple escapes replaced, \\uXXXX -> UTF-8 of the code point, a high surrogate escape "
    "immediately followed by a low one -> the four-byte UTF-8 of the scalar, ANY OTHER surrogate escape -> its three-byte generalized "
    "UTF-8 (WTF-8) form ED A0..BF 80..BF (c05_bytes_wtf8_form) - and Spec.Wtf8.lex, the RFC 8259 item structure of an arbitrary byte "
    "string. c05_bytes_target_total: Model.Typed.parseStrRaw (the automaton behind deserialize_bytes / deserialize_byte_buf) on EVERY "
    "input, every source, configuration and fault mode, returns exactly decodeBytes of the items up to the closing quote with the unread "
    "input and the index just past the quote; or InvalidEscape at the byte after a backslash that starts no escape / at the fourth byte "
    "of a \\u group that is not four hex digits; or EofWhileParsingString at the end (Io for a failing reader). c05_bytes_target / "
    "c05_bytes_target_only (a success is exactly a well-formed literal), c05_bytes_errors (no other error code: never a control-character, "
    "surrogate or UTF-8 error), c05_bytes_entry (through deBytes), c05_bytes_raw_passthrough (a content without quote and backslash is "
    "returned as it stands, UTF-8 or not), c05_bytes_lone_surrogate, c05_bytes_vs_str (whatever the validating parse_str accepts the "
    "bytes decoder accepts with the same bytes, rest and position; c05_bytes_vs_str_spec: decodeItems = some s => decodeBytes = s), "
    "c05_bytes_target_readers (the same characterisation for SliceRead / StrRead / IoRead::parse_str_raw as separately modelled). "
    "c05_bytes_control_passes: the witness of finding C05-bytes-control-char-accepted (a bare line feed is copied by the bytes target, "
    "rejected by the text target).")
PROPS["C05"]["technique"] += ("; an independent WTF-8 decoding specification and a simulation of the raw-string automaton (pending-surrogate "
    "formulation = look-ahead formulation) by strong induction on the input")

# C13 reader kind (branch wip-smalls)
PROPS["C13"]["lean_targets"] = PROPS["C13"]["lean_targets"][:-1] + ["SJ.Props.C13Kind"] + PROPS["C13"]["lean_targets"][-1:]
PROPS["C13"]["gen_keys"] = PROPS["C13"]["gen_keys"] + ["iokind.", "IoKind"]
PROPS["C13"]["level_text"] += (
    " The KIND (Props/C13Kind.lean over Model/IoKind.lean, Gen/IoKind.lean): the models' Io outcomes carry no payload; "
    "Model.IoKind.parseFaultK threads the failing read's io::Error through IoRead::next / peek (`Some(Err(err)) => Err(Error::io(err))`, "
    "the one arm for a failed read in each: Gen.ioReadErrArms = 2), Error::io (stores it: Gen.errorIoStoresError), classify (Io), "
    "io_error_kind (`Some(io_error.kind())`: Gen.ioErrorKindReturnsInner) and io::Error::from (gives it back), all four shapes "
    "re-extracted from src/read.rs / src/error.rs on every run (c13_io_error_kind_link). c13_kind_preserved: the outcome is "
    "Model.IoFault.parseFault's with the error attached; when that is Io, classify() = Io, io_error_kind() = Some(e.kind) - THAT "
    "error's kind - and io::Error::from returns e; a parser error of the delivered bytes has io_error_kind() = None; "
    "c13_kind_only_from_reader (a reported kind is the reader's); c13_typed_kind_preserved, c13_item_kind (typed targets, stream "
    "items: by attachment). Thin by design - the content is the four extracted shapes; the driver's rfault model now prints IO:<kind> "
    "from io_error_kind() of the model's outcome instead of echoing the case line.")

# C06 128-bit typed path (branch wip-smalls)
PROPS["C06"]["lean_targets"] = PROPS["C06"]["lean_targets"][:-1] + ["SJ.Props.C06Typed128"] + PROPS["C06"]["lean_targets"][-1:]
PROPS["C06"]["level_text"] += (
    " The 128-bit branch of c06_typed is a statement about Model.TypedInt.deIntText, which is written as the specification there; "
    "Props/C06Typed128.lean ties it to the transcription: c06_typed_text - for every literal of the grammar, every width, source and "
    "configuration, from_str::<w> as transcribed (Model.Typed.deTypedTop -> deInt -> deNumber / deInt128 = do_deserialize_i128 / u128: "
    "scan_integer128 + str::parse, then end(); projected by Model.ViaValue.textInt) = deIntText on the literal's parts = specInt; "
    "c06_typed_128 - the 128-bit case spelled out (integer literal, no minus sign for u128, -0 accepted as 0, exact range check; "
    "deInt = deInt128 there); specInt_eq_targetInt - the specification of Model.TypedInt and the statement-level verdict "
    "Spec.NumberAcc.targetInt of c06_via_value are the same function of the literal.")
# the faithful Value models' theorem modules stay among C01's targets whatever earlier statements assigned (leanchecker re-checks `.Props.` targets)
PROPS["C01"]["lean_targets"] = PROPS["C01"]["lean_targets"][:-1] + [t for t in ("SJ.Props.C01Ap", "SJ.Props.C01Rv") if t not in PROPS["C01"]["lean_targets"]] + PROPS["C01"]["lean_targets"][-1:]

# ---- generator / oracle upgrades after the third round of seeded changes (branch wip-g2): C04-6, C05-7, C16-6, C17-7
PROPS["C04"]["rule"] += (" Op rtw (same model and specification as rtm, fixed cases named <container>-<variant kind>-<n>): WIDE typed "
    "documents - n = 100, 126, 127, 128, 130, 300 (and 1000 for the mixed kind; thorough: for all) values of "
    "enum Shape { Unit, Newtype(u32), Tuple(i8, String), Struct { a: bool, b: Option<char> } } of one variant kind (unit / newtype / "
    "tuple / struct / the three non-unit kinds in rotation) side by side in a Vec, in a BTreeMap<u16, _>, or spread over "
    "struct Doc { first: Vec<_>, second: (Vec<_>, Vec<_>), last: _ }: nesting at most 5, so reading one value back may not depend on how "
    "many siblings were read before it (a recursion budget that is not given back shows near 127 siblings).")
PROPS["C14"]["rule"] += (" Op ttd also carries WIDE documents (100 ... 300 siblings of each of the ten layer kinds - newtype / tuple / struct enum "
    "variants, one-field structs as object and as array, one-element arrays, tuples and maps - side by side in one array and in one "
    "object; counted nesting 2 or 3): the verdict 'accepted iff at most 127 "
    "counted containers are open at the deepest point' requires that the budget a container takes is restored when it closes.")
PROPS["C05"]["rule"] += (" Op rsa (harness/src/readers.rs, handler in Drv/Readers.lean): the literals of op rs requested through the "
    "SELF-DESCRIBING route - Deserializer::deserialize_any with a custom Visitor reporting visit_borrowed_str (B<offset>: the pointer "
    "lies inside the input) / visit_str (C) / visit_string (S) - as top-level value (every literal, malformed ones included) and, for "
    "complete well-formed literals, as array element, map key (MapKey::deserialize_any) and map value, tightly and with whitespace and "
    "neighbours around; plus the derived #[serde(untagged)] enum Untagged<'a> { Num(u64), Text(&'a str) } at top level and inside a Vec "
    "(serde's Content buffering: Text exists only if the string arrived borrowed); from_str / from_slice / from_reader each. Model: "
    "Model.ReadSlice (its Reference is Borrowed or Copied) at the literal's offset for str / slice, Model.ReadIo for the reader. "
    "Specification (Spec.Rec + Spec.Canon give extent and decoding, independent of both models): from str / slice the visitor is handed "
    "a borrowed string - the subslice input[p .. end-1] - exactly when the body has no backslash and a transient one otherwise, from a "
    "reader never a borrowed one, the bytes are the RFC 8259 decoding, and Text(&str) exists for every escape-free literal.")
PROPS["C16"]["configs"] = dict(quick=list(PROPS["C16"]["configs"]["quick"]) + ["rv"], thorough=list(PROPS["C16"]["configs"]["thorough"]) + ["rv"])
PROPS["C16"]["rule"] += (" Op c16x (spec-only: three-way agreement, no model) under arbitrary_precision / raw_value also takes Values "
    "built by Map::insert whose objects are keyed by the PRIVATE TOKENS $serde_json::private::Number / $serde_json::private::RawValue: "
    "20 payloads (numeric, non-numeric and empty strings, strings with surrounding blanks, JSON texts, a number, null, true, an array, an "
    "object) x 9 shapes (the token alone, with a second key after it, with a key before it, inside arrays, as the n / m / skip / payload "
    "fields of structs, nested in itself) for the targets Value, Map<String, Value>, Number, Option<Number>, Vec<Number>, WithNumber, "
    "IgnoredAny, BTreeMap<String, KEnum>: from_value (keys by visit_string), &Value (visit_str) and the text route must treat the object "
    "the same way (on the unchanged crate they do: 0 disagreements). The raw_value configuration of C16 runs op c16x only. The driver "
    "caps the printed specification failures per OPERATION (200 each), so that the cases of the open ap findings of op c16 cannot hide "
    "failures of op c16x.")
PROPS["C17"]["rule"] += (" Op mapiter <cfg> <history> <k>: the map is built by the history (fixed: 0..9 keys inserted ascending / "
    "descending / shuffled, every k up to len + 1; random: the histories of maphist, k in {0, 1, len - 1, random <= len + 1}); for each "
    "of the seven iterator wrappers of map.rs - iter(), iter_mut(), into_iter(), keys(), values(), values_mut(), into_values() - the "
    "harness observes forward collect, rev() collect, nth(k) + rest, nth_back(k) + rest, rev().nth(k), rev().skip(k), rev().step_by(2), "
    "skip(k), step_by(k+1), rev().step_by(k+1), len() / size_hint() fresh and after next(), next()+next_back(), nth(k), nth_back(k), "
    "last(), next / next_back / next / next_back + rest, nth_back(k) then nth(k) + rest + len(). Model: plain list functions "
    "(drop / take / reverse / getLast / every s-th element) of the entry list of Model.MapBTree / Model.MapIndex after the history. "
    "Specification (independent of the map models): the same list functions of the list the crate's own iter() collected forward - a "
    "double-ended exact-size iterator over the forward entry list - compared field by field with everything the crate returned.")
# ---- third-round seed misses (branch wip-g3): C13-6 (stream borrowing its IoRead), C19-6 (capture buffer reused after a failed capture),
#      C10-6 (UTF-8 check of a partial raw capture before the Eof report)
PROPS["C13"]["rule"] += (" Op sfault takes its stream in four constructions - own = Deserializer::from_reader(rd).into_iter(), ownnew = "
    "StreamDeserializer::new(IoRead::new(rd)), new = StreamDeserializer::new(&mut io_read), iter = Deserializer::new(&mut io_read).into_iter() "
    "(the last two BORROW the input source: read.rs's `impl Read for &mut R`) - and two fault modes (p: the reader fails for ever after k bytes, "
    "chunks of 3 bytes and Interrupted results; o: it fails once and then delivers the rest and a clean end, so that a stream that reads on "
    "after its error yields more items), on the 165 documents with a random k, on 13 fixed multi-value streams (bare scalars, self-delineated "
    "values, undelimited scalars, unfinished values) with EVERY k, and on 40 (thorough 400) concatenations of 1-3 generated values with 3 "
    "random k; case line: sfault <cfg> <ctor> <p|o> <kind> <k> <intr> <hex> (replayable). Model: Model.StreamFault.historyF (next() with the "
    "failing read in the place of the end of input; the same history for every construction and both modes); specification: values and "
    "undelimited-scalar errors, ONE terminal error (Io of the injected kind, or an earlier Syntax error), then None for ever.")
PROPS["C19"]["rule"] += (" Op rawseq (harness/src/c19.rs, lean/SJ/Drv/C19Seq.lean): ONE Deserializer per source (from_str, from_slice, from_reader "
    "over a chunked reader) and k successive T::deserialize(&mut de) calls on it, going on after errors; T = Box<RawValue> (shape raw) or "
    "struct W { code: u32, payload: Box<RawValue> } (shape wrap: a struct with a RawValue field followed by further documents). Inputs: 20 "
    "fixed histories and 600 + ~300 (thorough 6000 + ~3000) generated sequences of 2-5 items - generated values, multi-byte and invalid-UTF-8 "
    "strings, and 25 broken items that fail after capture began or at their first byte (nul, tru, fals, -x, -, 1., 1e, 01, \"\\q, \"\\u12, a raw "
    "control character, [1, [1,] [1 2] {\"a\" 1} {\"a\":} {1} [nul] x ] , :) - with every whitespace separator or none; wrap: each item inside "
    "{\"code\":n,\"payload\":…} in both field orders, a broken payload half of the time last in an object that is never closed. Model: "
    "Model.RawSeq (the typed model's deRaw / deRawStruct threaded through the remaining input) for the items up to and including the FIRST "
    "error; the items after an error are echoed (where the reader stands after a failed call is not modelled). Specification, independent of "
    "the model, on every captured text of every source: exactly one JSON value (Spec.Rec), valid UTF-8, no surrounding whitespace, occurring in "
    "the input at or after the end of the previous captured text; shape raw before the first error: it is THE next value of the input "
    "(Spec.Pos.scanValue on the remaining input) and a well-formed value there is captured; the three sources agree item by item as long as "
    "none has reported an error.")
PROPS["C10"]["configs"] = dict(quick=PROPS["C10"]["configs"]["quick"] + ["rv"], thorough=PROPS["C10"]["configs"]["thorough"] + ["rv"])
PROPS["C10"]["rule"] += (" Content captured raw (configuration rv, which runs only this; op pfxr, harness/src/c10raw.rs, lean/SJ/Drv/C10Raw.lean): every "
    "prefix of 12 fixed texts with multi-byte characters as Box<RawValue>, and of 250 (thorough 2500) generated documents per target for "
    "Box<RawValue>, Vec<Box<RawValue>>, BTreeMap<String, Box<RawValue>> and struct { id: Option<u32>, payload: Box<RawValue>, tail: Box<RawValue> } "
    "(values: half of them strings / keys / nested containers with 2-, 3- and 4-byte characters, so that most cuts of a byte source fall inside a "
    "character of the partial capture), from str (character boundaries only), slice and reader. Model: Model.Raw.rawTop / "
    "Model.RawNested.rawSeqTop, rawMapTop / Model.RawStruct.rawStructTop on every prefix; specification: accepted, or an Eof-category error at "
    "the end of the prefix.")
PROPS["C13"]["lean_targets"] = PROPS["C13"]["lean_targets"][:-1] + ["SJ.Props.C13Stream"] + PROPS["C13"]["lean_targets"][-1:]
PROPS["C13"]["level_text"] += (" Streams of Values over a failing reader (Props/C13Stream.lean over Model/StreamFault.lean): c13_stream_io_once - once "
    "next() has yielded the I/O error every further call, any number of them, yields None; c13_stream_error_once - the same after a parser "
    "error other than the undelimited-scalar `trailing characters`; both from the failed flag (nextF_io_fails, nextF_err_fails, historyF_failed). "
    "The model is tied by op sfault (every construction of the stream, persistent and one-shot faults).")
PROPS["C19"]["lean_targets"] = PROPS["C19"]["lean_targets"][:-1] + ["SJ.Props.C19Seq"] + PROPS["C19"]["lean_targets"][-1:]
PROPS["C19"]["level_text"] += (" Successive captures on one Deserializer (Props/C19Seq.lean over Model/RawSeq.lean): c19_seq_capture - every text "
    "captured by any call of a run of Box::<RawValue>::deserialize(&mut de) calls that has not failed yet is exactly one value of the grammar, "
    "non-empty, UTF-8 on byte sources, and sits in the input immediately before what that call leaves unread, preceded only by whitespace and by "
    "what the earlier calls consumed (from Proofs.RawSpan.deRaw_sound, by induction over the calls). What a capture AFTER a failed call holds is "
    "not modelled (echo) and is judged by the executable specification of op rawseq only.")
# ---- generator / oracle upgrades after the third round of seeded changes (branch wip-g1): C02-6, C11-7, C12-7, C14-7, C20-6, C20-7, C07-7
PROPS["C02"]["configs"] = dict(quick=["d", "po", "ap", "fr"], thorough=["d", "po", "fr", "ap"])
PROPS["C11"]["configs"] = dict(quick=["d", "fr"], thorough=["d", "ap", "fr"])
PROPS["C12"]["configs"] = dict(quick=["d", "fr"], thorough=["d", "ap", "fr"])
PROPS["C07"]["configs"] = dict(quick=["fr", "rvpofr"], thorough=["fr", "frap", "d", "rvpofr"])
PROPS["C20"]["configs"] = dict(quick=["ap", "d"], thorough=["ap", "frap", "poap", "d", "fr"])
LONG_SEQ_RULE = (" Tag long-seq / long-seq-str (c01::long_seq; C01, C02, C14): the value of a literal does not depend on what was parsed before it - 36 ordered "
                 "pairs of long-number kinds in five document shapes and 400 (thorough 4000) arrays, nested arrays and object values holding 2-4 CONSECUTIVE "
                 "long numbers (integers of 20-41 digits, fractions during which the significand overflows u64, long integers with fraction / exponent, the point "
                 "anywhere), mixed with short numbers and null / true / false / [] / {} but no string in between (nothing resets the Deserializer's scratch "
                 "buffer), a quarter of them after a string with an escape (which leaves its decoded bytes in the scratch buffer); quick tier also under float_roundtrip.")
PROPS["C02"]["rule"] += LONG_SEQ_RULE
PROPS["C01"]["rule"] += LONG_SEQ_RULE
PROPS["C11"]["rule"] += (" Tag long-err (c01::long_err; C11, C09): syntax errors inside numbers that have left the 64-bit fast path - nine integer parts (19-30 digits, "
                         "both sides of u64::MAX, and a short control) x twelve continuations (. .e e e+ e- .5e .5e+ .5E- E .E5 .- and a 20-digit fraction then e) x fourteen "
                         "following bytes (letter, closers, comma, blank, newline, CR LF, quote, e . - +, a multi-byte character, end of input) in seven contexts (top level, "
                         "array, multi-line array, object member followed by another, own line, trailing newline, unclosed nesting on line 3; quick: a third of them), plus "
                         "300 (thorough 3000) random ones; quick tier also under float_roundtrip (parse_long_integer / parse_long_decimal / parse_long_exponent).")
PROPS["C12"]["rule"] += (" Tag long-stream / long-stream-str (c12::long_streams): every ordered pair of twelve long numbers (decimals whose significand overflows u64 in the "
                         "fraction, 20+-digit integers, with exponents) as a two-item stream with blank and newline separators; eight strings / containers with strings "
                         "(plain, escaped, as object key) followed by each long number, bare and inside an array; 300 (thorough 3000) streams of 2-4 items drawn from fresh "
                         "20-34 digit numbers with the point anywhere, the fixed long numbers, strings, arrays of long numbers and short items, every whitespace separator; "
                         "Value and IgnoredAny items, str / slice / reader; quick tier also under float_roundtrip (the scratch buffer lives across next() calls).")
PROPS["C14"]["rule"] += (" Tag exp-edge (c01::exp_edge): sixteen mantissas (fraction digits, 21-30 integer digits, zeros, plain) x exponent sign x nine exponents "
                         "2147483640..2147483649, 2^32-1, 2^32, 9999999999 in four document shapes, plus 200 (thorough 2000) random 1-26 digit mantissas with 0-25 fraction "
                         "digits and an exponent within 4 of +-i32::MAX: the implicit exponent of the mantissa and the explicit one have the same sign and their sum leaves "
                         "i32 (the harness is built with overflow checks: an unchecked + / - panics). Tag long-seq as in C02.")
PROPS["C20"]["rule"] += (" Tag nearmiss (c06::number_near_misses, op acc): fourteen complete literals followed by, preceded by and split by EVERY byte value 0..=255 (>= 0x80 as the "
                         "UTF-8 text of U+0080..U+00FF), twenty two- and three-byte tails / heads (NUL bytes, blanks, line ends, a second literal, BOM), and 2000 (thorough 20000) "
                         "random number texts with one arbitrary byte inserted: only strings of the RFC 8259 number grammar may be accepted by Number::from_str. "
                         "Op anynum (harness/src/anynum.rs, lean/SJ/Drv/C20Any.lean; also in the default build, thorough also under float_roundtrip - builds without arbitrary_precision run tag nearmiss and op anynum only, they are the 'without the feature' side): what a visitor driven through deserialize_any receives "
                         "(which visit_* method and the value; from str, slice and a chunked reader) and which variant serde's untagged enum {U(u64), I(i64), F(f64), S(String)} "
                         "selects, for 35 boundary literals, the integer families of C06 (+-40, thorough +-300, around every power of two up to 2^128), 2000 (thorough 20000) "
                         "integers of 19-21 digits on both sides of i64::MAX and u64::MAX and 2000 (thorough 20000) general number texts. The model transcribes parse_any_number "
                         "/ ParserNumber::visit; the verdict is the statement itself, from the literal's text alone: an integer within [0, u64::MAX] arrives as visit_u64, within "
                         "[i64::MIN, -1] as visit_i64, everything else as visit_f64 of the value (nearest-even under float_roundtrip, within 5 ulp otherwise; not finite = error). "
                         "Under arbitrary_precision every literal of the third kind arrives as the private number-token MAP instead (open finding "
                         "C20-ap-deserialize-any-non-integer): that marked verdict is emitted for literals of at most three bytes only (the driver prints 200 verdicts per run), "
                         "on longer ones the exact token map passes silently (the model demands it), anything else is reported.")
PROPS["C07"]["rule"] += (" Configuration rvpofr (float_roundtrip + raw_value): every f64rt / f32rt literal is also captured as a Box<RawValue> (alone from a str; as both elements of "
                         "an array through a chunked reader) and the float deserialised FROM the RawValue (impl Deserializer for &RawValue): T::deserialize(&*raw), "
                         "(&*raw).into_deserializer(), a one-field struct and a one-element tuple out of a RawValue holding {\"x\":lit} / [lit]; a path that differs from the "
                         "str path is appended to the merged observation (X...,raw-deserialize:...), which then fails the verdict.")
PROPS["C09"]["rule"] += " Tag long-err (c01::long_err): the long-number syntax-error family described under C11, three sources compared."
PROPS["C11"]["rule"] += (" The crafted lc3 list also holds ten long-number texts (20+ integer digits cut short after . / e / e+, the next byte a newline variant, a closer or a "
                         "letter) for the targets f64, f32, Value, IgnoredAny and Vec<f64>.")

# ---- two gaps of the honesty pass closed by theorems (branch wip-pshort): C04 default-build float class; C05 hex readers
PROPS["C04"]["lean_targets"] = PROPS["C04"]["lean_targets"][:-1] + ["SJ.Props.C04Short"] + PROPS["C04"]["lean_targets"][-1:]
PROPS["C04"]["level_text"] += (
    " Default build, 'f64 values that print as short literals' (Props/C04Short.lean over Proofs/C04Short.lean): the carried hypothesis "
    "FloatsRoundTrip is DISCHARGED there - c04_default_short_float (without float_roundtrip / arbitrary_precision, under RyuShortest: for "
    "every finite double b whose printed text ext.ryu64 b has at most 15 digits after dropping leading zeros - integer and fraction "
    "digits as written - and a net decimal exponent within +-22, Model.Num.convertDefault of the scanned text is b, bit for bit: "
    "RyuShortest says the text's exact value rounds to b, c08_exact_short that the default conversion of such a text is that rounding, "
    "the written fraction / exponent that the result is stored as a Float), c04_floats_roundtrip_short (FloatsRoundTrip for every value "
    "with ShortFloats ext v), c04_default_short_floats (every well-formed Value whose floats are of that class survives to_string / "
    "to_string_pretty -> from_str / from_slice / from_reader, the only float hypothesis left being RyuShortest about the external "
    "printer), c04_typed_default_short (the same for the f64 members of typed data; the f32 hypothesis F32sRoundTrip is still carried). "
    "ShortFloats is exactly what harness/src/c04.rs prints_short evaluates on the text the crate prints. c04_default_exact_floats: the same "
    "for the wider class ExactFloats - digits as written below 2^53 instead of 10^15 (Proofs/FloatLiteral53.lean: C08's exactness argument "
    "with the bound it really uses), which admits 123456789012345.0 (ryu writes sixteen digits); c04_short_is_exact. The class cannot be widened to "
    "'15 significant digits, scientific exponent within +-22': c04_default_long_fails (the double 8000000000000020.0 - 15 significant "
    "digits, printed by ryu with seventeen - is read back by the default build as 8000000000000019.0) and c04_default_sci15_fails "
    "(7.40865532228085e-9 comes back as 7.408655322280851e-9), both kernel-checked on the model and replayed on the crate (op f64lit).")
PROPS["C04"]["technique"] += ("; default-build float class: composition of RyuShortest (nearest-even of the printed text) with C08's exactness "
    "theorem on the printed text's digits")
_add("C04", "partial", [
    "default build: c04_default_short_floats reads the statement's class 'at most 15 significant digits, decimal exponent within +-22' as C08 "
    "states it - digits of the printed text as the parser accumulates them (a trailing .0 counts) and NET exponent (written exponent minus "
    "fraction digits). Under the other reading (significant digits of the shortest representation, scientific exponent) the statement is false in "
    "the default build: c04_default_long_fails, c04_default_sci15_fails (kernel-checked witnesses, replayed on the crate). The classes are "
    "sufficient, not necessary (integral doubles in [2^53/10, 10^15) print with a trailing .0 and a significand of sixteen digits above 2^53 "
    "and still round-trip: not covered). For typed data the f32 members' hypothesis "
    "F32sRoundTrip stays carried in the default build (checked on all 2^32 patterns by op f32all)",
])
PROPS["C05"]["lean_targets"] = PROPS["C05"]["lean_targets"][:-1] + ["SJ.Props.C05Hex"] + PROPS["C05"]["lean_targets"][-1:]
PROPS["C05"]["level_text"] += (
    " The \\uXXXX readers are one function (Props/C05Hex.lean over Proofs/HexEquiv.lean): c05_machine_hex4_spec (the byte-step machine's "
    "hex4 on the four bytes after \\u = Spec.Str.hex4Val, on every quadruple: per-byte agreement over the 256 byte values, lifted), "
    "c05_hex4_rejects_iff (none exactly when one of the four bytes is not 0-9 a-f A-F, otherwise the grammar's positional value, below 2^16), "
    "c05_hex_three_agree (machine hex4 = table-based decode_four_hex_digits = specification), c05_machine_hex_steps (stepStr from the state "
    "after \\u: the first three bytes are stored whatever they are, the fourth fails with InvalidEscape exactly when hex4Val is none and "
    "otherwise continues with exactly that value). The scan: c05_scan_is_naive restates c05_swar_first_escape - skip_to_escape returns "
    "index + the number of following bytes that are none of quote, backslash, control - and c09_slice_str_refines ties the scanner built on "
    "it to the machine's byte steps.")
PROPS["C04"]["partial"] = [x.replace("for the default build it remains a hypothesis (C08 covers short literals)",
    "for the default build it is discharged for floats that print as short literals (c04_default_short_floats, from RyuShortest and "
    "c08_exact_short) and remains a hypothesis for the others") for x in PROPS["C04"]["partial"]]

# ---- typed targets: the remaining_depth counter threaded as state (branch wip-ptdepth)
PROPS["C14"]["lean_targets"] = PROPS["C14"]["lean_targets"][:-1] + ["SJ.Props.StreamTypedDepth"] + PROPS["C14"]["lean_targets"][-1:]
PROPS["C12"]["lean_targets"] = PROPS["C12"]["lean_targets"][:-1] + ["SJ.Props.StreamTypedDepth"] + PROPS["C12"]["lean_targets"][-1:]
PROPS["C14"]["level_text"] += (" Typed targets, the counter itself (Props/StreamTypedDepth.lean over Model/StreamTypedDepth.lean, the typed model with "
    "Deserializer::remaining_depth threaded as STATE - decremented / tested / incremented where the seven check_recursion! sites do it (the body stores "
    "`ret`, no `?`: the increment runs on Ok and on Err; deserialize_enum restores before `tri!(ret)`; only the macro's own early return skips it), a nested "
    "Value on the machine with StreamDepth.step1D, the stream keeping the counter between next() calls): c14_typed_depth_restored - entered with "
    "remaining_depth = d (d + open typed containers = 128, or any d with the limit disabled) the instrumented deserializer returns exactly what "
    "Model.Typed.deTyped returns and leaves the counter at d on every exit path, Ok or Err, except that the RecursionLimitExceeded error leaves d - 1; "
    "c14_typed_depth_restored_ok (a value read successfully always leaves d); c14_typed_stream_depth_restored - the typed stream with the counter yields "
    "the items and offsets of Model.StreamTyped.historyT and the counter is 128 after every call that yields something (127 after the item that failed with "
    "RecursionLimitExceeded, when the stream is fused); c12_typed_items_full_budget - after any number of calls the stream has failed or the counter is 128. "
    "NOT claimed (and not claimed by the statement: 'after each successfully read value'): anything about a Deserializer that is used again after an error "
    "outside a stream - there the unit lost by RecursionLimitExceeded stays lost (127), and a crate change that skipped the increment on Err paths only would "
    "be unobservable through StreamDeserializer (fused) and through single documents.")
PROPS["C12"]["level_text"] += (" Typed items are read with the full depth budget BY THEOREM (Props/StreamTypedDepth.lean over Model/StreamTypedDepth.lean, "
    "the typed stream with the deserializer's remaining_depth counter kept from one next() to the next): c14_typed_stream_depth_restored (same items and "
    "offsets as Model.StreamTyped.historyT; counter 128 after every yielding call, 127 after a RecursionLimitExceeded item) and c12_typed_items_full_budget "
    "(before every call the stream has failed or the counter stands at 128).")
DEPTH_STREAM_RULE = (" Tags depth:<family>:<layer kind>:<shape> (stypes::run_depth, op tstream; C12 in d / fr, C14 in d / ud): streams of 2-42 items of ONE schema "
                     "nesting to different depths around the recursion limit - Option-interleaved / bare / Value-leaf / exact-height / wide towers of the ten layer "
                     "kinds of typed::layer and their rotation, shapes [127,127,127], [126,127,128,127], [1,127,2,127], [128,127], [129,127,127], 40 shallow items then "
                     "127,128, an item failing at depth ~120 for another reason (tx, -x, trailing comma, mistyped leaf) between two 127-deep ones, 130 siblings then the "
                     "deepest; 678 cases per configuration (thorough 1455). The model reads every item with the whole budget (c12_typed_items_full_budget), so a "
                     "check_recursion! exit skipped on an Ok path shows as a later item failing with RecursionLimitExceeded (mutation: deserialize_enum's `{` arm without its "
                     "`+= 1` - 138 disagreements per configuration, the only C12 cases that see it). Under C14 op tstream reports model disagreements only (its "
                     "specification messages are C12's). A skipped increment on Err paths only is unobservable here: the stream is fused after any error, and the "
                     "universal seed has no error-swallowing visitor (the model-level statement is c14_typed_depth_restored).")
PROPS["C12"]["rule"] += DEPTH_STREAM_RULE
PROPS["C14"]["rule"] += DEPTH_STREAM_RULE

# ---- generator / oracle upgrades after the fourth round of seeded changes (branch wip-h1): C01-8, C03-8, C11-8, C12-8
PROPS["C01"]["configs"] = dict(quick=list(PROPS["C01"]["configs"]["quick"]) + ["fr"], thorough=list(PROPS["C01"]["configs"]["thorough"]))
LONG_NEARMISS_RULE = (" Tag long-nearmiss / long-nearmiss-ok (c01::long_nearmiss; C01, C02): the number grammar on literals whose integer part has left the 64-bit fast path - "
                      "ten fixed integer parts (19-40 digits, both sides of u64::MAX) and 2 (thorough 6) random ones of 19, 20, 21, 25 and 40 digits, with and without '-', "
                      "followed by thirty continuations the grammar does not admit (. .e2 .E-3 e e+ e- .5e .5e+ .-1 .+1 .e .E+10 ..5 .5. .5e2. e2e2 e.5 e+-2 ...: a point "
                      "without a fraction digit, an exponent marker without a digit, a misplaced sign, a second point / exponent) and by twelve it does (the accepted "
                      "neighbours), bare and in nine array / object / whitespace contexts (quick tier: one random integer part per length, bare and two rotating contexts - one under arbitrary_precision / raw_value).")
PROPS["C01"]["rule"] += LONG_NEARMISS_RULE + (" Quick tier also under float_roundtrip (parse_long_integer / parse_long_decimal / parse_long_exponent): every number family in "
                      "full; the generic families are subsampled there (string-literal family skipped, three-token sequences one shard of eight, 1000 documents, 60 random range-band mantissas).")
PROPS["C02"]["rule"] += LONG_NEARMISS_RULE
PROPS["C03"]["rule"] += (" Tag serp / disp 'deep' (c03::deep): depth x indent - nests of every depth 1..=44 (thorough 70) in four shapes (sequences only, maps only, alternating with "
                         "either outermost) around an innermost container of one or two scalars, every third one with a second scalar element after the nested one in each "
                         "wrapper, serialised compact and pretty with every indent of INDENTS plus four blanks, eight blanks, two tabs (every depth) and 33 blanks (depths 1-3, "
                         "around every multiple of 16, the deepest), per-write buffers at every eighth depth, and the corresponding Value through {} / {:#} / to_string / "
                         "to_string_pretty (op disp); quick tier and depths beyond 44: one innermost size per (depth, shape), the fourth shape at every fourth depth.")
DEPTH_LINES_RULE = (" Tag depth-lines / depth-lines-open / depth-lines-cut / depth-lines-str (c01::depth_lines): nests of 127 / 128 / 129 / 140 containers - arrays only, objects only, "
                    "alternating with either kind outermost, arrays with a BRACE as 128th opener, objects with a BRACKET as 128th opener - with five kinds of gap (none, newline, "
                    "blank, CR LF, newline + blanks; in objects also before the key, the colon and the value) between the levels; complete, unclosed, cut directly after the 128th "
                    "opening bracket and one byte later; after string literals that hold brackets / escaped quotes / an escaped backslash and after closed siblings.")
PROPS["C11"]["rule"] += DEPTH_LINES_RULE + (" Verdict (Drv/C01.lean judgeDepthPos, also in lcs of Drv/LineCol.lean): a 'recursion limit exceeded' syntax error is no longer exempt from "
                    "the position check - it must be reported exactly at lineCol(input, i + 1), i the index of the opening bracket ([ or {, outside string literals) that raises "
                    "the nesting depth to 128, found by the lexical scan Spec.Pos.depthOpener (lean/SJ/Spec/PosDepth.lean; independent of the parser model and of Spec.Pos.scanValue; "
                    "kernel-checked examples beside it). Tag lcs:deep (linecol.rs): 108 streams whose second / third / only item nests 127-129 deep (brackets, braces, a brace as 128th "
                    "opener, alternating; levels on one line, on their own lines, CR LF + blank) followed by another item - the error item sits at the 128th opener of ITS item.")
PROPS["C09"]["rule"] += DEPTH_LINES_RULE
PROPS["C14"]["rule"] += " Tag depth-lines (c01::depth_lines) as in C11."
PROPS["C12"]["configs"] = dict(quick=list(PROPS["C12"]["configs"]["quick"]) + ["ud"], thorough=list(PROPS["C12"]["configs"]["thorough"]) + ["ud"])
PROPS["C12"]["rule"] += (" Tag deep-stream (c12::deep_streams, op stream): streams whose items nest 127 / 128 / 129 deep (configuration ud also 200 / 1000) - brackets, braces, "
                         "alternating - alone, between two scalars, and two deep items in a row followed by null, Value and IgnoredAny items, str / slice / reader; with the limit "
                         "in force, and in configuration ud (feature unbounded_depth, now in both tiers) also after Deserializer::disable_recursion_limit() on the Deserializer that "
                         "into_iter() turns into the stream (configuration token ud+nolimit: Model.Stream with limitOff, the grammar history without the depth side condition): the "
                         "stream yields the deep values and continues.")

# ---- fourth-round seed misses (branch wip-h2): C13-8 (raw buffer validated before the I/O error is propagated), C05-8 / C06-8 / C05-9 (object-KEY
#      position of the text serializer and of bytes targets), C14-8 (float_roundtrip: parse_decimal_overflow on decimals below 0.1)
PROPS["C13"]["rule"] += (" Viable prefixes (lean/SJ/Spec/Viable.lean, verdict judgeViable of ops rfault / rfault1 / rfaultt for the targets value, ignored, raw, "
    "rawvec, rawmap): 'the bytes delivered before the fault already doom the input' is judged on the SPECIFICATION side, from the delivered prefix alone - "
    "Spec.Viable.strictViable runs a byte automaton over the RFC 8259 grammar (every non-rejecting state has a completion) and Spec.Utf8.validUtf8 on the "
    "prefix extended by each of the nine shortest completions of a truncated character, so a prefix that ends INSIDE a multi-byte UTF-8 character is viable; "
    "surrogate escapes, numbers of more than 200 integer digits or 3 exponent digits and nesting of 100 and more count as 'not sure' (no verdict). A delivered fault "
    "after a viable prefix must surface as Io with the reader's kind; comparing with what the crate itself makes of the same bytes followed by a clean end of "
    "input (judgeFault) is kept for the other prefixes and for the five typed targets, but is no longer the only test (it is blind to a change that corrupts both runs alike: seed C13-8).")
KEYS_ESCK_RULE = (" Object-KEY position of the text serializer (op esck, harness/src/keys.rs, lean/SJ/Drv/Keys.lean): every char below U+0100, the characters around "
    "U+07FF / U+2028 / U+D7FF / U+E000 / U+FFFD and the plane boundaries, a random 0.04% (thorough 2%) of the others, all 256 pairs of 16 escape-relevant "
    "characters and 300 (thorough 5000) random strings of up to 11 characters, each as the key of a one-entry map through four routes - cm = BTreeMap<char, u8> "
    "(MapKeySerializer::serialize_char), ch = hand-driven serialize_map + serialize_key(&char), sm = BTreeMap<String, u8>, sh = hand-driven serialize_key(&str) - "
    "and through to_string / to_vec / to_writer (the bytes between `{` and `:1}`) and to_string_pretty (between `{\\n  ` and `: 1\\n}`), which must agree. Model: "
    "Model.Escape.escapedBytes (format_escaped_str, which the key serializer forwards to); specification: Spec.Str.escapeSpec of the string - the function "
    "that judges the value position in op esc. Non-trivial: the key has a byte that must be escaped or a non-ASCII character.")
KEYS_RSK_RULE = (" Bytes-typed object KEYS (op rsk, harness/src/keys.rs, lean/SJ/Drv/Keys.lean): every literal that op rs reads into ByteBuf, every literal op scan reads "
    "into ByteBuf from the start of a slice, and the mixed-case \\uXXXX group of every 32nd u16 (every 4th in D7F0..E00F) of op hex4, ALSO as the key of "
    "{<literal>:7} read into BTreeMap<serde_bytes::ByteBuf, u8> from str / slice / reader. Model: parse_str_raw of the two scanner models (Model.ReadSlice, "
    "Model.ReadIo) at the key's index (echoed when the literal closes before the `:7}`); specification, independent of the models and of the crate's "
    "value-position result: Spec.Wtf8.lex / Spec.Wtf8.decodeBytes of the key literal - the key is exactly the WTF-8 decoding (unpaired surrogates in "
    "WTF-8 form, raw non-UTF-8 bytes unchanged), an invalid escape is InvalidEscape, an unterminated literal EofWhileParsingString. Bare control characters "
    "are raw items here as in op rd (finding C05-bytes-control-char-accepted is reported by op bytesctl only).")
PROPS["C05"]["rule"] += KEYS_ESCK_RULE + KEYS_RSK_RULE
PROPS["C06"]["rule"] += (" Serialising side, every width (op ikey, harness/src/keys.rs, lean/SJ/Drv/Keys.lean; SPECIFICATION ONLY - the model field is the expected "
    "observation): i8 / i16 / i32 / i64 / i128 / u8 / u16 / u32 / u64 / u128 x {2^k and 2^k +-1, +-2 for k in 0,1,6,7,8,15,16,31,32,53,62,63,64,65,100,126,127 and "
    "their negatives, u128::MAX-2..MAX, powers of ten around 19 / 20 / 38 / 39 digits - whatever fits the type, which includes MIN, MIN+1, -1, 0, 1, MAX-1, MAX of "
    "every type} + 60 (thorough 3000) random values per type of every magnitude, as the KEY of a one-entry BTreeMap<T, bool> through to_string, to_string_pretty, "
    "to_vec, to_writer, a hand-driven serialize_map + serialize_key, and to_value (key of the resulting Map), and as a VALUE through to_string, to_vec and to_value "
    "(the Number's text). The driver parses the decimal argument (printed by Rust's own Display, not by the crate) to an Int, checks it against the type's range and "
    "prints it back with its own digit loop: every key field must be those digits in quotes (to_value: unquoted), every value field those digits; to_value of a "
    "128-bit integer outside [i64::MIN, u64::MAX] may refuse without arbitrary_precision (op ival has the exact rule). Verdict: `C06 integer key <ty> <value> "
    "serialises (<route>) as ..., expected \"<digits>\"`. Non-trivial: more than one character.")
PROPS["C14"]["configs"] = dict(quick=PROPS["C14"]["configs"]["quick"] + ["fr"], thorough=PROPS["C14"]["configs"]["thorough"] + ["fr"])
PROPS["C14"]["rule"] += (" Long-number shapes around the 64-bit significand overflow (harness/src/c14num.rs, configurations d / fr / ap - not rv, ud; tags ovf-core / "
    "ovf-var / ovf-straddle / ovf-rand): k = 0..25 leading fractional zeros x 19 / 20 / 21 / 25 / 40 / 800 significant digits (quick: the 800-digit literals with one "
    "rotating prefix per k, under float_roundtrip for k = 1 and 20 only - the exact model needs ~0.2 s per such line) x ten 19-digit prefixes (1844674407370955159, ...160, ...161 twice, ...162, ...163, ...170, 9999999999999999999, 1000000000000000000, "
    "2718281828459045235) with a 20th digit rotating through 5 6 0 9 1 - u64::MAX / 10 = 1844674407370955161 and the next digit > 5 decide where "
    "parse_decimal_overflow takes over -, as 0.<zeros><digits> (core), with a non-zero integer part / one of seven exponent suffixes (none, e5, E-7, e+30, e-320, "
    "E400, e-2147483647) / a minus sign / inside [x], [1, x ,2], {\"k\":x} (one rotating variation per core literal; quick: every second), with the digits straddling "
    "the decimal point (quick: a third of the lengths up to 21), and 250 (thorough 20000) random combinations with prefixes 1844674407370955000..399; each "
    "document into Value and IgnoredAny from str / slice / reader (ops pv / pi, machine model) and into typed targets (op tt, typed model) from rotating sources: "
    "f64, f32, u64 or i64 for the bare literal, Vec<f64> / Vec<f32> for the array forms, BTreeMap<String, f64> for the object form (thorough: f64 from all three "
    "sources, also Vec<Value> and BTreeMap<String, IgnoredAny>); a PANIC observation is a C14 verdict in all of them. Configuration fr (float_roundtrip and "
    "nothing else; added to quick and thorough) runs the NUMBER families only - these shapes, c01::long_seq and c01::exp_edge - since the number conversion is "
    "all the feature changes.")
# ---- fourth round of seeded changes (branch wip-h3): generators / verdicts that were missing
PROPS["C17"]["rule"] += (" Symmetry of == is a C17 verdict: ops mapeqh / mapeq evaluate a == b and b == a; when they differ the observation is "
    "`?asymmetric:<a == b>:<b == a>` and the driver reports `C17 == of maps / values is not symmetric` with the reference-dictionary verdict (before, such a "
    "case was dropped as undecodable). Tags subset-* / superset-* (c17::run_subsets, own generator state): strict subsets and supersets in BOTH orders - "
    "{} / {a} / {a,b} and the results of remove, clear, retain on them (fixed, first); 600 (thorough 6000) maps of 1-7 keys with nested values against the "
    "same history followed by 1-3 removals in every spelling (remove / remove_entry through the map or an occupied entry, swap_remove / shift_remove under "
    "preserve_order, retain by key), retain-below, clear, or 1-3 extra keys (insert / extend / append), the other side optionally rebuilt in another "
    "insertion order - as histories (mapeqh: verdict from the reference association list, equal iff same key set and equal values) and as Values at top "
    "level and nested in [m], {k:m}, [1,{x:[null,m]}], {o:{a:1,m:m,z:true}} (mapeq: Spec.ValueEq.specEq); default and preserve_order.")
PROPS["C02"]["rule"] += (" Tag tie:<place>:<kind>:<top|neg|nested> (c02::ties, float_roundtrip builds, op pv): C07's tie-neighbourhood literals as NUMBER members of "
    "documents - for the midpoint above m x 2^e (exact decimal expansion by big-integer arithmetic): the expansion cut to 17, 18, 19, 20, 21, 22, 25, 30, 40, 80, "
    "200, 400, 767, 768, 769 significant digits (just below the tie) and the cut plus one in its last digit (just above), the whole expansion and its successor, in "
    "three spellings; at 2^-1075 (half the least subnormal: underflow), the two least subnormals, both sides of the least normal, the overflow threshold and its "
    "predecessor (every cut), and at 60 (thorough 600) sampled doubles, a third of them subnormal / in the last binades (three cuts each); each literal at top level "
    "and once more negative or nested in arrays / objects (seven shapes). Literals of more than 120 digits: the quick tier keeps the expansion, its successor and the "
    "768-digit cuts at the two ends of the range, top level only (the driver's float_roundtrip model costs up to 0.7 s on such a case); thorough keeps all at the fixed "
    "places and a tenth of the sampled ones. Verdict: the existing ones of pv (denotation; every number of the returned value against its literal, nearest-even).")
PROPS["C02"]["rule"] += (" Op hist32 <cfg> <two|fld|seq> <str|slice|reader> <first> <second> (c02::hist32, every configuration; driver Drv/C02.lean): a HISTORY on one "
    "serde_json::Deserializer - an f32 is requested from `first`, then a Value is read from the SAME Deserializer: `two` = f32::deserialize(&mut de) then "
    "Value::deserialize(&mut de) until the input ends (a container `first` is not consumed by the failing request and is the first Value read); `fld` = a struct "
    "{gain: Option<f32> via deserialize_with = f32::deserialize(d).ok(), payload: Value}; `seq` = [first, second] through a visitor that tolerates a failing "
    "next_element::<f32>(). Nineteen first items (strings, null, true / false, numbers outside the f32 range, containers: the request fails; numbers: it succeeds - "
    "control) x modes x sources x three fixed payloads, plus 600 (thorough 6000) random payloads (floats that tell f32 rounding from f64 rounding - 0.1, 16777217.0, "
    "123456789.125, 1.2345678901234567e30, -2.5e-40, the f32 range ends, random doubles -, integers, strings, nested in arrays / objects), separators and reader "
    "chunkings. Model: every Value read after the request is what Model.Machine (MachineAp / MachineRv per configuration) returns on that item's text ALONE from the same "
    "kind of source (no state of the Deserializer outlives an item: do_deserialize_f32 clears single_precision on every return). Specification: Spec.Canon.expected of "
    "the item's text, and every number of the value against its literal (Spec.Decimal / Spec.Ieee) - verdict `C02 after an f32 request on the same Deserializer`. "
    "The outcome of the f32 request itself is echoed (spec-only part: C02 does not talk about it).")

# ---- C13 typed targets: class, equality with the clean run and position bound in one statement (closes the honesty-pass item)
PROPS["C13"]["lean_targets"] = PROPS["C13"]["lean_targets"][:-1] + ["SJ.Props.TypedFaultBound"] + PROPS["C13"]["lean_targets"][-1:]
PROPS["C13"]["level_text"] += (" c13_typed_fault_bounded (Props/TypedFaultBound.lean): under a failing reader the typed deserializer returns Io, or "
    "exactly the clean-end outcome, which is a Syntax-classified parser error whose index counts at most the delivered bytes or a visitor "
    "error that is unpositioned or positioned within them (c13_typed_fault_eq + typed_within_input).")

# ---- C09 typed targets: NumberOutOfRange is shifted by the reader at ONE site only, do_deserialize_i128/u128 (closes the honesty-pass item)
PROPS["C09"]["lean_targets"] = PROPS["C09"]["lean_targets"][:-1] + ["SJ.Props.TypedSrcFloat"] + PROPS["C09"]["lean_targets"][-1:]
PROPS["C09"]["partial"] = [x for x in PROPS["C09"]["partial"] if not x.startswith("PeekCode contains NumberOutOfRange for every target")]
PROPS["C09"]["level_text"] += (" Out-of-range numbers, typed targets (Props/TypedSrcFloat.lean over Proofs/TypedSimNoor.lean, the two-run simulation with "
    "NumberOutOfRange removed from the peek-slot codes): c09_typed_out_of_range_float_same - on every schema without an i128 / u128 target "
    "(f64, f32, integers up to 64 bits, Value, and all containers of these, integer map keys included) the slice run ends in NumberOutOfRange "
    "at index i exactly when the reader run does (float conversion sites f64_from_parts / parse_exponent_overflow after 9343bad, and the "
    "64-bit integer sites: peek_error or after eat_char); c09_typed_slice_reader_no128 - there the exceptions of c09_typed_slice_reader are "
    "ExpectedNumericKey, ExpectedSomeValue and visitor errors only; c09_typed_out_of_range_shift_needs_128 - a NumberOutOfRange with two "
    "different indices needs a 128-bit target (the one site is do_deserialize_i128/u128, self.error after buf.parse() failed with the byte "
    "that ended scan_integer128's digits peeked), reader = slice + 1, slice index < len; kernel-checked witnesses on both sides (1e999 as "
    "f64 / Vec<f64> / u64: equal; 2^128 followed by a byte as u128: slice 39, reader 40; c09_typed_out_of_range_128_shift).")

# ---- C11: machine index -> (line, column) of the crate's bookkeeping, one corollary per source (makes the honesty-pass item's composition explicit)
PROPS["C11"]["lean_targets"] = PROPS["C11"]["lean_targets"][:-1] + ["SJ.Props.C11Compose"] + PROPS["C11"]["lean_targets"][-1:]
PROPS["C11"]["partial"] = [x for x in PROPS["C11"]["partial"] if not x.startswith("the tie from the machine's byte index to the readers' line/column bookkeeping")] + [
    "the machine itself does not run Model.LineCol: that the crate calls position_of_index / reads the LineColIterator's counters with "
    "exactly the machine's index is the documented reading of errIdx, tied by correspondence (ops lc3 / lcs). What is a theorem is the "
    "composition on that index: c11_slice_error_linecol / c11_reader_error_linecol (if parseTop fails from a slice resp. reader with index "
    "idx then idx <= len and the bookkeeping model's Position for idx is lineCol bs idx, line <= 1 + newlines of the input, column <= idx)",
]
PROPS["C11"]["level_text"] += (" Composition (Props/C11Compose.lean): c11_slice_error_linecol - for every configuration, both untyped targets "
    "and every byte string, if the parser fails from a slice with index idx then idx <= len, position_of_index(idx) does not panic and is "
    "lineCol bs idx (= the naive memrchr / memchr count), line = 1 + newlines among the first idx bytes <= 1 + newlines of the input, "
    "column <= idx; c11_reader_error_linecol - the same from a reader: the LineColIterator that has handed out idx bytes (last one peeked "
    "or not) shows (line, col) = lineCol bs idx and byte_offset() = idx (c11_within_input + c11_slice_linecol / c11_iter_linecol).")

# ---- C13 writer clause: the writer threaded through the traversal of ser.rs (rewords the honesty-pass item: runBufs is now a theorem
#      about a threaded transcription at the granularity of Formatter calls)
PROPS["C13"]["lean_targets"] = PROPS["C13"]["lean_targets"][:-1] + ["SJ.Props.C13Threaded"] + PROPS["C13"]["lean_targets"][-1:]
PROPS["C13"]["partial"] = [x for x in PROPS["C13"]["partial"] if not x.startswith("writer clause: 'the serializer performs the write_all calls of Model.Ser's buffer list")] + [
    "writer clause: 'the serializer performs the write_all calls of Model.Ser's buffer list in order and stops at the first failing one' "
    "(Model.Write.Writer.runBufs) is no longer only a definition: Model.WriteThreaded transcribes the traversal of ser.rs (impl Serializer "
    "for &mut Serializer, Compound's serialize_element / serialize_key / serialize_value / serialize_field / end, the hand-over to "
    "MapKeySerializer) with &mut self.writer threaded through every Formatter call - a state monad over the Writer whose primitive is "
    "writer.write_all(buf).map_err(Error::io) and whose bind is tri! - and c13_writer_threaded proves toWriterW = toWriterT for every fuel, "
    "formatter, program and writer (c13_writer_threaded_sub: every sub-serialisation from every formatter state; c13_writer_threaded_ok: "
    "= toWriter on programs that serialise). What remains by construction is the INSIDE of a single Formatter method (begin_array ... "
    "end_object, indent's for loop, write_byte_array, format_escaped_str_contents) and of an accepted MapKeySerializer method: each is "
    "taken from Model.Ser as the list of its write_all arguments plus the formatter state afterwards, run as a tri! chain (writesM), not "
    "re-transcribed with the writer threaded; that every write_all there is under tri! or the tail expression is the static scan "
    "c13_every_write_checked, and the whole is tied to the crate by the correspondence op wfault (mutations: a swallowed "
    "map_err(Error::io)?, a closing quote written after a failed fragment, write instead of write_all - all VIOLATION with replay, "
    "docs/WRITER-NOTES.md). An endless Interrupted loop is outcome `hang` (fuel); flush / write_vectored / write_fmt are never called by "
    "to_writer* and are not modelled; collect_str is one write_str of a well-behaved Display (assumption)",
]
PROPS["C13"]["level_text"] += (" The writer threaded through (Props/C13Threaded.lean over Model/WriteThreaded.lean, Proofs/WriteThreaded.lean): "
    "c13_writer_threaded - the traversal of ser.rs with &mut self.writer handed to every Formatter call (state monad over the writer, tri! as "
    "bind, write_all + map_err(Error::io) as the only primitive) leaves the same writer and returns the same Result as runBufs over the "
    "buffer list, for every fuel, formatter, program (also one failing by a non-string key) and writer policy; c13_writer_threaded_sub - "
    "likewise every sub-serialisation from any formatter state (the monad morphism runT: runBufs over an append splits with early exit); "
    "c13_writer_threaded_ok - on programs that serialise this is toWriter. Kernel-checked runs: [1,2] into a writer whose third write "
    "fails (handed `[`, `1`, `,`; accepted `[1`; that io::Error), [{(): null}] (two buffers, then key must be a string; a writer failing "
    "at the second write pre-empts it).")

# ---- C02 o C07 / C08: the float leaves of a parsed Value (branch wip-q4; makes the honesty-pass item's composition a theorem)
PROPS["C02"]["lean_targets"] = PROPS["C02"]["lean_targets"][:-1] + ["SJ.Props.C02Floats"] + PROPS["C02"]["lean_targets"][-1:]
PROPS["C02"]["partial"] = [x for x in PROPS["C02"]["partial"] if not x.startswith("for float literals `canon` is the configured conversion itself")] + [
    "for float literals `canon` is the configured conversion itself (Spec.Canon.numOf = Model.Num.convert*), so c02_value_is_canon alone says "
    "nothing about float accuracy. The composition with C07 / C08 is now a theorem about the parsed value (Props/C02Floats.lean): "
    "c02_floats_nearest_fr (float_roundtrip, input shorter than 2^29 - 20 bytes: the value is canon of a syntax tree of the text in which "
    "EVERY number node that canon turns into a float b has roundNE64 (exact decimal value of that literal) = some b, IsNearestEven64, and "
    "every integer is the literal's exact integer) and c02_floats_5ulp_default (default build, input shorter than 2^30 bytes: every float "
    "leaf finite, sign of its literal, within 5 ulp of the literal's exact value, and equal to roundNE64 of it inside the window <= 15 "
    "significant digits / net exponent within +-22). What remains is only what C07 / C08 themselves leave: these size bounds, and in the "
    "default build 5 ulp (not nearest) outside the window. Both theorems state it twice: over the number nodes of the TREE (AllNums; "
    "duplicate-key members that the object drops included) and over the numbers of the VALUE (every x in numLeaves v is numOf of a number "
    "node p in numNodes t - canon_leaves: canon only copies, objectOf selects among the member values - with NearestNum p x resp. "
    "Within5Num p x). arbitrary_precision has no float leaves (literal text). The driver's verdict `C02 <src>: float "
    "value of literal ...` (every number of the crate's value matched with its literal, judged with Spec.Decimal / Spec.Ieee alone) is unchanged",
]
PROPS["C02"]["assumptions"] = [x for x in PROPS["C02"]["assumptions"] if not x.startswith("float values are whatever the configured conversion returns")] + [
    "float values are whatever the configured conversion returns; their accuracy is C07 / C08, composed with C02 in c02_floats_nearest_fr / "
    "c02_floats_5ulp_default under the size bounds of C07 (input < 2^29 - 20 bytes) resp. C08 (input < 2^30 bytes)"]
PROPS["C02"]["level_text"] += (" Composition with C07 / C08 (Props/C02Floats.lean over Proofs/C02Floats.lean: AllNums = a predicate at every number node of "
    "the syntax tree, derives_allNums = every number node of a derived tree is a well-formed literal no longer than the text): "
    "c02_floats_nearest_fr - under float_roundtrip every float of a parsed Value (text shorter than 2^29 - 20 bytes) is the IEEE nearest-even "
    "binary64 of the exact decimal value of the literal it was parsed from and every integer is the literal's exact integer "
    "(c02_value_is_canon + numOf_fr + c07_other_literals / deFloat64_nearest_all + roundNE64_correct), stated at every number node of the "
    "tree and, through canon_leaves (every number of canon t is numOf of a number node of t), at every number of the value; c02_float_document_nearest_fr - the "
    "value-level reading for a document that is one number; c02_floats_5ulp_default - in the default build every float leaf (text shorter "
    "than 2^30 bytes) is finite, signed as its literal, within 5 ulp of the literal's exact value and correctly rounded inside the exact "
    "window (numOf_eq_numOfLit + c08_finite_signed / c08_within_5ulp / c08_exact_short); kernel-checked examples on "
    "{\"a\":[0.1,-2.5e-3],\"n\":7} in both builds and [12345678901234567890e-300] in the default build.")

# ---- C16: c16_agree_partial is not a separate result (honesty-pass item, reworded; level_text never listed it)
PROPS["C16"]["partial"] = [x for x in PROPS["C16"]["partial"] if x != "c16_agree_partial restates c16_owned_borrowed"] + [
    "c16_agree_partial is c16_owned_borrowed restated as two iffs (its proof is `rw [c16_owned_borrowed]` + Iff.rfl): it is kept because "
    "other files may refer to it, it is listed in Audit/C16.lean for its axioms only, and it is NOT a separate result (level_text does not count it)"]

# ---- C14: the machine's fallback arms restated one by one (Props/C14Fallbacks.lean; honesty item reworded)
PROPS["C14"]["lean_targets"] = PROPS["C14"]["lean_targets"][:-1] + ["SJ.Props.C14Fallbacks"] + PROPS["C14"]["lean_targets"][-1:]
PROPS["C14"]["partial"] = [x for x in PROPS["C14"]["partial"] if not x.startswith("the shape invariant making every remaining model fallback unreachable")] + [
    "the six fallback arms of the byte-step machine (closeArr / closeObj / endStr default arms, step1 on `.lit []`, `.again` twice in step, "
    "numValue's outOfFuel) return ORDINARY error codes (ExpectedSomeValue, ExpectedSomeIdent, NumberOutOfRange), so `never taken` is stated "
    "on the guard pattern of each arm (Arm.taken, Props/C14Fallbacks.lean: c14_no_fallback - no state the run of parseTop dispatches on, "
    "for any environment and input, matches any of them) and read off the functions (c14_closeArr_live, c14_closeObj_live, "
    "c14_keyEnd_live, c14_step_live, c14_numValue_live), not on the outcome; that closeArr / closeObj / endStr / numValue are invoked "
    "only in the modes (and, for numValue, number phases zero / int / frac / exp) named by Arm.taken is by inspection of step1 / stepNum / "
    "finish, not a theorem; the fallbacks of Model.Typed (only `.fuel`: Props/Typed.lean typed_no_panic), of the stream models and of the "
    "serializer models are not part of this enumeration"]
PROPS["C14"]["level_text"] += (" Fallback arms one by one (Props/C14Fallbacks.lean, derived from Proofs/Sound Inv / step1_inv / step_inv, "
    "Proofs.Earliest.step_lit_ne, c14_again_once and c14_no_fuel_machine without re-proving them): Arm enumerates the six fallback arms of "
    "Model/Machine.lean with the Rust site each stands for, Arm.taken is the guard pattern of each; c14_no_fallback - for every environment "
    "(all features, three sources, Value and IgnoredAny targets) and every input p ++ rest, if the machine gets through p into s then "
    "parseTop continues from s, s satisfies Inv for p, s matches no guard pattern (next byte and end of input), and neither does the "
    "intermediate state on which a byte that ended a number is dispatched again; c14_no_fallback_dispatched - the same for every state "
    "step1 is ever evaluated on; c14_closeArr_live / c14_closeObj_live / c14_keyEnd_live / c14_step_live / c14_numValue_live - the live arm "
    "is the one that runs (a NumberOutOfRange from numValue comes from the converter's outOfRange, never from outOfFuel); examples on "
    "{\"k\":[tru + e]} and on an ill-shaped state that does match closeArr's pattern.")

# ---- C06: the quoted-key clause on the whole document (branch wip-r6): Props/C06KeyDoc.lean
PROPS["C06"]["partial"] = [x for x in PROPS["C06"]["partial"] if not x.startswith("the quoted-key clause is proved at MapKey::deserialize_iN")] + [
    "the quoted-key clause is proved at MapKey::deserialize_iN (Model.Typed.keyInt on \"lit\" followed by any rest, which is left unread: "
    "c06_via_value) AND on the whole one-entry document {\"lit\":value} (c06_key_doc: deTypedTop with schema map (int w) s - deserialize_map, "
    "next_key_seed, the key, parse_object_colon, the value, the second next_key_seed, end_map and Deserializer::end unfolded on this "
    "surrounding - for every width, configuration, source and literal, any value schema / text whose own deTyped reads it up to the closing "
    "brace; c06_key_doc_bool for {\"lit\":true}). Not stated: which error class a rejected key produces (the key-level theorem gives none "
    "either), and objects with whitespace around the key or with further entries (the same generic typed-model code, not unfolded). "
    "Op int exercises {\"lit\":null} against the crate (driver field 4 = deTypedTop on that document)"]
PROPS["C06"]["lean_targets"] = PROPS["C06"]["lean_targets"][:-1] + ["SJ.Props.C06KeyDoc"] + PROPS["C06"]["lean_targets"][-1:]
PROPS["C06"]["level_text"] += (" Quoted key on the whole document (Props/C06KeyDoc.lean over Proofs/C06KeyDoc.lean): c06_key_doc - for every integer "
    "width, configuration, source and number literal, from_str::<BTreeMap<iN, S>>({\"lit\":value}) (deTypedTop, schema map (int w) s, any value "
    "schema s and value text read by s's own deTyped up to the closing brace) is the one-entry map lit -> value keyed by the literal's "
    "mathematical value when targetInt is that value, returns no value when targetInt rejects (out of range, -0, fraction, exponent), and "
    "is accepted with x exactly when the key-level textKeyInt is (any rest, any position); c06_key_doc_bool - the instance {\"lit\":true}; "
    "kernel-checked examples {\"-128\":true} / {\"128\":true} / {\"-0\":true} / {\"1.0\":true} / {\"1e2\":true} into i8 / u8 / u16 keys, "
    "{\"340282366920938463463374607431768211455\":true} and 2^128 into u128 keys, {\"255\":[null]} into BTreeMap<u8, Vec<()>>.")

# ---- C12: the undelimited bare scalar and the offset of an error item as theorems over Model.Stream (branch wip-t2): Props/C12Scalar.lean
PROPS["C12"]["partial"] = [x for x in PROPS["C12"]["partial"] if not x.startswith("'an undelimited bare scalar yields an error' and 'byte_offset() of an error item")] + [
    "'an undelimited bare scalar yields an error' and 'byte_offset() of an error item is the first byte of that value' are theorems about "
    "Model.Stream.next (c12_undelimited_scalar_error with c12_undelimited_literal / c12_undelimited_number; next_err_cases, "
    "c12_error_offset_first_byte, c12_error_offset_first_byte_of_code), for Value and IgnoredAny items; their tie to the crate is the "
    "correspondence, as for every model. What the theorems say is what crate and model do, and it is NOT 'every error item fuses the "
    "stream': the TrailingCharacters report of peek_end_of_value after a complete bare scalar leaves byte_offset() just past the scalar, "
    "does not call set_failed, and the next call goes on at the offending byte (truex: TrailingCharacters, then the error of the malformed "
    "value x with byte_offset() at x, then None forever; nullnull: TrailingCharacters, null, None). C12's 'byte_offset() at the first byte "
    "of that value, None forever' is read as a clause about the malformed or truncated value (an error of Deserialize::deserialize), for which "
    "it is proved without exception; the scalar's own error is the only other error item (next_err_cases). Typed items: the same split is "
    "c12_typed_error_fails"]
PROPS["C12"]["lean_targets"] = PROPS["C12"]["lean_targets"][:-1] + ["SJ.Props.C12Scalar"] + PROPS["C12"]["lean_targets"][-1:]
PROPS["C12"]["level_text"] += (" Undelimited scalars and error offsets (Props/C12Scalar.lean, over runPrefix_complete / skipWs_ws / c12_fused / "
    "c12_progress): c12_undelimited_scalar_error - for every environment (Value and IgnoredAny items, every source and configuration), any "
    "non-failed state with unread input w ++ v ++ d :: r, w whitespace, v a derivable value not starting with [ \" { (a number meeting the "
    "range side condition, true, false, null) and d outside Gen.streamDelims (the list of peek_end_of_value, regenerated from src/de.rs) and, "
    "after a number, not continuing the literal (digit . e E; + and - do not continue a complete literal, so 1-2 is covered), next() yields "
    "Err(TrailingCharacters) with index |w ++ v| + 1 past the start, byte_offset() just past v, the stream not failed and its unread input "
    "d :: r; c12_undelimited_literal (true / false / null, no side condition) and c12_undelimited_number (any well-formed literal; in range "
    "for Value items, unconditional for IgnoredAny) are the instances. next_err_cases - an error item of next() from a non-failed state is "
    "either the error of runPrefix on the input after the skipped whitespace, with the new state failed and positioned there, or "
    "TrailingCharacters at e + 1 after a complete value ending at e with a non-delimiter behind it, byte_offset() = e, not failed. "
    "c12_error_offset_first_byte - unread input w ++ r with w the skipped whitespace: every error item that fails the stream (every error of "
    "Deserialize::deserialize) has byte_offset() = position + |w|, the first byte of that value, the input frozen there, and every later "
    "call yields None for any number of calls; the only other error item is the scalar's TrailingCharacters, ending strictly later; "
    "c12_error_offset_first_byte_of_code - the first alternative for every code other than TrailingCharacters. Kernel-checked traces "
    "(item kind, byte_offset(), failed flag per call): truex, 1x, nullnull, ' \\n falsey', 1.5ex, and the controls 1 2 and true].")

PROPS["C19"]["partial"] = [p for p in PROPS["C19"]["partial"] if not p.startswith("c19_nested_capture / c19_top_complete / c19_field_capture on byte sources take")] + [
    "c19_top_complete / c19_nested_capture / c19_nested_capture_map / c19_field_capture on byte sources take the UTF-8 validity of the captured "
    "texts (and decoded keys) as hypothesis (it is what from_utf8 checks); for an input that is valid UTF-8 as a whole the hypothesis is "
    "discharged (Props/C19Utf8.lean: c19_top_complete_valid_input, c19_nested_capture_valid_input, c19_nested_complete_valid_input, "
    "c19_nested_capture_map_valid_input, c19_field_capture_valid_input - every captured text and key literal is cut out of the input at "
    "ASCII bytes). For a byte input that is NOT valid UTF-8 as a whole (e.g. an ill-formed string inside the skipped value of an unknown "
    "struct field) the original iff statements, with the per-capture hypothesis, remain the statement"]
PROPS["C19"]["lean_targets"] = PROPS["C19"]["lean_targets"][:-1] + ["SJ.Props.C19Utf8"] + PROPS["C19"]["lean_targets"][-1:]
PROPS["C19"]["level_text"] += (" UTF-8 of the whole input (Props/C19Utf8.lean over Proofs/C19Utf8.lean, Proofs/C19Utf8Map.lean): "
    "c19_top_complete_valid_input, c19_nested_capture_valid_input (+ c19_nested_complete_valid_input), c19_nested_capture_map_valid_input and "
    "c19_field_capture_valid_input restate the capture theorems for byte inputs that are valid UTF-8 as a whole: the conditions 'captured text "
    "valid UTF-8' / 'decoded key valid UTF-8' disappear from the right-hand sides (a grammar value and a key literal start with an ASCII byte "
    "and are followed by whitespace, a structural byte or the end of the input, so they are cut out at character boundaries - validUtf8_mid; "
    "escape-decoding a valid literal gives valid UTF-8 - decodeItems_utf8).")

# wip-v1: the fuel outcome excluded from C01's range clause by a C01 corollary (Props/C01NoFuel.lean)
PROPS["C01"]["lean_targets"] = PROPS["C01"]["lean_targets"][:-1] + ["SJ.Props.C01NoFuel"] + PROPS["C01"]["lean_targets"][-1:]
PROPS["C01"]["level_text"] += (" Range clause and fuel (Props/C01NoFuel.lean, over c14_no_fuel_literal / c14_no_fuel_roundtrip): "
    "c01_range_clause_no_fuel - for every configuration and every grammatical number literal p, the configured conversion "
    "Spec.Canon.convert cfg p is never outOfFuel and numOf cfg p = none holds iff arbitrary_precision is off and the conversion returns the "
    "genuine outOfRange (c01_range_clause_isSome: the positive form); c01_accepts_iff_no_fuel - c01_accepts_iff with the range clause "
    "spelled out per literal as 'unless arbitrary_precision, convert cfg p is not outOfRange', in which outOfFuel does not occur.")
PROPS["C01"]["partial"] = [p for p in PROPS["C01"]["partial"] if not p.startswith("fuel: numValue maps")] + [
    "fuel: numValue maps the conversion's outOfFuel to NumberOutOfRange and numOf maps it to none; that outcome is excluded for every "
    "grammatical literal by c01_range_clause_no_fuel (from c14_no_fuel_literal / c14_no_fuel_roundtrip), and c01_accepts_iff_no_fuel "
    "restates the iff with a range clause that mentions only outOfRange. The clause is still the model's conversion (Model.Num), not the "
    "exact value: that relation is c01_range_fr / c01_range_default_band"]

# ---- C04: c04_reparse in the default build without the float hypothesis (branch wip-v6)
PROPS["C04"]["lean_targets"] = PROPS["C04"]["lean_targets"][:-1] + ["SJ.Props.C04ReparseShort"] + PROPS["C04"]["lean_targets"][-1:]
PROPS["C04"]["level_text"] += (
    " Reparse, default build (Props/C04ReparseShort.lean): c04_reparse_default_short - without float_roundtrip / arbitrary_precision, under "
    "RyuShortest, every value the parser returns whose floats satisfy ShortFloats is given back by serialise-then-parse, both formatters and "
    "every pair of sources, with no FloatsRoundTrip hypothesis (c04_reparse instantiated with c04_floats_roundtrip_short).")
PROPS["C04"]["partial"] = [
    ("c04_reparse: serialise-then-parse of a parsed value gives it back under the same float hypothesis FloatsRoundTrip (none under "
     "arbitrary_precision: c04_reparse_ap; in the default build it is discharged for parsed values whose floats print as short literals - "
     "ShortFloats - from RyuShortest alone: c04_reparse_default_short; for the other floats of the default build it remains a hypothesis); "
     "that parsed values are well-formed is now hypothesis-free (c04_wf_of_parse)")
    if x.startswith("c04_reparse: serialise-then-parse") else x for x in PROPS["C04"]["partial"]]
