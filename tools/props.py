"""Per-property registry used by ./check (what to build, which configurations, what is trusted)."""

KERNEL = "Lean 4.33 kernel; axioms propext, Classical.choice, Quot.sound only (checked by #print axioms on every listed theorem)"
TIE = "tools/extract.py (regex translator for constants/tables) and the Rust harness + sjdriver correspondence run (differential testing)"

PROPS = {
    "C08": dict(
        lean_targets=["SJ.Props.C08", "SJ.Audit.C08"],
        configs=dict(quick=["d"], thorough=["d", "po"]),
        gen_keys=["pow10.", "Pow10"],
        rule="fixed corpus of range-limit, sign, u64/i64-boundary and exponent-overflow literals; every power of ten "
             "1e-400..1e400 in every spelling; random mantissas of 1-40 digits x exponents in +-400 in every spelling "
             "(integer part only, fraction only, split, leading/trailing zeros, e/E, +/-/none, leading zeros in the "
             "exponent, no exponent at all); shortest ({:e}) and Display representations of f64 values for every binary "
             "exponent field 0..2046; the 15-digit / exponent-22 exactness frontier (1..17 digits x net exponents "
             "-25..25) densely; +-120 (thorough +-600) last-place neighbourhoods of 1e308, f64::MAX, 2^1024, the rounding "
             "threshold, f64::MIN_POSITIVE, 5e-324 and 2^-1075 at 17/19/20/22 digits; u64/i64 boundaries, long integers "
             "(20-330 digits), integers with more than 24/53 significant bits (f32 target); exponents around and beyond "
             "i32. Every literal goes through from_str, from_slice, from_reader and Value::as_f64 (f64) and the three "
             "sources for f32. A case is non-trivial when the literal leaves the u64/i64 integer path (fraction, "
             "exponent, more than 19 digits, -0); distinct = distinct case lines.",
        trusted_base=[KERNEL, TIE,
                      "rustc evaluates the float literals 1e0..1e308 by correct rounding; the hardware f64 *, / and the "
                      "casts u64/i64 -> f64, f64 -> f32, u64/i64 -> f32 are IEEE-754 round-to-nearest-even (modelled as "
                      "'exact result, rounded once'; confirmed bit-for-bit by the correspondence run)",
                      "serde's f64/f32 primitive visitors (visit_u64/visit_i64/visit_f64 = `as` casts) and "
                      "Number::as_f64 modelled by their source"],
        assumptions=["IEEE-754 conformance of rustc constant evaluation and of the target's f64 multiply/divide/convert",
                     "i32 exponent arithmetic does not wrap: literals shorter than 2^30 digits"],
        partial=["c08_within_5ulp_partial: proved for one table operation (|exponent| <= 308; for divisions exact value >= "
                 "2^-1021); missing: the `f /= 1e308` stepping below 1e-308, subnormal results, and the lift to literals "
                 "whose digits beyond u64 are dropped - covered by the exact-rational oracle sweep only",
                 "c08_overflow_direction_partial: proved at f64_from_parts (rejected => exact >= 2^1024-2^970-2^972; exact >= "
                 "2^1024+2^972 => rejected); missing: lift through digit dropping and the parse_exponent_overflow path; "
                 "'every value >= 2^1024 is rejected' is FALSE on the pinned code (known finding C08-F1)",
                 "c08_underflow_zero_partial: proved at f64_from_parts for every exponent (exact value <= 2^-1076 => +-0, and "
                 "every zero significand => +-0); missing: the lift to literals with dropped digits; values in "
                 "(2^-1076, 2^-1075) may legitimately give the least subnormal (1 ulp)",
                 "c08_f32_once: holds for float-path literals and integers below 2^53; FALSE for u64/i64-path integers above "
                 "2^53 (serde casts the integer directly; known finding C08-F2, kernel-checked counterexample "
                 "c08_f32_once_fails_on_large_int)"],
        technique="Lean 4: IEEE-754 round-to-nearest-even defined on exact naturals and proved against a 'nearest finite "
                  "double, ties to even, overflow from 2^1024-2^970' specification; exact-IEEE transcription of "
                  "f64_from_parts and the digit collection; POW10 table, overflow! macro and the 1e308/308 constants "
                  "re-extracted from src/de.rs each run and the table facts re-proved by kernel evaluation; bit-exact "
                  "differential run of the model and exact-rational specification against the crate",
        level_text="Machine-checked Lean 4 theorems over an exact-integer IEEE-754 semantics: roundNE64/roundNE32 are "
                   "round-to-nearest-even (c08_roundNE64_spec, full minimality form); for every grammatical literal with at "
                   "most 15 significant digits and net decimal exponent within +-22 the model of from_str::<f64> returns the "
                   "correctly rounded value (c08_exact_short, and c08_exact_short_parts for any significand < 2^53); every "
                   "result is finite and carries the literal's sign incl. -0 (c08_finite_signed); f32 = f64 result cast once "
                   "on the float path (c08_f32_once); overflow direction, zero/underflow and the 5-ulp bound are proved at "
                   "f64_from_parts for table exponents (…_partial). The 309-entry POW10 table, the overflow! macro body and "
                   "the loop constants are regenerated from the source and re-proved on every run; the model is bit-exact "
                   "against the crate on all generated literals and the exact-rational specification is evaluated on the "
                   "crate's own outputs.",
        level_note="Trusted: Lean kernel + propext/Classical.choice/Quot.sound; extract.py; harness/driver comparison; IEEE "
                   "conformance of rustc literals and hardware ops; serde's primitive visitors. Partial: c08_within_5ulp_partial "
                   "(|e|<=308, normal results), c08_overflow_direction_partial and c08_underflow_zero_partial (stated at "
                   "f64_from_parts). Two open known findings on the pinned tree: C08-F1 (literals in [2^1024, 2^1024+2^972) "
                   "can be accepted as f64::MAX) and C08-F2 (f32 from u64/i64-path integers is a direct cast, not f64 rounded "
                   "once).",
    ),
    "C18": dict(
        lean_targets=["SJ.Props.C18", "SJ.Audit.C18"],
        configs=dict(quick=["d"], thorough=["d", "po", "ap"]),
        gen_keys=["pointer."],
        rule="fixed index/escape corpus; every pointer of length <= 5 (thorough 6) over the alphabet /~01a- against a "
             "document with every escape-relevant key; every existing path of random documents in RFC-order, "
             "wrong-order and raw spellings, single-edit mutations and random pointers. A case is non-trivial when "
             "the pointer has at least one reference token; distinct = distinct (document, pointer, op) lines.",
        trusted_base=[KERNEL, TIE,
                      "str::split / str::replace / str::parse::<usize> / Vec::get / Map::get modelled by their documented semantics"],
        assumptions=["Rust std string and slice primitives behave as documented",
                     "json! macro expansion (rustc macro matcher) is exercised by correspondence only"],
        partial=["Index/IndexMut/get/take, PartialEq with primitives and json! are not yet modelled (correspondence pending)"],
        technique="Lean 4 theorem: model of Value::pointer/pointer_mut = RFC 6901 evaluator for all values and pointers; "
                  "constants regenerated from source; differential run against the crate",
        level_text="Machine-checked Lean 4 theorems (c18_pointer, c18_pointer_mut, c18_unescape, c18_parse_index) state that the "
                   "transcription of Value::pointer / pointer_mut equals an RFC 6901 reference evaluator for every value and every "
                   "pointer string. The replace chain, split character and parse_index guards are re-extracted from src/value/mod.rs "
                   "on every run, and the model is run against the real crate on generated and exhaustive short pointers.",
        level_note="Trusted: Lean kernel + propext/Classical.choice/Quot.sound; extract.py; the harness/driver comparison; std "
                   "string primitives (split, replace, parse::<usize>) modelled by documented semantics. Not yet covered: "
                   "Index/IndexMut/get/take, PartialEq with primitives, json! macro.",
    ),
}

# properties not claimed yet (kept current as checks are added)
NOT_APPLICABLE = [
    dict(property_id=f"C{i:02d}", reason="check under construction in this build phase; not yet claimed (see DESIGN.md §11 build order)")
    for i in range(1, 21) if f"C{i:02d}" not in PROPS
]
