"""Per-property registry used by ./check (what to build, which configurations, what is trusted)."""

KERNEL = "Lean 4.33 kernel; axioms propext, Classical.choice, Quot.sound only (checked by #print axioms on every listed theorem)"
TIE = "tools/extract.py (regex translator for constants/tables) and the Rust harness + sjdriver correspondence run (differential testing)"

PROPS = {
    "C05": dict(
        lean_targets=["SJ.Props.C05", "SJ.Audit.C05"],
        configs=dict(quick=["d"], thorough=["d"]),
        gen_keys=["escape.", "hex.", "swar.", "Escape", "Hex", "Swar"],
        allowed_axioms=[r".*\._native\.bv_decide\.ax_.*"],
        rule="esc/escbufs: every Unicode scalar value as a one-character string (quick: all below U+3000, every 251st, "
             "surrogate-adjacent and plane boundaries, a random 1%), every byte < 0x80 at every offset of strings of every "
             "length 0..24 over ASCII and mixed 1-4-byte filler, adjacent/leading/trailing escapes, random mixtures up to 500 "
             "chars; hex4/hex4s: all 65 536 values in lower, upper and random mixed case, all 256 substitutions at each of "
             "the 4 positions of 7 base groups, 10^5 (thorough 10^7) random four-byte groups, through ByteBuf (exact u16 via "
             "WTF-8) and String from str/slice/reader; scan: each of \" \\ 00 0a 1f 20 7f 80 ff c3 at every offset of contents "
             "of every length 0..24 (ASCII and mixed filler), closed and unclosed, after 0..8 spaces, targets &str/String/"
             "ByteBuf from str/slice/reader (quick: &str-from-slice always plus one rotating combination), two-special and "
             "multi-chunk contents, random contents. Non-trivial: esc — the string has a byte that must be escaped or a "
             "non-ASCII character; hex4 — every group; scan — non-empty content; distinct = distinct case lines.",
        trusted_base=[KERNEL + "; plus bv_decide's per-call axioms (SAT certificate checked by compiled code, Lean.ofReduceBool "
                      "trust) for the two SWAR chunk lemmas and the two hex OR/shift lemmas",
                      TIE,
                      "memchr::memchr2 specified as 'index of the first occurrence of either needle' (external crate)",
                      "u64::from_le_bytes / wrapping_sub / trailing_zeros / chunks_exact modelled by their documented semantics on BitVec 64"],
        assumptions=["memchr2 returns the first occurrence of either needle",
                     "Rust integer primitives (from_le_bytes, wrapping_sub, trailing_zeros, `as` casts, i32 shifts) behave as documented",
                     "io::Write::write_all on Vec / the recording writer delivers each buffer whole",
                     "the build uses fast_arithmetic=\"64\" (64-bit Chunk), as on the checked platform"],
        partial=["the decode side (c05_decode_spec, c05_roundtrip, c05_borrowed, c05_bytes_target, c05_str_source_utf8) is provided "
                 "by the lead's byte-step parser machine and is not part of this branch; here: serializer escaping "
                 "(c05_escape_table, c05_escape_spec, c05_escape_buffers_utf8_cut), decode_four_hex_digits (c05_hex_tables, "
                 "c05_hex4_spec) and the SWAR scanner (c05_swar_first_escape, c05_swar_in_bounds, c05_first_escape_char)"],
        technique="Lean 4 theorems over all byte strings / all 2^32 hex groups / all slices and start indices; ESCAPE, HEX0/HEX1 "
                  "pieces and SWAR constants regenerated from source each run; bv_decide for the 64-bit chunk facts; differential "
                  "run of escaping, \\u decoding and the scanner against the crate",
        level_text="Machine-checked Lean 4 theorems: the table-driven format_escaped_str equals the statement's per-character "
                   "escaping for every string and cuts its buffers only at ASCII bytes; decode_four_hex_digits equals the "
                   "positional hex value or None for all 2^32 groups; SliceRead::skip_to_escape (64-bit SWAR + memchr2 branch + "
                   "slow tail) returns the first escape index for every slice, index and mode. Tables and constants are "
                   "re-extracted from src/ser.rs and src/read.rs on every run and the models are run against the real crate.",
        level_note="Trusted: Lean kernel + propext/Classical.choice/Quot.sound + bv_decide axioms (4 calls); extract.py; the "
                   "harness/driver comparison; memchr2 and Rust integer primitives by documented semantics. Partial: the string "
                   "decoder itself (escapes, surrogate pairing, UTF-8 validation, borrowing) belongs to the parser machine and "
                   "is not covered by this branch.",
    ),
    "C03": dict(
        lean_targets=["SJ.Props.C03", "SJ.Audit.C03"],
        configs=dict(quick=["d"], thorough=["d", "po", "ap", "fr"]),
        gen_keys=["ser."],
        rule="fixed corpus of hand-written serializer programs (every serde::Serializer entry point, every key kind valid and "
             "invalid, empty/nested containers incl. an empty struct variant inside nested maps, None-hinted empty seq/map), then "
             "random programs from gen_prog (all constructors, depth 0-4, hints None/exact, adversarial strings, float specials), "
             "each through to_vec/to_string/to_writer (serc), PrettyFormatter::with_indent for indents '', ' ', tab, two spaces, 'ab' "
             "(serp), and a recording io::Write (serbufs: exact buffer list); ill-hinted programs through the recorder only "
             "(serbufx: model comparison); Values through Display / {:#} / to_string / to_string_pretty (disp). A case is "
             "non-trivial when the program contains a container, bytes or a string needing an escape (disp: array or object); "
             "distinct = distinct case lines.",
        trusted_base=[KERNEL, TIE,
                      "itoa and ryu are parameters (structure Ext) with recorded assumptions ExtOK: itoa prints plain decimal digits, "
                      "ryu prints finite floats as RFC 8259 numbers (the ryu text of every generated float is checked to be a number "
                      "by the executable specification on each run; that it is the shortest round-tripping decimal is not checked here)",
                      "serde's default SerializeMap::serialize_entry (= serialize_key; serialize_value), Vec<T>::serialize "
                      "(serialize_seq(Some(len))), io::Write::write_all, fmt::Formatter adapter of Display: by documented semantics",
                      "lean/SJ/Spec/Recognise.lean (independent recursive-descent recogniser used to check the implementation's bytes) "
                      "is proved sound against Grammar.JsonText (c03_recognise_sound); its completeness is not needed"],
        assumptions=["ExtOK: ext.itoa n = Spec.Number.decimal n; finite floats: Grammar.IsNumber (ext.ryu64 b) / (ext.ryu32 b)",
                     "programs obey the serde contract on length hints (None or Some(exact)); type names are not the private "
                     "$serde_json::private::Number / RawValue tokens (feature-gated special cases, out of scope except Number's own impl)",
                     "collect_str's Display writes its text in one write_str call (buffer-level statements only)"],
        partial=["c03_display_partial: Display/{:#} are the two serializers by definition in the model; the fmt adapter is covered by "
                 "the correspondence op `disp` only",
                 "c03_utf8_partial: proved per string (every buffer of format_escaped_str is ASCII or a fragment cut at ASCII bytes); "
                 "lift to whole programs and a ValidUtf8 conclusion pending the shared Spec.Utf8"],
        technique="Lean 4 theorems over all serializer programs: the transcription of Serializer/Compound/MapKeySerializer with both "
                  "Formatters (exact write_all buffer lists, State / current_indent / has_value bookkeeping) refines a structural "
                  "printer of the data-model image; the printer's output is derivable in the RFC 8259 grammar and denotes the image; "
                  "formatter literals regenerated from src/ser.rs; differential run against the crate with an independent recogniser",
        level_text="Machine-checked Lean 4 theorems (c03_compact, c03_error_iff, c03_pretty_layout, c03_hints, c03_value, "
                   "c03_no_underflow, c03_recognise_sound) state for every serializer program with exact-or-absent length hints and every indent string "
                   "that the modelled serializer either fails exactly when a map key is not string-like (same error class) or emits "
                   "buffers whose concatenation equals the structural compact/pretty layout of the program's data-model image, which "
                   "is derivable in the RFC 8259 grammar and denotes that image; hints do not change the buffers. The byte strings "
                   "written by Formatter/PrettyFormatter are re-extracted from src/ser.rs on every run and the model is compared with "
                   "the real crate buffer by buffer on generated programs in four feature configurations, the crate's bytes being "
                   "re-parsed by an independent recogniser and compared with the image.",
        level_note="Trusted: Lean kernel + propext/Classical.choice/Quot.sound; extract.py; harness/driver comparison; itoa/ryu as "
                   "assumed parameters; serde default methods by documented semantics. Partial: Display adapter (correspondence "
                   "only), UTF-8 validity (per string only).",
    ),
    "C17": dict(
        lean_targets=["SJ.Props.C17", "SJ.Audit.C17"],
        configs=dict(quick=["d", "po"], thorough=["d", "po"]),
        gen_keys=["map."],
        rule="operation histories on serde_json::Map over the keys a, b, c (and ` which sorts first): every history of "
             "length <= 3 over the full alphabet (48 operations by default, 63 under preserve_order: every method incl. "
             "entry API, retain, append, extend, clear, sort_keys, Index/IndexMut, get_mut, iterators, and under "
             "preserve_order shift_insert / swap_* / shift_*), every history of length 4 over a core alphabet with at "
             "least one instance of every operation kind (24 / 30); thorough adds every history of length 5 and 6 over "
             "the state-changing kinds (13 / 17; length 6 under preserve_order: every 5th). Plus random histories of "
             "5..300 operations over 4..16 keys with nested values; == and Hash between maps built by all pairs of "
             "histories of length <= 2 and by random / rebuilt-in-another-order histories; == / SipHash / recorded hasher "
             "calls / sort_all_objects on random nested values, their reordered and sign-of-zero rewritings and "
             "perturbations. Each history line records every return value, the forward iteration after every operation "
             "and the backward iteration at the end. A history is non-trivial when it has at least two operations; a "
             "value pair when the two encodings differ; distinct = distinct case lines.",
        trusted_base=[KERNEL, TIE,
                      "BTreeMap / IndexMap (indexmap 2.x) modelled by their documented semantics on the entry sequence "
                      "(insert, remove, swap_remove, shift_remove, shift_insert, extend, append, retain, sort_unstable_keys, ==)",
                      "derive(PartialEq, Hash) on Value/Number and std's Hash impls for str, slices, tuples, BTreeMap modelled as "
                      "the sequence of Hasher::write_* calls (checked against a recording Hasher on every generated value)"],
        assumptions=["BTreeMap and IndexMap behave as documented (exercised by the correspondence run in both configurations)",
                     "values stored in a Number are finite (Number::from_f64 rejects NaN/inf; the parser never produces them)",
                     "retain predicates are pure functions of (key, value)"],
        partial=[],
        technique="Lean 4 theorems over two store models (ascending association list = BTreeMap, insertion-ordered list = "
                  "IndexMap) and a Value model: refinement of a function-valued reference dictionary for every method and "
                  "every history, order invariants, == <-> equality of abstractions, hasher input as a function of the "
                  "abstraction, sort_all_objects; feature-dependent forwards of map.rs re-extracted every run; differential "
                  "run of operation histories against the crate in both configurations",
        level_text="Machine-checked Lean 4 theorems: c17_refines_btree/_index(_history) (every Map method, on every state reachable "
                   "by any history, returns what the reference dictionary Bytes -> Option V returns and leaves its contents); "
                   "c17_order_btree (iteration strictly ascending, backward = reverse) and c17_order_index(_nodup,_sort_keys) "
                   "(key sequence changes exactly by the documented insertion/swap/shift rules, no duplicate keys); "
                   "c17_eq_order_free(_btree,_index,_value) (== iff equal abstractions, at every depth, +0.0 == -0.0); "
                   "c17_hash (equal values make identical Hasher calls; preserve_order sorts entries, Number normalises zero); "
                   "c17_sort_all (ascending at every depth, == unchanged). Which IndexMap removal remove/remove_entry forward "
                   "to, append/sort_keys/Hash bodies and Number's Hash are re-extracted from src on every run and consumed by "
                   "the model; the models are replayed against the real Map on exhaustive short and long random histories.",
        level_note="Trusted: Lean kernel + propext/Classical.choice/Quot.sound; extract.py; harness/driver comparison; BTreeMap and "
                   "IndexMap are modelled by documented semantics, not verified themselves; SipHash itself is not modelled "
                   "(the theorem is about hasher input; the harness checks equal input => equal DefaultHasher output). "
                   "arbitrary_precision numbers are modelled (string equality) but not exercised (configs d, po).",
    ),
    "C18": dict(
        lean_targets=["SJ.Props.C18", "SJ.Audit.C18"],
        configs=dict(quick=["d"], thorough=["d", "po", "ap"]),
        gen_keys=["pointer."],
        rule="fixed index/escape corpus; every pointer of length <= 5 (thorough 6) over the alphabet /~01a- against a "
             "document with every escape-relevant key; every existing path of random documents in RFC-order, "
             "wrong-order and raw spellings, single-edit mutations and random pointers. A case is non-trivial when "
             "the pointer has at least one reference token; distinct = distinct (document, pointer, op) lines.",
        trusted_base=[KERNEL, TIE,
                      "str::split / str::replace / str::parse::<usize> / Vec::get / Map::get modelled by their documented semantics"],
        assumptions=["Rust std string and slice primitives behave as documented",
                     "json! macro expansion (rustc macro matcher) is exercised by correspondence only"],
        partial=["Index/IndexMut/get/take, PartialEq with primitives and json! are not yet modelled (correspondence pending)"],
        technique="Lean 4 theorem: model of Value::pointer/pointer_mut = RFC 6901 evaluator for all values and pointers; "
                  "constants regenerated from source; differential run against the crate",
        level_text="Machine-checked Lean 4 theorems (c18_pointer, c18_pointer_mut, c18_unescape, c18_parse_index) state that the "
                   "transcription of Value::pointer / pointer_mut equals an RFC 6901 reference evaluator for every value and every "
                   "pointer string. The replace chain, split character and parse_index guards are re-extracted from src/value/mod.rs "
                   "on every run, and the model is run against the real crate on generated and exhaustive short pointers.",
        level_note="Trusted: Lean kernel + propext/Classical.choice/Quot.sound; extract.py; the harness/driver comparison; std "
                   "string primitives (split, replace, parse::<usize>) modelled by documented semantics. Not yet covered: "
                   "Index/IndexMut/get/take, PartialEq with primitives, json! macro.",
    ),
}

MACHINE_TB = [KERNEL, TIE,
              "hand-written byte-step model of de.rs/read.rs (Model.Machine, Model.Num) tied to the crate by the correspondence run on all three sources",
              "io::Bytes delivers the reader's bytes in order (chunking-independent); memchr/SWAR scanning abstracted as a naive scan (C05 proves the SWAR scanner equal to it)"]

PROPS["C10"] = dict(
    lean_targets=["SJ.Props.C10", "SJ.Audit.C10"],
    configs=dict(quick=["d", "ap"], thorough=["d", "ap", "fr", "po"]),
    gen_keys=["error.", "de."],
    rule="every prefix (length 0..n) of every accepted text among: a fixed corpus of number/escape/container shapes, "
         "grammar-directed random documents, every accepted token sequence of length <= 3 (thorough 4, sharded) over the "
         "41-token structural alphabet; targets Value and IgnoredAny; sources str, slice, reader. One case = one "
         "(document, target, source) with all its prefixes; non-trivial = document longer than one byte; distinct = distinct lines.",
    trusted_base=MACHINE_TB,
    assumptions=["typed targets (128-bit integers, quoted numeric/bool keys, raw values) are covered by correspondence only until the typed machine exists",
                 "std io::Bytes semantics"],
    partial=["c10_prefix_value_partial: the Value-target theorem carries the exception c = NumberOutOfRange (prefix = complete out-of-range number literal) — open known finding C10-out-of-range-number-prefix",
             "typed targets and stream iteration: not yet modelled"],
    technique="Lean 4 theorems over a byte-step machine model (fold decomposition + exhaustive analysis of the end-of-input table "
              "against the classify arms regenerated from error.rs) + differential prefix sweep against the crate",
    level_text="Machine-checked: for the Value and IgnoredAny targets, in every feature configuration and for every input source, "
               "every prefix of an accepted text is accepted or fails at the end of the prefix with an Eof-classified error "
               "(c10_prefix_ignored; c10_prefix_value_partial with the single inherent NumberOutOfRange exception made explicit). "
               "classify and the error codes are regenerated from src/error.rs each run; the machine is compared with the crate on "
               "every prefix of generated and exhaustive short documents, and the property's own predicate is evaluated on the crate's outputs.",
    level_note="Trusted: Lean kernel + propext/Classical.choice/Quot.sound; extract.py; harness/driver; the hand-written machine model "
               "(validated by correspondence, 0 disagreements). Typed targets, 128-bit, map keys, raw values and streams are not yet inside the model.",
)

PARSE_RULE = ("every token sequence of length <= 3 (thorough: 4, 1/4 sampled by seed) over the 43-token structural alphabet "
              "(brackets, separators, quote, space/newline, escape pieces, hex digits, digits, sign/point/exponent, literals and "
              "partial literals, non-JSON bytes, control and multi-byte bytes, surrogate escapes, composite tokens); depth profiles "
              "1,2,126..130 over array/object/alternating/random mixes; grammar-directed random documents with whitespace and "
              "spelling variety and 3 single-byte/structural mutations each; each input parsed into Value (pv) and IgnoredAny (pi) "
              "from &str, &[u8] and an io::Read with a random chunking schedule. Non-trivial = input longer than one byte; "
              "distinct = distinct (op, config, input) lines.")

PROPS["C09"] = dict(
    lean_targets=["SJ.Props.C09", "SJ.Audit.C09"],
    configs=dict(quick=["d", "ap"], thorough=["d", "ap", "fr", "po"]),
    gen_keys=["error.", "de."],
    rule=PARSE_RULE + " C09 adds multi-line documents (spaces turned into newlines) with 4 mutations each; the three sources' "
         "outcomes (message, category, line, column, value) are compared with each other and with the model.",
    trusted_base=MACHINE_TB,
    assumptions=["io::Bytes yields the reader's bytes one at a time in order, whatever the chunking (std)",
                 "typed targets, raw values and stream iteration are not yet inside the model"],
    partial=["c09_str_slice for the Value target (needs: decoded strings of a UTF-8 input are UTF-8) — carried by correspondence",
             "typed targets (|delta index| <= 1), 128-bit, raw, stream byte_offset: correspondence pending"],
    technique="Lean 4 theorem: the byte-step machine's outcome is independent of the slice/reader source (step-wise equality + all "
              "error sites include the offending byte) + three-source differential run against the crate",
    level_text="Machine-checked: c09_slice_reader — for every configuration, both untyped targets and every byte string the slice and "
               "reader sources give the same value or the same error code at the same position (hence message, category, line, "
               "column); c09_str_slice_ignored for skipped content. The crate is run on every generated input from all three "
               "sources with random chunkings and the outcomes are compared with each other (spec) and with the model.",
    level_note="Trusted: Lean kernel + 3 standard axioms; extract.py; harness/driver; hand-written machine model validated by "
               "correspondence. Two genuine position defects found by this check were repaired in /repo (fix: commits 28defde, 9343bad).",
)

PROPS["C11"] = dict(
    lean_targets=["SJ.Props.C11", "SJ.Audit.C11"],
    configs=dict(quick=["d"], thorough=["d", "ap", "fr"]),
    gen_keys=["error.", "de."],
    rule=PARSE_RULE + " C11 adds multi-line documents with 4 mutations each; the reported (line, column) of every error is checked "
         "against an independent recursive-descent scanner (Spec.Pos) that computes the first byte after which no continuation is JSON.",
    trusted_base=MACHINE_TB,
    assumptions=["side-condition errors (surrogates, UTF-8, number range, depth) are only required to lie within the input"],
    partial=["c11_earliest (the prefix before the reported byte is still viable) is not proved yet; the correspondence checks it "
             "against Spec.Pos on every generated input"],
    technique="Lean 4 theorems on the byte-step machine (errors are raised by the step that reads the offending byte and are stable "
              "under extension; Eof errors only at end of input; line/column arithmetic) + independent positioned scanner as oracle",
    level_text="Machine-checked: c11_dead (a grammar error reported at byte count idx dooms the prefix of length idx: every continuation "
               "fails identically), c11_eof_at_end, c11_within_input, c11_line / c11_col_* (the line/column formulas of the statement), "
               "for Value and ignored targets, all configurations and sources. Every error position the crate reports on generated "
               "non-JSON inputs is compared with the model and with an independent first-dead-byte scanner.",
    level_note="Trusted: Lean kernel + 3 standard axioms; extract.py; harness/driver; machine model validated by correspondence; "
               "Spec.Pos (independent recursive-descent scanner) as executable oracle. c11_earliest not yet a theorem.",
)

PROPS["C14"] = dict(
    lean_targets=["SJ.Props.C14", "SJ.Audit.C14"],
    configs=dict(quick=["d"], thorough=["d", "ud", "ap"]),
    gen_keys=["de."],
    rule=PARSE_RULE + " C14 adds 20k (thorough 200k) random byte strings biased to JSON punctuation, and ten pathological inputs "
         "(10^6-deep arrays open/balanced, 2*10^5-deep objects, 4 MB string, 10^6 escapes, 10^6-digit integer/fraction/exponents, "
         "10^6-element array) each through Value (slice, reader) and IgnoredAny under catch_unwind.",
    trusted_base=MACHINE_TB,
    assumptions=["memory safety of compiled unsafe blocks, real stack consumption and allocator behaviour are runtime properties outside any model (partial by nature)"],
    partial=["c14_utf8 (every returned String is valid UTF-8), c14_no_fuel (number conversion never runs out of fuel) and the shape "
             "invariant making the remaining model fallbacks unreachable are not proved yet",
             "typed targets / enum wrappers / stream depth restoration: not yet modelled"],
    technique="Lean 4 invariants over the byte-step machine (stack height < 128 for every reachable state, re-dispatch happens at most "
              "once, termination by structural recursion) + pathological-input runs of the crate under catch_unwind",
    level_text="Machine-checked: c14_depth_bounded (every reachable state of a Value parse has at most 127 open containers, so the real "
               "recursion is bounded), c14_limit_hit (opening the 128th container is RecursionLimitExceeded at that byte), "
               "c14_again_once (the only unreachable!-style fallback of step is unreachable); termination by construction. The crate "
               "is run on random bytes, mutated documents, depth profiles and megabyte/10^6-deep inputs with catch_unwind.",
    level_note="Trusted: Lean kernel + 3 standard axioms; extract.py (remaining_depth = 128 is regenerated); harness/driver; machine "
               "model. Partial by nature: actual memory safety and stack usage of compiled code cannot be exhibited by a model.",
)

PROPS["C12"] = dict(
    lean_targets=["SJ.Props.C12", "SJ.Audit.C12"],
    configs=dict(quick=["d"], thorough=["d", "ap", "fr"]),
    gen_keys=["error.", "de."],
    rule="StreamDeserializer histories of next()/byte_offset(), continuing 3 calls past the end and past errors: a fixed corpus of "
         "44 streams (separators, undelimited scalars, truncations, \\u cut-offs), every token sequence of length <= 2 (thorough 3) "
         "over the structural alphabet, concatenations of 1-4 generated values with every separator choice (none, space, newline, "
         "mixed), each also truncated at a random position and corrupted by one mutation; item types Value and IgnoredAny; sources "
         "str, slice, reader. One case = one (stream, item type, source, call count); non-trivial = stream longer than one byte.",
    trusted_base=MACHINE_TB,
    assumptions=["byte_offset() after the stream has failed is not constrained by the property and is not compared",
                 "typed item types are not yet inside the model"],
    partial=["c12_values (the yielded values/offsets are exactly those of the grammar's decomposition) awaits parser completeness; "
             "until then it is checked on every generated stream against the independent scanner Spec.Pos + Spec.Canon"],
    technique="Lean 4 theorems over a model of Iterator::next on top of the byte-step machine (fusedness by invariant over call "
              "histories, progress, Eof errors only at end of input) + history-level differential run against the crate and an "
              "independent grammar-based oracle",
    level_text="Machine-checked: c12_fused (after a failed value every later next() is None, for any number of calls), c12_error_fails, "
               "c12_progress (each yielded value consumes at least one byte: next() terminates and yields at most n values), "
               "runPrefix_eof_at_end (an Eof error is reported only at the end of the available input). The delimiter and "
               "self-delineation sets are regenerated from src/de.rs. Whole histories (items and byte offsets) of the crate are "
               "compared with the model and with an independent grammar-based expectation.",
    level_note="Trusted: Lean kernel + 3 standard axioms; extract.py; harness/driver; machine and stream models validated by "
               "correspondence (0 disagreements).",
)

PROPS["C13"] = dict(
    lean_targets=["SJ.Props.C13", "SJ.Audit.C13"],
    configs=dict(quick=["d"], thorough=["d", "ap", "po"]),
    gen_keys=["error.", "de.", "ser."],
    rule="reader side: 15 fixed + 150 (thorough 1500) generated/mutated documents, a reader that fails at every byte k in 0..=len "
         "with one of 5 error kinds, a random chunking schedule and interleaved Interrupted results, targets Value and IgnoredAny "
         "(modelled) and five typed targets ((i32,i32), Vec<u8>, BTreeMap<String,Vec<i64>>, Option<(String,bool)>, [();3]; "
         "spec only), each also run with a clean end of input after the same k bytes; stream iteration over a failing reader; "
         "writer side: 300 (thorough 3000) serializer programs x {compact, pretty} with a writer accepting m bytes for m in "
         "0..=len+1 (sampled for long outputs) under random short-write patterns and Interrupted, recording every buffer handed "
         "to write_all. Non-trivial = k > 0 / m > 0; distinct = distinct lines.",
    trusted_base=MACHINE_TB + ["serializer model Model.Ser (C03) for the writer side"],
    assumptions=["io::Bytes retries Interrupted and yields bytes in order; Write::write_all loops over short writes and retries "
                 "Interrupted (std) — exercised by the harness, not modelled",
                 "typed targets are judged by the property's predicate against the same bytes followed by a clean end of input"],
    partial=["whole-program lift of 'every buffer is valid UTF-8 on its own' (c03_utf8_partial + c05_escape_buffers_utf8_cut give it per "
             "string; the correspondence checks every recorded buffer with Spec.Utf8.validUtf8)",
             "typed targets have no model yet"],
    technique="Lean 4 theorems: a reader fault instead of end of input turns the fold's finish into Io unless a delivered byte was "
              "already rejected (c13_read, by induction over the fold); writer prefix law over the serializer model's buffer list; "
              "fault-injecting readers/writers against the crate",
    level_text="Machine-checked: c13_read (reader failing after bs: the result is Io iff no delivered byte is rejected, else exactly the "
               "error those bytes produce from any source), c13_read_error_class (that error is Syntax-classified and positioned "
               "within the delivered bytes; never a value, never Eof), c13_write_prefix / c13_write_is_prefix (accepted bytes are the "
               "first m bytes of the fault-free output; failure iff m < length). The crate is run with readers failing at every "
               "byte and writers failing after every byte count, with chunking, short writes and Interrupted.",
    level_note="Trusted: Lean kernel + 3 standard axioms; extract.py; harness/driver; machine and serializer models. std::io retry "
               "loops are assumed. A genuine defect found by this check (Io error yielded twice by a stream) was repaired in /repo.",
)

PROPS["C19"] = dict(
    lean_targets=["SJ.Props.C19", "SJ.Props.C01Iff", "SJ.Audit.C19"],
    configs=dict(quick=["rv"], thorough=["rv", "rvpofr"]),
    gen_keys=["error.", "de."],
    rule=PARSE_RULE + " C19 adds, with raw_value enabled: every token sequence of length <= 2 (thorough 3), generated documents and "
         "their mutations captured at top level as Box<RawValue> and &RawValue from str/slice and Box<RawValue> from a reader "
         "(five captures compared with each other, with the model and with the value's source text; a borrowed capture must be "
         "a subslice at the right offset); arrays, objects and structs whose elements' exact source spans are known to the "
         "generator, with every whitespace placement around them, captured as Vec<&RawValue>/Vec<Box<RawValue>>/BTreeMap/struct "
         "fields (incl. an unknown field skipped in between); RawValue::from_string on the same inputs with to_string, pretty, "
         "nested and to_value of the result.",
    trusted_base=MACHINE_TB,
    assumptions=["RawValue's transmutes between str and RawValue (layout) are outside the model",
                 "nested captures (array element, object value, struct field) are checked against generator-known spans, not modelled"],
    partial=["c19_verbatim (serialising writes the text unchanged) and nested capture positions are by correspondence only"],
    technique="Lean 4 theorems on the top-level capture model (runPrefix = feed + finish: the captured span is accepted on its own as one "
              "value; surroundings are whitespace) + span-exact differential run with generator-known element spans",
    level_text="Machine-checked: c19_skip_language (the scanner of skipped/raw content accepts a byte string iff it is exactly one RFC "
               "8259 JSON text, with no depth, surrogate, UTF-8 or range condition), runPrefix_feed and c19_captured_reparses (whatever is captured at top level, taken on its own, is "
               "accepted by the scanner as exactly one value, from the first non-whitespace byte), skipWs_prefix (only whitespace "
               "precedes it; rawTop rejects anything but whitespace after it). The crate's captures at top level and at every "
               "nested position are compared byte for byte with the source spans; from_string/to_string/to_value round trips are "
               "checked on every input.",
    level_note="Trusted: Lean kernel + 3 standard axioms; extract.py; harness/driver; machine model (ignored target). The scanner-vs-"
               "grammar equivalence is being proved separately (C01/C02 branches).",
)

PROPS["C01"] = dict(
    lean_targets=["SJ.Props.C01", "SJ.Props.C01Iff", "SJ.Audit.C01"],
    configs=dict(quick=["d", "ap"], thorough=["d", "ap", "fr", "po", "ud"]),
    gen_keys=["error.", "de."],
    rule=PARSE_RULE + " Accept/reject of the crate is compared with the model and with the independent recursive-descent "
         "recogniser + side conditions (Spec.Rec, Spec.Canon.sideConditions).",
    trusted_base=MACHINE_TB,
    assumptions=["under arbitrary_precision / raw_value the Value visitor special-cases objects whose first key is the private "
                 "Number/RawValue token; such inputs are outside the generators"],
    partial=[],
    technique="Lean 4 theorem c01_accepts_iff: the byte-step machine accepts exactly an inductive RFC 8259 grammar plus the stated side "
              "conditions (completeness by induction on derivations, soundness by a zipper invariant over every step) + "
              "exhaustive-token differential run against the crate and an independent recogniser",
    level_text="Machine-checked: c01_complete_value — every byte string that is one RFC 8259 JSON text (inductive byte-level grammar) "
               "nested at most 127 deep (or limit off), with paired surrogates, UTF-8 strings (byte sources) and numbers in range "
               "(not needed under arbitrary_precision: c01_complete_value_ap) is accepted by the parser model and yields the value "
               "it denotes; c01_complete_ignored (skipped content accepts every JSON text without side conditions); "
               "c01_empty_rejected, c01_leading_ws / c01_trailing_ws; with the converse c02_denotes this gives c01_accepts_iff "
               "(accept <=> JSON text + side conditions) and c19_skip_language (skipped content <=> JSON text). The crate's "
               "accept/reject on every token sequence up to length 3-4, depth profiles 126-130, documents and mutations is compared "
               "with the model and with an independent recogniser.",
    level_note="Trusted: Lean kernel + 3 standard axioms; extract.py (depth 128, whitespace set, literals regenerated); harness/driver; "
               "the hand-written machine model validated by correspondence (0 disagreements over all sources/configs).",
)

PROPS["C02"] = dict(
    lean_targets=["SJ.Props.C02", "SJ.Props.C02Map", "SJ.Props.C06Int", "SJ.Props.C01Iff", "SJ.Audit.C02"],
    configs=dict(quick=["d", "po", "ap"], thorough=["d", "po", "fr", "ap"]),
    gen_keys=["error.", "de."],
    rule=PARSE_RULE + " The returned Value (tagged tree: integers exact, floats as bit patterns, object keys in iteration order) "
         "is compared with the model and with the independent denotation Spec.Canon.canon of the recognised syntax tree.",
    trusted_base=MACHINE_TB,
    assumptions=["float values are whatever the configured conversion returns: their accuracy is C07/C08, not C02"],
    partial=[],
    technique="Lean 4 theorems: objects built by sequential insertion = one entry per distinct key with the last value, sorted / "
              "first-occurrence order (mkObj = objectOf, both builds); the overflow! guard = mathematical comparison and integer "
              "classification of every digit string; completeness with value (C01) + value-level differential run",
    level_text="Machine-checked: c02_denotes / c02_value_is_canon (every accepted text has a syntax tree whose denotation canon is the "
               "returned Value, with all side conditions), c02_array_order, c02_string_is_decoded_text; and for all member lists and all "
               "digit strings: c02_object_keys_distinct, c02_object_last_duplicate_wins, "
               "c02_object_sorted_default, c02_object_first_occurrence_order, c02_mkObj_eq_objectOf, c02_canonM_eq_canon; "
               "c06_overflow_guard_spec, c06_parse_integer (u64 iff in [0,2^64), i64 iff in [-2^63,0), otherwise float), c06_minus_zero "
               "(-0 is the float 0x8000000000000000), c06_out_of_integer_range. Together with c01_complete_value (the accepted value "
               "is canon of the text's tree). Every Value the crate returns on generated/exhaustive inputs is compared with the model "
               "and an independent denotation.",
    level_note="Trusted: Lean kernel + 3 standard axioms; extract.py; harness/driver; machine model. BTreeMap/IndexMap insertion "
               "modelled by documented semantics (btInsert/ixInsert).",
)

PROPS["C06"] = dict(
    lean_targets=["SJ.Props.C06", "SJ.Props.C06Int", "SJ.Audit.C06"],
    configs=dict(quick=["d", "ap"], thorough=["d", "ap", "fr"]),
    gen_keys=["de."],
    rule="integer literals: every value within +-40 (thorough +-300) of each power of two up to 2^128 and of each type bound, with "
         "and without '-', all values in [-300,300] (thorough: all 8- and 16-bit values), -0, fraction/exponent spellings of "
         "integral values, near-misses of the grammar (01, +1, 1., .1, padded), random 1-45 digit literals; each into the twelve "
         "integer types via from_str, from_value, Deserialize for &Value, as a quoted map key of a text object and as a key of a "
         "Value map; Number accessors (as_i64/as_u64/as_i128/as_u128/is_*) of the literal; to_string of the integer. "
         "Non-trivial = literal longer than one byte; distinct = distinct lines.",
    trusted_base=MACHINE_TB + ["serde's primitive integer visitors (range checks) modelled by documented semantics (visitInt)"],
    assumptions=["a Value cannot hold integers outside [i64::MIN, u64::MAX] nor -0 as an integer without arbitrary_precision: the "
                 "via-Value clause is judged on representable literals only",
                 "itoa prints plain decimal digits (checked by the iprint op on every literal)"],
    partial=["via-Value and map-key paths are tied by correspondence + the property's predicate; only the text path has a Lean model "
             "(the map-key path runs the same deserialize_number)"],
    technique="Lean 4 theorems: overflow! guard = mathematical comparison; digit-loop and integer classification for every digit string; "
              "typed deserialisation = value-and-range specification for all ten integer widths, both float configurations; "
              "accessor laws; boundary-dense differential run over five deserialisation paths",
    level_text="Machine-checked: c06_typed (for every integer type and every number literal, text deserialisation returns the literal's "
               "mathematical value iff it has no fraction/exponent, is not -0 (8..64-bit) and lies in the type's range; never wraps), "
               "c06_overflow_guard_spec, c06_digit_loop, c06_parse_integer(_intClass), c06_minus_zero, c06_out_of_integer_range, "
               "c06_accessors (as_* exact or None; is_* iff as_* is Some). The crate is run on boundary-dense literals through text, "
               "Value (owned and borrowed) and both map-key paths for twelve integer types, plus accessors and printing.",
    level_note="Trusted: Lean kernel + 3 standard axioms; extract.py; harness/driver; Model.Num/TypedInt transcriptions validated by "
               "correspondence; serde's visitors assumed. One open finding under arbitrary_precision (-0 via Value).",
)

PROPS["C20"] = dict(
    lean_targets=["SJ.Props.C20", "SJ.Audit.C20"],
    configs=dict(quick=["ap"], thorough=["ap", "frap"]),
    gen_keys=["error.", "de."],
    rule="with arbitrary_precision: the C06 literal families through typed targets and accessors; every string of length <= 5 "
         "(thorough 6) over the number alphabet 0 1 9 - + . e E as candidate for Number::from_str (exhaustive near-misses of the "
         "grammar); a fixed set of spellings (-0, trailing zeros, exponent spellings, huge exponents), 2000 (thorough 20000) random "
         "number texts and 30 (thorough 300) literals with 100-1000 digit mantissas/exponents: as_str, Display, to_string of the "
         "Number and of the Value, pretty, and nested in a document read through a chunked reader; documents of arrays of such "
         "literals with whitespace re-serialised; plus the whole parser input space of C01 (values compared as literal text).",
    trusted_base=MACHINE_TB,
    assumptions=["as_f64 of an arbitrary-precision Number is str::parse::<f64> (std): 'nearest finite f64 or None' is std's guarantee and is not re-checked here",
                 "Number::from_str = number entry point + end-of-input check, modelled as 'parser returns a number and the input has no whitespace'"],
    partial=["c20_typed_same (typed deserialisation independent of the feature) is C06's c06_typed, which does not mention the feature; "
             "the accessor clause is checked by correspondence against the literal's exact value"],
    technique="Lean 4 theorems derived from parser soundness/completeness: under arbitrary_precision every RFC 8259 number literal parses "
              "to the number whose text is the literal byte for byte; only number literals yield numbers; exhaustive number-alphabet "
              "differential run of Number::from_str and verbatim re-serialisation",
    level_text="Machine-checked: c20_verbatim (for every number literal p, any length and spelling, parsing p.bytes under "
               "arbitrary_precision gives Num.lit p.bytes), c20_nested (the same for a literal anywhere in a document, via the "
               "denotation theorem c02_denotes), c20_from_str_sound (a whitespace-free input that parses to a number is exactly an RFC "
               "8259 number and is stored unchanged). The crate's as_str/Display/to_string/pretty/nested outputs are compared with the "
               "literal on random, boundary and 1000-digit literals; Number::from_str is run on every string of length <= 5-6 over the "
               "number alphabet against the grammar.",
    level_note="Trusted: Lean kernel + 3 standard axioms; extract.py; harness/driver; machine model. A genuine defect (-0 stored as 0) was "
               "repaired in /repo (fix: d7b526b).",
)

PROPS["C07"] = dict(
    lean_targets=["SJ.Props.C07", "SJ.Audit.C07"],
    configs=dict(quick=["fr"], thorough=["fr", "frap", "d"]),
    gen_keys=["lexical.", "Lexical"],
    rule="number literals of the property's quantifier, each into f64 (from_str, from_slice, a two-element array through a chunked "
         "reader, Value::as_f64) and into f32 (str, slice, reader): f64 values sampled across every binary exponent (shortest {:e}, "
         "shortest {}, 17 significant digits; thorough also 15 and 20), every power of two and its neighbours, every power of ten "
         "10^-345..10^310 in several spellings and its neighbours, exact decimal expansions (big-integer arithmetic in the harness) of "
         "midpoints between adjacent doubles and between adjacent f32 values (up to ~770 digits; both ends of the range always), each "
         "also perturbed by +-1 in the last digit, extended by zeros and by zeros followed by a final 1 (beyond the 768-digit limit), cut "
         "at 767/768/769 digits, in five spellings (scientific, positional, integer E, 0.ddd e, split); subnormal/overflow boundaries and "
         "a fixed list of special spellings (exponents beyond i32, leading zeros of the exponent, u64-overflow frontiers of the integer "
         "and fraction digit loops); random 1-40 digit mantissas with exponents in +-400; spellings that steer into lexical's fast, "
         "moderate (extended-precision) and big-integer paths; print -> parse of f64/f32 sampled across every exponent (f64pr/f32pr). "
         "Thorough: all 2^32 f32 bit patterns print -> parse inside the harness (f32all), also in the default build. "
         "Non-trivial = literal longer than one byte; distinct = distinct lines.",
    trusted_base=[
        "Lean 4.33 kernel; axioms propext, Classical.choice, Quot.sound only (checked by #print axioms on every listed theorem)",
        "tools/extract.py gen_lexical (regex translator: cached powers, small/large power tables, per-type float constants, and the "
        "shapes of the error/rounding expressions) and the Rust harness + sjdriver correspondence run (differential testing, bit for bit)",
        "hand-written transcription of src/lexical/* and of the float_roundtrip integration of de.rs (Model.Lexical), tied to the crate "
        "by the correspondence run; limb-level big-integer arithmetic of lexical/math.rs abstracted by Nat",
        "IEEE-754 conformance of the hardware multiply/divide/int-to-float cast used by lexical's fast path; rustc's conversion of the "
        "float literals 1.0..1e22; serde's f32/f64 visitors (`as` casts)",
    ],
    assumptions=["ryu prints the shortest text that round-trips (hypothesis RyuShortest of c07_roundtrip); exercised by f64pr/f32pr on "
                 "every exponent and, for f32, exhaustively by f32all in the thorough tier",
                 "literals with more than 2^31 digits (exponent arithmetic of exponent.rs saturates) are outside the statement"],
    partial=[
        "c07_correct_partial (f64 targets): deFloatRoundtrip = convertRoundtrip is proved from two explicit hypotheses: "
        "ModOk false p = the missing lemma moderate_path_sound for the one call de.rs makes on p (if error_is_accurate accepts "
        "the 80-bit product of the mantissa and the cached power, rounding it equals rounding the exact value; if it rejects, "
        "the exact value lies in the neighbourhood of the downward-rounded product) - false on the pinned tree for the literals "
        "of open finding C07-moderate-truncated, carried by the exact-oracle sweep otherwise; and NoZeroTail false p = not the "
        "shape of open finding C07-zero-tail",
        "f32 targets: every layer (c07_split, c07_fast_path_exact, c07_into_float_rne, c07_bhcomp_exact, parse_concise/"
        "parse_truncated = roundDec b32) is proved for both formats, but the final identification with convertRoundtripSingle "
        "(the f32 analogue of conv64_eq, parked in docs/C07-parked-f32.lean.txt) and hence c07_correct_partial for f32 are not "
        "assembled yet; the f32 clause is carried by the correspondence run (all families) and, for print->parse, by the "
        "exhaustive 2^32 sweep",
        "c07_roundtrip (print then parse is the identity on finite floats under RyuShortest) is a corollary of "
        "c07_correct_partial not yet stated; ryu's output is checked against the specification on every sampled exponent "
        "(f64pr/f32pr) and exhaustively for f32",
        "the 'every finite f32 survives in every configuration' clause is a finite enumeration in the harness (f32all, 2^32 "
        "patterns in fr, fr+ap and default builds), not a theorem",
    ],
    technique="Lean 4: extracted lexical tables proved against exact powers by kernel evaluation; transcription of lexical and its de.rs "
              "integration run bit for bit against the crate; independent exact-rational round-to-nearest-even oracle evaluated on the "
              "crate's output for constructed hard cases (exact midpoints, 768-digit limit, path frontiers)",
    level_text="Machine-checked (Lean 4, no axioms beyond the three standard ones): c07_split (for every well-formed literal the leaf "
               "of de.rs's digit collection and its arguments - significand/exponent, or scratch buffer split at integer_end, zero "
               "padding, exponent sign - denote exactly the literal's digits and decimal exponent); c07_cached_power_accuracy (the 10 "
               "small cached powers are exact, the 66 large ones are the truncated normalised 64-bit images of 10^k) and "
               "c07_power_tables; c07_fast_path_exact (f64 and f32: the fast path returns the correctly rounded value); "
               "c07_into_float_rne (into_float = IEEE round-to-nearest-even of the extended value, into_downward_float = round toward "
               "zero, all 64-bit mantissas, subnormals, carry, overflow); c07_bhcomp_exact (the big-integer path with Bigint as Nat "
               "returns the correctly rounded value, including the MAX_DIGITS truncation argument 2^54*5^1075 < 10^768); "
               "c07_correct_partial (f64: de.rs + lexical = convertRoundtrip, i.e. nearest-even of the exact value, sign incl. -0.0, "
               "underflow to +-0, out of range iff the rounding is infinite, exponent-overflow rule - under the explicit per-call "
               "hypothesis moderate_path_sound and the exclusion of an open finding). The transcription is run bit for bit against "
               "the crate, and the independent exact-rational oracle is evaluated on the crate's output, on 81k (quick) / 1.4M "
               "(thorough) constructed literals incl. exact midpoints up to 770 digits and all 2^32 f32 patterns print->parse.",
    level_note="Trusted: Lean kernel + 3 standard axioms; extract.py; harness/driver; Model.Lexical transcription validated bit for bit; "
               "math.rs limb arithmetic abstracted by Nat. PARTIAL: moderate_path_sound is an explicit hypothesis of c07_correct_partial "
               "(it is false on the pinned tree: finding C07-moderate-truncated was found while stating it); f32 top-level assembly "
               "and c07_roundtrip not yet stated. Three open findings of the pinned tree (known_findings.json: C07-zero-tail, "
               "C07-f32-negint, C07-moderate-truncated) with validated repairs in docs/C07-fix-*.diff.",
)

# properties not claimed yet (kept current as checks are added)
NOT_APPLICABLE = [
    dict(property_id=f"C{i:02d}", reason="check under construction in this build phase; not yet claimed (see DESIGN.md §11 build order)")
    for i in range(1, 21) if f"C{i:02d}" not in PROPS
]
