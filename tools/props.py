"""Per-property registry used by ./check (what to build, which configurations, what is trusted)."""

KERNEL = "Lean 4.33 kernel; axioms propext, Classical.choice, Quot.sound only (checked by #print axioms on every listed theorem)"
TIE = "tools/extract.py (regex translator for constants/tables) and the Rust harness + sjdriver correspondence run (differential testing)"

PROPS = {
    "C03": dict(
        lean_targets=["SJ.Props.C03", "SJ.Audit.C03"],
        configs=dict(quick=["d"], thorough=["d", "po", "ap", "fr"]),
        gen_keys=["ser."],
        rule="fixed corpus of hand-written serializer programs (every serde::Serializer entry point, every key kind valid and "
             "invalid, empty/nested containers incl. an empty struct variant inside nested maps, None-hinted empty seq/map), then "
             "random programs from gen_prog (all constructors, depth 0-4, hints None/exact, adversarial strings, float specials), "
             "each through to_vec/to_string/to_writer (serc), PrettyFormatter::with_indent for indents '', ' ', tab, two spaces, 'ab' "
             "(serp), and a recording io::Write (serbufs: exact buffer list); ill-hinted programs through the recorder only "
             "(serbufx: model comparison); Values through Display / {:#} / to_string / to_string_pretty (disp). A case is "
             "non-trivial when the program contains a container, bytes or a string needing an escape (disp: array or object); "
             "distinct = distinct case lines.",
        trusted_base=[KERNEL, TIE,
                      "itoa and ryu are parameters (structure Ext) with recorded assumptions ExtOK: itoa prints plain decimal digits, "
                      "ryu prints finite floats as RFC 8259 numbers (the ryu text of every generated float is checked to be a number "
                      "by the executable specification on each run; that it is the shortest round-tripping decimal is not checked here)",
                      "serde's default SerializeMap::serialize_entry (= serialize_key; serialize_value), Vec<T>::serialize "
                      "(serialize_seq(Some(len))), io::Write::write_all, fmt::Formatter adapter of Display: by documented semantics",
                      "lean/SJ/Spec/Recognise.lean (independent recursive-descent recogniser used to check the implementation's bytes) "
                      "is proved sound against Grammar.JsonText (c03_recognise_sound); its completeness is not needed"],
        assumptions=["ExtOK: ext.itoa n = Spec.Number.decimal n; finite floats: Grammar.IsNumber (ext.ryu64 b) / (ext.ryu32 b)",
                     "programs obey the serde contract on length hints (None or Some(exact)); type names are not the private "
                     "$serde_json::private::Number / RawValue tokens (feature-gated special cases, out of scope except Number's own impl)",
                     "collect_str's Display writes its text in one write_str call (buffer-level statements only)"],
        partial=["c03_display_partial: Display/{:#} are the two serializers by definition in the model; the fmt adapter is covered by "
                 "the correspondence op `disp` only",
                 "c03_utf8_partial: proved per string (every buffer of format_escaped_str is ASCII or a fragment cut at ASCII bytes); "
                 "lift to whole programs and a ValidUtf8 conclusion pending the shared Spec.Utf8"],
        technique="Lean 4 theorems over all serializer programs: the transcription of Serializer/Compound/MapKeySerializer with both "
                  "Formatters (exact write_all buffer lists, State / current_indent / has_value bookkeeping) refines a structural "
                  "printer of the data-model image; the printer's output is derivable in the RFC 8259 grammar and denotes the image; "
                  "formatter literals regenerated from src/ser.rs; differential run against the crate with an independent recogniser",
        level_text="Machine-checked Lean 4 theorems (c03_compact, c03_error_iff, c03_pretty_layout, c03_hints, c03_value, "
                   "c03_no_underflow, c03_recognise_sound) state for every serializer program with exact-or-absent length hints and every indent string "
                   "that the modelled serializer either fails exactly when a map key is not string-like (same error class) or emits "
                   "buffers whose concatenation equals the structural compact/pretty layout of the program's data-model image, which "
                   "is derivable in the RFC 8259 grammar and denotes that image; hints do not change the buffers. The byte strings "
                   "written by Formatter/PrettyFormatter are re-extracted from src/ser.rs on every run and the model is compared with "
                   "the real crate buffer by buffer on generated programs in four feature configurations, the crate's bytes being "
                   "re-parsed by an independent recogniser and compared with the image.",
        level_note="Trusted: Lean kernel + propext/Classical.choice/Quot.sound; extract.py; harness/driver comparison; itoa/ryu as "
                   "assumed parameters; serde default methods by documented semantics. Partial: Display adapter (correspondence "
                   "only), UTF-8 validity (per string only).",
    ),
    "C18": dict(
        lean_targets=["SJ.Props.C18", "SJ.Audit.C18"],
        configs=dict(quick=["d"], thorough=["d", "po", "ap"]),
        gen_keys=["pointer."],
        rule="fixed index/escape corpus; every pointer of length <= 5 (thorough 6) over the alphabet /~01a- against a "
             "document with every escape-relevant key; every existing path of random documents in RFC-order, "
             "wrong-order and raw spellings, single-edit mutations and random pointers. A case is non-trivial when "
             "the pointer has at least one reference token; distinct = distinct (document, pointer, op) lines.",
        trusted_base=[KERNEL, TIE,
                      "str::split / str::replace / str::parse::<usize> / Vec::get / Map::get modelled by their documented semantics"],
        assumptions=["Rust std string and slice primitives behave as documented",
                     "json! macro expansion (rustc macro matcher) is exercised by correspondence only"],
        partial=["Index/IndexMut/get/take, PartialEq with primitives and json! are not yet modelled (correspondence pending)"],
        technique="Lean 4 theorem: model of Value::pointer/pointer_mut = RFC 6901 evaluator for all values and pointers; "
                  "constants regenerated from source; differential run against the crate",
        level_text="Machine-checked Lean 4 theorems (c18_pointer, c18_pointer_mut, c18_unescape, c18_parse_index) state that the "
                   "transcription of Value::pointer / pointer_mut equals an RFC 6901 reference evaluator for every value and every "
                   "pointer string. The replace chain, split character and parse_index guards are re-extracted from src/value/mod.rs "
                   "on every run, and the model is run against the real crate on generated and exhaustive short pointers.",
        level_note="Trusted: Lean kernel + propext/Classical.choice/Quot.sound; extract.py; the harness/driver comparison; std "
                   "string primitives (split, replace, parse::<usize>) modelled by documented semantics. Not yet covered: "
                   "Index/IndexMut/get/take, PartialEq with primitives, json! macro.",
    ),
}

# properties not claimed yet (kept current as checks are added)
NOT_APPLICABLE = [
    dict(property_id=f"C{i:02d}", reason="check under construction in this build phase; not yet claimed (see DESIGN.md §11 build order)")
    for i in range(1, 21) if f"C{i:02d}" not in PROPS
]
