"""Per-property registry used by ./check (what to build, which configurations, what is trusted)."""

KERNEL = "Lean 4.33 kernel; axioms propext, Classical.choice, Quot.sound only (checked by #print axioms on every listed theorem)"
TIE = "tools/extract.py (regex translator for constants/tables) and the Rust harness + sjdriver correspondence run (differential testing)"

PROPS = {
    "C05": dict(
        lean_targets=["SJ.Props.C05", "SJ.Audit.C05"],
        configs=dict(quick=["d"], thorough=["d"]),
        gen_keys=["escape.", "hex.", "swar.", "Escape", "Hex", "Swar"],
        allowed_axioms=[r".*\._native\.bv_decide\.ax_.*"],
        rule="esc/escbufs: every Unicode scalar value as a one-character string (quick: all below U+3000, every 251st, "
             "surrogate-adjacent and plane boundaries, a random 1%), every byte < 0x80 at every offset of strings of every "
             "length 0..24 over ASCII and mixed 1-4-byte filler, adjacent/leading/trailing escapes, random mixtures up to 500 "
             "chars; hex4/hex4s: all 65 536 values in lower, upper and random mixed case, all 256 substitutions at each of "
             "the 4 positions of 7 base groups, 10^5 (thorough 10^7) random four-byte groups, through ByteBuf (exact u16 via "
             "WTF-8) and String from str/slice/reader; scan: each of \" \\ 00 0a 1f 20 7f 80 ff c3 at every offset of contents "
             "of every length 0..24 (ASCII and mixed filler), closed and unclosed, after 0..8 spaces, targets &str/String/"
             "ByteBuf from str/slice/reader (quick: &str-from-slice always plus one rotating combination), two-special and "
             "multi-chunk contents, random contents. Non-trivial: esc — the string has a byte that must be escaped or a "
             "non-ASCII character; hex4 — every group; scan — non-empty content; distinct = distinct case lines.",
        trusted_base=[KERNEL + "; plus bv_decide's per-call axioms (SAT certificate checked by compiled code, Lean.ofReduceBool "
                      "trust) for the two SWAR chunk lemmas and the two hex OR/shift lemmas",
                      TIE,
                      "memchr::memchr2 specified as 'index of the first occurrence of either needle' (external crate)",
                      "u64::from_le_bytes / wrapping_sub / trailing_zeros / chunks_exact modelled by their documented semantics on BitVec 64"],
        assumptions=["memchr2 returns the first occurrence of either needle",
                     "Rust integer primitives (from_le_bytes, wrapping_sub, trailing_zeros, `as` casts, i32 shifts) behave as documented",
                     "io::Write::write_all on Vec / the recording writer delivers each buffer whole",
                     "the build uses fast_arithmetic=\"64\" (64-bit Chunk), as on the checked platform"],
        partial=["the decode side (c05_decode_spec, c05_roundtrip, c05_borrowed, c05_bytes_target, c05_str_source_utf8) is provided "
                 "by the lead's byte-step parser machine and is not part of this branch; here: serializer escaping "
                 "(c05_escape_table, c05_escape_spec, c05_escape_buffers_utf8_cut), decode_four_hex_digits (c05_hex_tables, "
                 "c05_hex4_spec) and the SWAR scanner (c05_swar_first_escape, c05_swar_in_bounds, c05_first_escape_char)"],
        technique="Lean 4 theorems over all byte strings / all 2^32 hex groups / all slices and start indices; ESCAPE, HEX0/HEX1 "
                  "pieces and SWAR constants regenerated from source each run; bv_decide for the 64-bit chunk facts; differential "
                  "run of escaping, \\u decoding and the scanner against the crate",
        level_text="Machine-checked Lean 4 theorems: the table-driven format_escaped_str equals the statement's per-character "
                   "escaping for every string and cuts its buffers only at ASCII bytes; decode_four_hex_digits equals the "
                   "positional hex value or None for all 2^32 groups; SliceRead::skip_to_escape (64-bit SWAR + memchr2 branch + "
                   "slow tail) returns the first escape index for every slice, index and mode. Tables and constants are "
                   "re-extracted from src/ser.rs and src/read.rs on every run and the models are run against the real crate.",
        level_note="Trusted: Lean kernel + propext/Classical.choice/Quot.sound + bv_decide axioms (4 calls); extract.py; the "
                   "harness/driver comparison; memchr2 and Rust integer primitives by documented semantics. Partial: the string "
                   "decoder itself (escapes, surrogate pairing, UTF-8 validation, borrowing) belongs to the parser machine and "
                   "is not covered by this branch.",
    ),
    "C03": dict(
        lean_targets=["SJ.Props.C03", "SJ.Audit.C03"],
        configs=dict(quick=["d"], thorough=["d", "po", "ap", "fr"]),
        gen_keys=["ser."],
        rule="fixed corpus of hand-written serializer programs (every serde::Serializer entry point, every key kind valid and "
             "invalid, empty/nested containers incl. an empty struct variant inside nested maps, None-hinted empty seq/map), then "
             "random programs from gen_prog (all constructors, depth 0-4, hints None/exact, adversarial strings, float specials), "
             "each through to_vec/to_string/to_writer (serc), PrettyFormatter::with_indent for indents '', ' ', tab, two spaces, 'ab' "
             "(serp), and a recording io::Write (serbufs: exact buffer list); ill-hinted programs through the recorder only "
             "(serbufx: model comparison); Values through Display / {:#} / to_string / to_string_pretty (disp). A case is "
             "non-trivial when the program contains a container, bytes or a string needing an escape (disp: array or object); "
             "distinct = distinct case lines.",
        trusted_base=[KERNEL, TIE,
                      "itoa and ryu are parameters (structure Ext) with recorded assumptions ExtOK: itoa prints plain decimal digits, "
                      "ryu prints finite floats as RFC 8259 numbers (the ryu text of every generated float is checked to be a number "
                      "by the executable specification on each run; that it is the shortest round-tripping decimal is not checked here)",
                      "serde's default SerializeMap::serialize_entry (= serialize_key; serialize_value), Vec<T>::serialize "
                      "(serialize_seq(Some(len))), io::Write::write_all, fmt::Formatter adapter of Display: by documented semantics",
                      "lean/SJ/Spec/Recognise.lean (independent recursive-descent recogniser used to check the implementation's bytes) "
                      "is proved sound against Grammar.JsonText (c03_recognise_sound); its completeness is not needed"],
        assumptions=["ExtOK: ext.itoa n = Spec.Number.decimal n; finite floats: Grammar.IsNumber (ext.ryu64 b) / (ext.ryu32 b)",
                     "programs obey the serde contract on length hints (None or Some(exact)); type names are not the private "
                     "$serde_json::private::Number / RawValue tokens (feature-gated special cases, out of scope except Number's own impl)",
                     "collect_str's Display writes its text in one write_str call (buffer-level statements only)"],
        partial=["c03_display_partial: Display/{:#} are the two serializers by definition in the model; the fmt adapter is covered by "
                 "the correspondence op `disp` only",
                 "c03_utf8_partial: proved per string (every buffer of format_escaped_str is ASCII or a fragment cut at ASCII bytes); "
                 "lift to whole programs and a ValidUtf8 conclusion pending the shared Spec.Utf8"],
        technique="Lean 4 theorems over all serializer programs: the transcription of Serializer/Compound/MapKeySerializer with both "
                  "Formatters (exact write_all buffer lists, State / current_indent / has_value bookkeeping) refines a structural "
                  "printer of the data-model image; the printer's output is derivable in the RFC 8259 grammar and denotes the image; "
                  "formatter literals regenerated from src/ser.rs; differential run against the crate with an independent recogniser",
        level_text="Machine-checked Lean 4 theorems (c03_compact, c03_error_iff, c03_pretty_layout, c03_hints, c03_value, "
                   "c03_no_underflow, c03_recognise_sound) state for every serializer program with exact-or-absent length hints and every indent string "
                   "that the modelled serializer either fails exactly when a map key is not string-like (same error class) or emits "
                   "buffers whose concatenation equals the structural compact/pretty layout of the program's data-model image, which "
                   "is derivable in the RFC 8259 grammar and denotes that image; hints do not change the buffers. The byte strings "
                   "written by Formatter/PrettyFormatter are re-extracted from src/ser.rs on every run and the model is compared with "
                   "the real crate buffer by buffer on generated programs in four feature configurations, the crate's bytes being "
                   "re-parsed by an independent recogniser and compared with the image.",
        level_note="Trusted: Lean kernel + propext/Classical.choice/Quot.sound; extract.py; harness/driver comparison; itoa/ryu as "
                   "assumed parameters; serde default methods by documented semantics. Partial: Display adapter (correspondence "
                   "only), UTF-8 validity (per string only).",
    ),
    "C18": dict(
        lean_targets=["SJ.Props.C18", "SJ.Audit.C18"],
        configs=dict(quick=["d"], thorough=["d", "po", "ap"]),
        gen_keys=["pointer."],
        rule="fixed index/escape corpus; every pointer of length <= 5 (thorough 6) over the alphabet /~01a- against a "
             "document with every escape-relevant key; every existing path of random documents in RFC-order, "
             "wrong-order and raw spellings, single-edit mutations and random pointers. A case is non-trivial when "
             "the pointer has at least one reference token; distinct = distinct (document, pointer, op) lines.",
        trusted_base=[KERNEL, TIE,
                      "str::split / str::replace / str::parse::<usize> / Vec::get / Map::get modelled by their documented semantics"],
        assumptions=["Rust std string and slice primitives behave as documented",
                     "json! macro expansion (rustc macro matcher) is exercised by correspondence only"],
        partial=["Index/IndexMut/get/take, PartialEq with primitives and json! are not yet modelled (correspondence pending)"],
        technique="Lean 4 theorem: model of Value::pointer/pointer_mut = RFC 6901 evaluator for all values and pointers; "
                  "constants regenerated from source; differential run against the crate",
        level_text="Machine-checked Lean 4 theorems (c18_pointer, c18_pointer_mut, c18_unescape, c18_parse_index) state that the "
                   "transcription of Value::pointer / pointer_mut equals an RFC 6901 reference evaluator for every value and every "
                   "pointer string. The replace chain, split character and parse_index guards are re-extracted from src/value/mod.rs "
                   "on every run, and the model is run against the real crate on generated and exhaustive short pointers.",
        level_note="Trusted: Lean kernel + propext/Classical.choice/Quot.sound; extract.py; the harness/driver comparison; std "
                   "string primitives (split, replace, parse::<usize>) modelled by documented semantics. Not yet covered: "
                   "Index/IndexMut/get/take, PartialEq with primitives, json! macro.",
    ),
}

MACHINE_TB = [KERNEL, TIE,
              "hand-written byte-step model of de.rs/read.rs (Model.Machine, Model.Num) tied to the crate by the correspondence run on all three sources",
              "io::Bytes delivers the reader's bytes in order (chunking-independent); memchr/SWAR scanning abstracted as a naive scan (C05 proves the SWAR scanner equal to it)"]

PROPS["C10"] = dict(
    lean_targets=["SJ.Props.C10", "SJ.Audit.C10"],
    configs=dict(quick=["d", "ap"], thorough=["d", "ap", "fr", "po"]),
    gen_keys=["error.", "de."],
    rule="every prefix (length 0..n) of every accepted text among: a fixed corpus of number/escape/container shapes, "
         "grammar-directed random documents, every accepted token sequence of length <= 3 (thorough 4, sharded) over the "
         "41-token structural alphabet; targets Value and IgnoredAny; sources str, slice, reader. One case = one "
         "(document, target, source) with all its prefixes; non-trivial = document longer than one byte; distinct = distinct lines.",
    trusted_base=MACHINE_TB,
    assumptions=["typed targets (128-bit integers, quoted numeric/bool keys, raw values) are covered by correspondence only until the typed machine exists",
                 "std io::Bytes semantics"],
    partial=["c10_prefix_value_partial: the Value-target theorem carries the exception c = NumberOutOfRange (prefix = complete out-of-range number literal) — open known finding C10-out-of-range-number-prefix",
             "typed targets and stream iteration: not yet modelled"],
    technique="Lean 4 theorems over a byte-step machine model (fold decomposition + exhaustive analysis of the end-of-input table "
              "against the classify arms regenerated from error.rs) + differential prefix sweep against the crate",
    level_text="Machine-checked: for the Value and IgnoredAny targets, in every feature configuration and for every input source, "
               "every prefix of an accepted text is accepted or fails at the end of the prefix with an Eof-classified error "
               "(c10_prefix_ignored; c10_prefix_value_partial with the single inherent NumberOutOfRange exception made explicit). "
               "classify and the error codes are regenerated from src/error.rs each run; the machine is compared with the crate on "
               "every prefix of generated and exhaustive short documents, and the property's own predicate is evaluated on the crate's outputs.",
    level_note="Trusted: Lean kernel + propext/Classical.choice/Quot.sound; extract.py; harness/driver; the hand-written machine model "
               "(validated by correspondence, 0 disagreements). Typed targets, 128-bit, map keys, raw values and streams are not yet inside the model.",
)

PARSE_RULE = ("every token sequence of length <= 3 (thorough: 4, 1/4 sampled by seed) over the 43-token structural alphabet "
              "(brackets, separators, quote, space/newline, escape pieces, hex digits, digits, sign/point/exponent, literals and "
              "partial literals, non-JSON bytes, control and multi-byte bytes, surrogate escapes, composite tokens); depth profiles "
              "1,2,126..130 over array/object/alternating/random mixes; grammar-directed random documents with whitespace and "
              "spelling variety and 3 single-byte/structural mutations each; each input parsed into Value (pv) and IgnoredAny (pi) "
              "from &str, &[u8] and an io::Read with a random chunking schedule. Non-trivial = input longer than one byte; "
              "distinct = distinct (op, config, input) lines.")

PROPS["C09"] = dict(
    lean_targets=["SJ.Props.C09", "SJ.Audit.C09"],
    configs=dict(quick=["d", "ap"], thorough=["d", "ap", "fr", "po"]),
    gen_keys=["error.", "de."],
    rule=PARSE_RULE + " C09 adds multi-line documents (spaces turned into newlines) with 4 mutations each; the three sources' "
         "outcomes (message, category, line, column, value) are compared with each other and with the model.",
    trusted_base=MACHINE_TB,
    assumptions=["io::Bytes yields the reader's bytes one at a time in order, whatever the chunking (std)",
                 "typed targets, raw values and stream iteration are not yet inside the model"],
    partial=["c09_str_slice for the Value target (needs: decoded strings of a UTF-8 input are UTF-8) — carried by correspondence",
             "typed targets (|delta index| <= 1), 128-bit, raw, stream byte_offset: correspondence pending"],
    technique="Lean 4 theorem: the byte-step machine's outcome is independent of the slice/reader source (step-wise equality + all "
              "error sites include the offending byte) + three-source differential run against the crate",
    level_text="Machine-checked: c09_slice_reader — for every configuration, both untyped targets and every byte string the slice and "
               "reader sources give the same value or the same error code at the same position (hence message, category, line, "
               "column); c09_str_slice_ignored for skipped content. The crate is run on every generated input from all three "
               "sources with random chunkings and the outcomes are compared with each other (spec) and with the model.",
    level_note="Trusted: Lean kernel + 3 standard axioms; extract.py; harness/driver; hand-written machine model validated by "
               "correspondence. Two genuine position defects found by this check were repaired in /repo (fix: commits 28defde, 9343bad).",
)

PROPS["C11"] = dict(
    lean_targets=["SJ.Props.C11", "SJ.Audit.C11"],
    configs=dict(quick=["d"], thorough=["d", "ap", "fr"]),
    gen_keys=["error.", "de."],
    rule=PARSE_RULE + " C11 adds multi-line documents with 4 mutations each; the reported (line, column) of every error is checked "
         "against an independent recursive-descent scanner (Spec.Pos) that computes the first byte after which no continuation is JSON.",
    trusted_base=MACHINE_TB,
    assumptions=["side-condition errors (surrogates, UTF-8, number range, depth) are only required to lie within the input"],
    partial=["c11_earliest (the prefix before the reported byte is still viable) is not proved yet; the correspondence checks it "
             "against Spec.Pos on every generated input"],
    technique="Lean 4 theorems on the byte-step machine (errors are raised by the step that reads the offending byte and are stable "
              "under extension; Eof errors only at end of input; line/column arithmetic) + independent positioned scanner as oracle",
    level_text="Machine-checked: c11_dead (a grammar error reported at byte count idx dooms the prefix of length idx: every continuation "
               "fails identically), c11_eof_at_end, c11_within_input, c11_line / c11_col_* (the line/column formulas of the statement), "
               "for Value and ignored targets, all configurations and sources. Every error position the crate reports on generated "
               "non-JSON inputs is compared with the model and with an independent first-dead-byte scanner.",
    level_note="Trusted: Lean kernel + 3 standard axioms; extract.py; harness/driver; machine model validated by correspondence; "
               "Spec.Pos (independent recursive-descent scanner) as executable oracle. c11_earliest not yet a theorem.",
)

PROPS["C14"] = dict(
    lean_targets=["SJ.Props.C14", "SJ.Audit.C14"],
    configs=dict(quick=["d"], thorough=["d", "ud", "ap"]),
    gen_keys=["de."],
    rule=PARSE_RULE + " C14 adds 20k (thorough 200k) random byte strings biased to JSON punctuation, and ten pathological inputs "
         "(10^6-deep arrays open/balanced, 2*10^5-deep objects, 4 MB string, 10^6 escapes, 10^6-digit integer/fraction/exponents, "
         "10^6-element array) each through Value (slice, reader) and IgnoredAny under catch_unwind.",
    trusted_base=MACHINE_TB,
    assumptions=["memory safety of compiled unsafe blocks, real stack consumption and allocator behaviour are runtime properties outside any model (partial by nature)"],
    partial=["c14_utf8 (every returned String is valid UTF-8), c14_no_fuel (number conversion never runs out of fuel) and the shape "
             "invariant making the remaining model fallbacks unreachable are not proved yet",
             "typed targets / enum wrappers / stream depth restoration: not yet modelled"],
    technique="Lean 4 invariants over the byte-step machine (stack height < 128 for every reachable state, re-dispatch happens at most "
              "once, termination by structural recursion) + pathological-input runs of the crate under catch_unwind",
    level_text="Machine-checked: c14_depth_bounded (every reachable state of a Value parse has at most 127 open containers, so the real "
               "recursion is bounded), c14_limit_hit (opening the 128th container is RecursionLimitExceeded at that byte), "
               "c14_again_once (the only unreachable!-style fallback of step is unreachable); termination by construction. The crate "
               "is run on random bytes, mutated documents, depth profiles and megabyte/10^6-deep inputs with catch_unwind.",
    level_note="Trusted: Lean kernel + 3 standard axioms; extract.py (remaining_depth = 128 is regenerated); harness/driver; machine "
               "model. Partial by nature: actual memory safety and stack usage of compiled code cannot be exhibited by a model.",
)

PROPS["C12"] = dict(
    lean_targets=["SJ.Props.C12", "SJ.Audit.C12"],
    configs=dict(quick=["d"], thorough=["d", "ap", "fr"]),
    gen_keys=["error.", "de."],
    rule="StreamDeserializer histories of next()/byte_offset(), continuing 3 calls past the end and past errors: a fixed corpus of "
         "44 streams (separators, undelimited scalars, truncations, \\u cut-offs), every token sequence of length <= 2 (thorough 3) "
         "over the structural alphabet, concatenations of 1-4 generated values with every separator choice (none, space, newline, "
         "mixed), each also truncated at a random position and corrupted by one mutation; item types Value and IgnoredAny; sources "
         "str, slice, reader. One case = one (stream, item type, source, call count); non-trivial = stream longer than one byte.",
    trusted_base=MACHINE_TB,
    assumptions=["byte_offset() after the stream has failed is not constrained by the property and is not compared",
                 "typed item types are not yet inside the model"],
    partial=["c12_values (the yielded values/offsets are exactly those of the grammar's decomposition) awaits parser completeness; "
             "until then it is checked on every generated stream against the independent scanner Spec.Pos + Spec.Canon"],
    technique="Lean 4 theorems over a model of Iterator::next on top of the byte-step machine (fusedness by invariant over call "
              "histories, progress, Eof errors only at end of input) + history-level differential run against the crate and an "
              "independent grammar-based oracle",
    level_text="Machine-checked: c12_fused (after a failed value every later next() is None, for any number of calls), c12_error_fails, "
               "c12_progress (each yielded value consumes at least one byte: next() terminates and yields at most n values), "
               "runPrefix_eof_at_end (an Eof error is reported only at the end of the available input). The delimiter and "
               "self-delineation sets are regenerated from src/de.rs. Whole histories (items and byte offsets) of the crate are "
               "compared with the model and with an independent grammar-based expectation.",
    level_note="Trusted: Lean kernel + 3 standard axioms; extract.py; harness/driver; machine and stream models validated by "
               "correspondence (0 disagreements).",
)

PROPS["C16"] = dict(
    lean_targets=["SJ.Props.C16", "SJ.Audit.C16"],
    configs=dict(quick=["d", "fr"], thorough=["d", "fr", "po", "ap"]),
    gen_keys=["fromvalue."],
    rule="(schema, value) pairs for the universal DeserializeSeed of harness/src/schema.rs, each run through from_value (Value by value), "
         "&Value and from_str(to_string(value)) followed by end(): a fixed corpus (every leaf target and every leaf under Option / newtype / "
         "Vec / 1-tuple against ~110 small values incl. every integer bound and number-literal spellings; tuples too short / exact / too "
         "long; every key kind (String, 10 integer widths, bool, char, unit enum) against 46 key spellings such as 12, -3, 01, 1.0, 1e0, "
         "true, +1, -0, ' 1', type bounds and bounds+-1; structs with and without deny_unknown_fields from objects (unknown / missing / "
         "optional / ill-typed fields, any order) and arrays (short / exact / long); an enum with unit, newtype, tuple and struct variants "
         "in every spelling incl. two-key and empty objects and unknown variants; the statement's three exclusions), then random schemas "
         "from gen_schema (depth 0-3, all 18 node kinds, all key kinds) with 1-3 values each from gen_value_for (matching, and deliberately "
         "mismatching at every level: wrong kind, out-of-range and just-in-range integers, floats for integers, extra / missing elements, "
         "unknown / missing / clashing fields, wrong variant payload shapes, ill-formed numeric keys) plus unrelated random values. "
         "Non-trivial = the schema is not a bare leaf or the value is an array/object; distinct = distinct case lines.",
    trusted_base=[KERNEL, TIE + "; for C16 the translator regenerates the routing table of src/value/de.rs (per method: delegation, "
                  "macro, or Value::K => callee arms; forward_to_deserialize_any lists; leftover checks; numeric-key guard) and "
                  "c16_routing_tied compares it with the table the transcription was written against (a fingerprint)",
                  "the universal seed of harness/src/schema.rs: serde's own Deserialize impls for the leaves (bool, 12 integers, f32/f64, char, "
                  "String, (), IgnoredAny, serde_bytes::ByteBuf, Value) and hand-written copies of the visitor shapes serde_derive generates for "
                  "Option, newtype struct, Vec, fixed tuples, maps, structs (seq or map, __Field identifiers, deny_unknown_fields, "
                  "missing_field) and externally tagged enums; their Lean transcription is the 'visitors' part of SJ/Model/FromValue.lean, "
                  "shared by the owned and the borrowed side as the visitor objects are in Rust",
                  "str::parse::<iN/uN/f64/f32>, `as` casts, ryu and f64::to_string are external: parse/casts modelled by documented semantics "
                  "(exact / correctly rounded, SJ.Spec.Ieee); ryu and Display texts are passed by the harness per literal (Ext parameter, "
                  "arbitrary_precision only)",
                  "SJ.Spec.Ieee is the lead's placeholder round-to-nearest-even (to be replaced by the C08 branch's, same signatures)"],
    assumptions=["Values are well-formed: Number::Float is finite, object keys are distinct and are not the private tokens "
                 "$serde_json::private::Number / RawValue; struct field names and variant names of a schema are distinct",
                 "serde visitors behave as transcribed (they are serde's, not serde_json's); raw_value builds are not in the configurations",
                 "float results are compared only under float_roundtrip or when every number of the value is an integer in [i64::MIN, u64::MAX] "
                 "or a short literal (<= 15 significant digits, |decimal exponent| <= 22), as the statement says"],
    partial=["c16_agree_partial: the three-way statement is proved for its owned/borrowed leg only (c16_owned_borrowed, full strength over the "
             "whole universe and every configuration). The text leg — deTyped = de.rs's typed entry points on to_string(v) — awaits the typed "
             "text machine, which is not part of this branch; meanwhile the three-way agreement is carried by the correspondence run: the "
             "executable specification compares the three REAL outcomes on every generated pair, and the driver's third model field echoes "
             "the implementation (no text-side model yet, so that field cannot disagree)",
             "the wire codecs of Schema / TVal have no round-trip lemma (decode (enc x) = x); they are exercised on every case line"],
    technique="Lean 4 theorem by mutual structural induction over a nested typed universe: the two transcriptions of src/value/de.rs (owned "
              "Deserializer for Value, borrowed Deserializer for &Value, each with its seq/map/enum/variant access types, sharing Number's "
              "impl and MapKeyDeserializer as the crate does) are equal on every schema and value; structural corollaries; differential run "
              "of both transcriptions and of the three-way executable statement against the crate through a universal DeserializeSeed",
    level_text="Machine-checked Lean 4 theorems: c16_owned_borrowed — for every configuration, every schema of the typed universe (bool, 12 "
               "integer widths, f64/f32, char, string, byte buffer, option, unit, unit struct, newtype, seq, fixed tuple, map with "
               "string/integer/bool/char/unit-enum keys, struct with or without deny_unknown_fields given as object or array, externally "
               "tagged enum with unit/newtype/tuple/struct variants, IgnoredAny, Value) and every Value, the transcription of from_value "
               "and the transcription of Deserialize-from-&Value return the same outcome; plus c16_ignored_total, c16_any_identity, "
               "c16_tuple_exact_length, c16_struct_array_exact_length, c16_int_in_range, c16_enum_single_key, c16_option, "
               "c16_result_comparator_exact (the comparator of the executable statement is equality), c16_routing_tied (source routing "
               "= transcribed routing, regenerated each run). Both "
               "transcriptions are run against the real crate on every generated (schema, value) pair (0 disagreements in four feature "
               "configurations) and the three-way statement (owned, borrowed, from_str of to_string) is evaluated on the crate's own "
               "outcomes with exactly the statement's exclusions.",
    level_note="Trusted: Lean kernel + propext/Classical.choice/Quot.sound; harness/driver comparison; the universal seed and serde's visitors "
               "as transcribed; std parse/cast and ryu/Display as parameters. Partial: the text leg of the three-way theorem (typed text "
               "machine not in this branch) is covered by correspondence only. Open findings (arbitrary_precision only): literal -0, "
               "non-finite literals into f64, Display-form literals into Value.",
)

# properties not claimed yet (kept current as checks are added)
NOT_APPLICABLE = [
    dict(property_id=f"C{i:02d}", reason="check under construction in this build phase; not yet claimed (see DESIGN.md §11 build order)")
    for i in range(1, 21) if f"C{i:02d}" not in PROPS
]
