"""Per-property registry used by ./check (what to build, which configurations, what is trusted)."""

KERNEL = "Lean 4.33 kernel; axioms propext, Classical.choice, Quot.sound only (checked by #print axioms on every listed theorem)"
TIE = "tools/extract.py (regex translator for constants/tables) and the Rust harness + sjdriver correspondence run (differential testing)"

PROPS = {
    "C17": dict(
        lean_targets=["SJ.Props.C17", "SJ.Audit.C17"],
        configs=dict(quick=["d", "po"], thorough=["d", "po"]),
        gen_keys=["map."],
        rule="operation histories on serde_json::Map over the keys a, b, c (and ` which sorts first): every history of "
             "length <= 3 over the full alphabet (48 operations by default, 63 under preserve_order: every method incl. "
             "entry API, retain, append, extend, clear, sort_keys, Index/IndexMut, get_mut, iterators, and under "
             "preserve_order shift_insert / swap_* / shift_*), every history of length 4 over a core alphabet with at "
             "least one instance of every operation kind (24 / 30); thorough adds every history of length 5 and 6 over "
             "the state-changing kinds (13 / 17; length 6 under preserve_order: every 5th). Plus random histories of "
             "5..300 operations over 4..16 keys with nested values; == and Hash between maps built by all pairs of "
             "histories of length <= 2 and by random / rebuilt-in-another-order histories; == / SipHash / recorded hasher "
             "calls / sort_all_objects on random nested values, their reordered and sign-of-zero rewritings and "
             "perturbations. Each history line records every return value, the forward iteration after every operation "
             "and the backward iteration at the end. A history is non-trivial when it has at least two operations; a "
             "value pair when the two encodings differ; distinct = distinct case lines.",
        trusted_base=[KERNEL, TIE,
                      "BTreeMap / IndexMap (indexmap 2.x) modelled by their documented semantics on the entry sequence "
                      "(insert, remove, swap_remove, shift_remove, shift_insert, extend, append, retain, sort_unstable_keys, ==)",
                      "derive(PartialEq, Hash) on Value/Number and std's Hash impls for str, slices, tuples, BTreeMap modelled as "
                      "the sequence of Hasher::write_* calls (checked against a recording Hasher on every generated value)"],
        assumptions=["BTreeMap and IndexMap behave as documented (exercised by the correspondence run in both configurations)",
                     "values stored in a Number are finite (Number::from_f64 rejects NaN/inf; the parser never produces them)",
                     "retain predicates are pure functions of (key, value)"],
        partial=[],
        technique="Lean 4 theorems over two store models (ascending association list = BTreeMap, insertion-ordered list = "
                  "IndexMap) and a Value model: refinement of a function-valued reference dictionary for every method and "
                  "every history, order invariants, == <-> equality of abstractions, hasher input as a function of the "
                  "abstraction, sort_all_objects; feature-dependent forwards of map.rs re-extracted every run; differential "
                  "run of operation histories against the crate in both configurations",
        level_text="Machine-checked Lean 4 theorems: c17_refines_btree/_index(_history) (every Map method, on every state reachable "
                   "by any history, returns what the reference dictionary Bytes -> Option V returns and leaves its contents); "
                   "c17_order_btree (iteration strictly ascending, backward = reverse) and c17_order_index(_nodup,_sort_keys) "
                   "(key sequence changes exactly by the documented insertion/swap/shift rules, no duplicate keys); "
                   "c17_eq_order_free(_btree,_index,_value) (== iff equal abstractions, at every depth, +0.0 == -0.0); "
                   "c17_hash (equal values make identical Hasher calls; preserve_order sorts entries, Number normalises zero); "
                   "c17_sort_all (ascending at every depth, == unchanged). Which IndexMap removal remove/remove_entry forward "
                   "to, append/sort_keys/Hash bodies and Number's Hash are re-extracted from src on every run and consumed by "
                   "the model; the models are replayed against the real Map on exhaustive short and long random histories.",
        level_note="Trusted: Lean kernel + propext/Classical.choice/Quot.sound; extract.py; harness/driver comparison; BTreeMap and "
                   "IndexMap are modelled by documented semantics, not verified themselves; SipHash itself is not modelled "
                   "(the theorem is about hasher input; the harness checks equal input => equal DefaultHasher output). "
                   "arbitrary_precision numbers are modelled (string equality) but not exercised (configs d, po).",
    ),
    "C18": dict(
        lean_targets=["SJ.Props.C18", "SJ.Audit.C18"],
        configs=dict(quick=["d"], thorough=["d", "po", "ap"]),
        gen_keys=["pointer."],
        rule="fixed index/escape corpus; every pointer of length <= 5 (thorough 6) over the alphabet /~01a- against a "
             "document with every escape-relevant key; every existing path of random documents in RFC-order, "
             "wrong-order and raw spellings, single-edit mutations and random pointers. A case is non-trivial when "
             "the pointer has at least one reference token; distinct = distinct (document, pointer, op) lines.",
        trusted_base=[KERNEL, TIE,
                      "str::split / str::replace / str::parse::<usize> / Vec::get / Map::get modelled by their documented semantics"],
        assumptions=["Rust std string and slice primitives behave as documented",
                     "json! macro expansion (rustc macro matcher) is exercised by correspondence only"],
        partial=["Index/IndexMut/get/take, PartialEq with primitives and json! are not yet modelled (correspondence pending)"],
        technique="Lean 4 theorem: model of Value::pointer/pointer_mut = RFC 6901 evaluator for all values and pointers; "
                  "constants regenerated from source; differential run against the crate",
        level_text="Machine-checked Lean 4 theorems (c18_pointer, c18_pointer_mut, c18_unescape, c18_parse_index) state that the "
                   "transcription of Value::pointer / pointer_mut equals an RFC 6901 reference evaluator for every value and every "
                   "pointer string. The replace chain, split character and parse_index guards are re-extracted from src/value/mod.rs "
                   "on every run, and the model is run against the real crate on generated and exhaustive short pointers.",
        level_note="Trusted: Lean kernel + propext/Classical.choice/Quot.sound; extract.py; the harness/driver comparison; std "
                   "string primitives (split, replace, parse::<usize>) modelled by documented semantics. Not yet covered: "
                   "Index/IndexMut/get/take, PartialEq with primitives, json! macro.",
    ),
}

# properties not claimed yet (kept current as checks are added)
NOT_APPLICABLE = [
    dict(property_id=f"C{i:02d}", reason="check under construction in this build phase; not yet claimed (see DESIGN.md §11 build order)")
    for i in range(1, 21) if f"C{i:02d}" not in PROPS
]
