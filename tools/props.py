"""Per-property registry used by ./check (what to build, which configurations, what is trusted)."""

KERNEL = "Lean 4.33 kernel; axioms propext, Classical.choice, Quot.sound only (checked by #print axioms on every listed theorem)"
TIE = "tools/extract.py (regex translator for constants/tables) and the Rust harness + sjdriver correspondence run (differential testing)"

PROPS = {
    "C08": dict(
        lean_targets=["SJ.Props.C08", "SJ.Audit.C08"],
        configs=dict(quick=["d"], thorough=["d", "po"]),
        gen_keys=["pow10."],
        rule="TODO",
        trusted_base=[KERNEL, TIE],
        assumptions=[],
        partial=[],
        technique="TODO",
        level_text="TODO",
        level_note="TODO",
    ),
    "C18": dict(
        lean_targets=["SJ.Props.C18", "SJ.Audit.C18"],
        configs=dict(quick=["d"], thorough=["d", "po", "ap"]),
        gen_keys=["pointer."],
        rule="fixed index/escape corpus; every pointer of length <= 5 (thorough 6) over the alphabet /~01a- against a "
             "document with every escape-relevant key; every existing path of random documents in RFC-order, "
             "wrong-order and raw spellings, single-edit mutations and random pointers. A case is non-trivial when "
             "the pointer has at least one reference token; distinct = distinct (document, pointer, op) lines.",
        trusted_base=[KERNEL, TIE,
                      "str::split / str::replace / str::parse::<usize> / Vec::get / Map::get modelled by their documented semantics"],
        assumptions=["Rust std string and slice primitives behave as documented",
                     "json! macro expansion (rustc macro matcher) is exercised by correspondence only"],
        partial=["Index/IndexMut/get/take, PartialEq with primitives and json! are not yet modelled (correspondence pending)"],
        technique="Lean 4 theorem: model of Value::pointer/pointer_mut = RFC 6901 evaluator for all values and pointers; "
                  "constants regenerated from source; differential run against the crate",
        level_text="Machine-checked Lean 4 theorems (c18_pointer, c18_pointer_mut, c18_unescape, c18_parse_index) state that the "
                   "transcription of Value::pointer / pointer_mut equals an RFC 6901 reference evaluator for every value and every "
                   "pointer string. The replace chain, split character and parse_index guards are re-extracted from src/value/mod.rs "
                   "on every run, and the model is run against the real crate on generated and exhaustive short pointers.",
        level_note="Trusted: Lean kernel + propext/Classical.choice/Quot.sound; extract.py; the harness/driver comparison; std "
                   "string primitives (split, replace, parse::<usize>) modelled by documented semantics. Not yet covered: "
                   "Index/IndexMut/get/take, PartialEq with primitives, json! macro.",
    ),
}

# properties not claimed yet (kept current as checks are added)
NOT_APPLICABLE = [
    dict(property_id=f"C{i:02d}", reason="check under construction in this build phase; not yet claimed (see DESIGN.md §11 build order)")
    for i in range(1, 21) if f"C{i:02d}" not in PROPS
]
