#!/bin/bash
# usage: tools/tryseed.sh <patch.diff> <Cxx> [tier]   — apply a seeded change to /repo, run the check, undo it
set -u
patch=$1; prop=$2; tier=${3:-quick}
cd /repo || exit 2
if ! git apply --check "$patch" 2>/dev/null; then echo "PATCH DOES NOT APPLY: $patch"; exit 3; fi
git apply "$patch"
cd /verif && ./check "$prop" "$tier"; rc=$?
git -C /repo checkout -- . 
echo "tryseed: $patch on $prop -> rc=$rc"
exit $rc
