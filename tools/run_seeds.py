#!/usr/bin/env python3
"""Run the checks against every confirmed seeded change, on scratch copies (VERIF_REPO) so that /repo and /verif stay
untouched while other work goes on. usage: run_seeds.py <verif-copy> <repo-copy> [Cxx ...]
Writes <verif-copy>/work/seed_results.json : {seed id: [{check, rc, line, summary}]}."""
import json, os, subprocess, sys, glob, re
vcopy, rcopy = sys.argv[1], sys.argv[2]
only = [a for a in sys.argv[3:] if not a.startswith("--")]
shard = next((a for a in sys.argv[3:] if a.startswith("--shard=")), "--shard=0/1")[8:]
SH_I, SH_N = map(int, shard.split("/"))
own_only = "--own" in sys.argv
RELATED = {  # other properties whose checks plausibly see a seed of this property
    "C01": ["C02", "C09"], "C02": ["C01", "C06"], "C05": ["C02", "C03", "C04"], "C06": ["C02"], "C08": ["C02"], "C09": ["C11"],
    "C10": ["C12"], "C11": ["C09"], "C03": ["C04", "C13"], "C04": ["C03"], "C07": ["C04"], "C18": [], "C17": ["C02"],
}
res = {}
out_path = os.path.join(vcopy, "work", "seed_results_%d.json" % SH_I)
os.makedirs(os.path.dirname(out_path), exist_ok=True)
for _k, d in enumerate(sorted(glob.glob("/verif/seeded/C??-*"))):
    if _k % SH_N != SH_I: continue
    sid = os.path.basename(d); prop = sid[:3]
    if only and prop not in only: continue
    meta = json.load(open(os.path.join(d, "meta.json")))
    if meta.get("confirmed", {}).get("status") != "confirmed": continue
    subprocess.run(["git", "-C", rcopy, "checkout", "-q", "--", "."])
    if subprocess.run(["git", "-C", rcopy, "apply", os.path.join(d, "patch.diff")]).returncode != 0:
        res[sid] = [dict(check=prop, rc=-1, line="patch does not apply")]; continue
    runs = []
    for chk in [prop] + ([] if own_only else RELATED.get(prop, [])):
        p = subprocess.run(["./check", chk, "quick"], cwd=vcopy, env=dict(os.environ, VERIF_REPO=rcopy, VERIF_SEED="1"),
                           stdout=subprocess.PIPE, stderr=subprocess.STDOUT, text=True)
        lines = [l for l in p.stdout.splitlines() if l.startswith("VIOLATION") or " quick: " in l]
        viol = next((l for l in lines if l.startswith("VIOLATION")), "")
        summ = next((l for l in lines if " quick: " in l), "")
        replay = ""
        m = re.search(r"replay=(\S+)", viol)
        if m and os.path.exists(m.group(1)):
            try:
                r = json.load(open(m.group(1)))
                replay = (r.get("case") or (r.get("broken_obligations") or [{}])[0].get("name", ""))[:300]
            except Exception: pass
        runs.append(dict(check=chk, rc=p.returncode, line=viol, summary=summ, replay_case=replay))
        print(sid, chk, p.returncode, viol[:120], flush=True)
    res[sid] = runs
    json.dump(res, open(out_path, "w"), indent=1)
subprocess.run(["git", "-C", rcopy, "checkout", "-q", "--", "."])
