//! The typed universe on the Rust side (`lean/SJ/Spec/Schema.lean` is the other side): a `Schema` is a
//! "type program"; `Seed(&schema)` is a universal `DeserializeSeed` that issues exactly the
//! `deserialize_*` request matching the schema node against ANY `serde::Deserializer` and uses
//! visitors of the standard shapes — serde's own impls for the leaves (`bool`, the twelve integers,
//! floats, `char`, `String`, `()`, `IgnoredAny`, `serde_bytes::ByteBuf`, `Value`), and hand-written
//! copies of what `serde_derive` generates for the containers (Option, newtype struct, Vec, fixed
//! tuple, map, struct from seq or map with `__Field` identifiers, externally tagged enum).
//! The result is a `TVal`, printed in the one-token wire encoding.
#![allow(dead_code)]
use crate::common::{gen_string, gen_value, hex, unhex, Rng};
use serde::de::{
    self, Deserialize, DeserializeSeed, Deserializer, EnumAccess, Error as _, IgnoredAny, MapAccess, SeqAccess,
    Unexpected, VariantAccess, Visitor,
};
use serde_json::{Map, Number, Value};
use std::collections::HashMap;
use std::fmt;
use std::sync::Mutex;

#[derive(Clone, Copy, Debug, PartialEq, Eq)]
pub enum IntTy { I8, I16, I32, I64, I128, U8, U16, U32, U64, U128 }
pub const INT_TYS: [IntTy; 10] = [IntTy::I8, IntTy::I16, IntTy::I32, IntTy::I64, IntTy::I128, IntTy::U8, IntTy::U16, IntTy::U32, IntTy::U64, IntTy::U128];
impl IntTy {
    pub fn tag(self) -> char {
        match self { IntTy::I8 => 'a', IntTy::I16 => 'b', IntTy::I32 => 'c', IntTy::I64 => 'd', IntTy::I128 => 'e',
                     IntTy::U8 => 'A', IntTy::U16 => 'B', IntTy::U32 => 'C', IntTy::U64 => 'D', IntTy::U128 => 'E' }
    }
    pub fn of_tag(c: u8) -> IntTy { *INT_TYS.iter().find(|t| t.tag() as u8 == c).expect("int tag") }
    pub fn signed(self) -> bool { matches!(self, IntTy::I8 | IntTy::I16 | IntTy::I32 | IntTy::I64 | IntTy::I128) }
    pub fn bits(self) -> u32 {
        match self { IntTy::I8 | IntTy::U8 => 8, IntTy::I16 | IntTy::U16 => 16, IntTy::I32 | IntTy::U32 => 32,
                     IntTy::I64 | IntTy::U64 => 64, _ => 128 }
    }
}

#[derive(Clone, Debug, PartialEq)]
pub enum KeyKind { Str, Int(IntTy), Bool, Char, UnitEnum(Vec<String>) }

#[derive(Clone, Debug, PartialEq)]
pub enum Shape { Unit, Newtype(Box<Schema>), Tuple(Vec<Schema>), Struct(Vec<(String, Schema)>) }

#[derive(Clone, Debug, PartialEq)]
pub enum Schema {
    Bool, Int(IntTy), F64, F32, Char, Str, Bytes, Option(Box<Schema>), Unit, UnitStruct, Newtype(Box<Schema>),
    Seq(Box<Schema>), Tuple(Vec<Schema>), Map(KeyKind, Box<Schema>), Struct(Vec<(String, Schema)>, bool),
    Enum(Vec<(String, Shape)>), Ignored, Any,
}

/// typed results; integers as sign + magnitude (covers i128::MIN ..= u128::MAX)
#[derive(Clone, Debug, PartialEq)]
pub enum TVal {
    Bool(bool), Int(bool, u128), F64(u64), F32(u32), Char(char), Str(String), Bytes(Vec<u8>), None, Some(Box<TVal>),
    Unit, Seq(Vec<TVal>), Map(Vec<(TVal, TVal)>), Struct(Vec<TVal>), Variant(usize, Box<TVal>), Ignored, Any(Value),
}
impl TVal {
    fn i(x: i128) -> TVal { TVal::Int(x < 0, x.unsigned_abs()) }
    fn u(x: u128) -> TVal { TVal::Int(false, x) }
}

// ---------------------------------------------------------------- wire codecs (see Schema.lean)

fn enc_name(n: &str, o: &mut String) { o.push_str(&hex(n.as_bytes())); o.push(';'); }

pub fn enc_key(k: &KeyKind, o: &mut String) {
    match k {
        KeyKind::Str => o.push('s'),
        KeyKind::Int(w) => { o.push('i'); o.push(w.tag()); }
        KeyKind::Bool => o.push('b'),
        KeyKind::Char => o.push('c'),
        KeyKind::UnitEnum(ns) => { o.push_str(&format!("e{};", ns.len())); for n in ns { enc_name(n, o); } }
    }
}
fn enc_fields(fs: &[(String, Schema)], o: &mut String) { for (n, s) in fs { enc_name(n, o); enc_schema_into(s, o); } }
pub fn enc_schema_into(s: &Schema, o: &mut String) {
    match s {
        Schema::Bool => o.push('b'),
        Schema::Int(w) => { o.push('i'); o.push(w.tag()); }
        Schema::F64 => o.push('d'), Schema::F32 => o.push('g'), Schema::Char => o.push('c'), Schema::Str => o.push('s'),
        Schema::Bytes => o.push('y'),
        Schema::Option(x) => { o.push('O'); enc_schema_into(x, o); }
        Schema::Unit => o.push('u'), Schema::UnitStruct => o.push('U'),
        Schema::Newtype(x) => { o.push('N'); enc_schema_into(x, o); }
        Schema::Seq(x) => { o.push('Q'); enc_schema_into(x, o); }
        Schema::Tuple(xs) => { o.push_str(&format!("T{};", xs.len())); for x in xs { enc_schema_into(x, o); } }
        Schema::Map(k, x) => { o.push('M'); enc_key(k, o); enc_schema_into(x, o); }
        Schema::Struct(fs, deny) => { o.push_str(&format!("S{}{};", if *deny { 1 } else { 0 }, fs.len())); enc_fields(fs, o); }
        Schema::Enum(vs) => {
            o.push_str(&format!("E{};", vs.len()));
            for (n, sh) in vs {
                enc_name(n, o);
                match sh {
                    Shape::Unit => o.push('u'),
                    Shape::Newtype(x) => { o.push('n'); enc_schema_into(x, o); }
                    Shape::Tuple(xs) => { o.push_str(&format!("t{};", xs.len())); for x in xs { enc_schema_into(x, o); } }
                    Shape::Struct(fs) => { o.push_str(&format!("r{};", fs.len())); enc_fields(fs, o); }
                }
            }
        }
        Schema::Ignored => o.push('x'), Schema::Any => o.push('a'),
    }
}
pub fn enc_schema(s: &Schema) -> String { let mut o = String::new(); enc_schema_into(s, &mut o); o }

pub fn enc_tval_into(v: &TVal, o: &mut String) {
    match v {
        TVal::Bool(true) => o.push('t'), TVal::Bool(false) => o.push('f'),
        TVal::Int(neg, m) => o.push_str(&format!("{}{};", if *neg && *m != 0 { 'j' } else { 'i' }, m)),
        TVal::F64(b) => o.push_str(&format!("d{:016x}", b)),
        TVal::F32(b) => o.push_str(&format!("g{:08x}", b)),
        TVal::Char(c) => o.push_str(&format!("c{:x};", *c as u32)),
        TVal::Str(s) => { o.push('s'); o.push_str(&hex(s.as_bytes())); o.push(';'); }
        TVal::Bytes(b) => { o.push('y'); o.push_str(&hex(b)); o.push(';'); }
        TVal::None => o.push('n'),
        TVal::Some(x) => { o.push('S'); enc_tval_into(x, o); }
        TVal::Unit => o.push('u'),
        TVal::Seq(xs) => { o.push_str(&format!("Q{};", xs.len())); for x in xs { enc_tval_into(x, o); } }
        TVal::Map(kvs) => { o.push_str(&format!("M{};", kvs.len())); for (k, x) in kvs { enc_tval_into(k, o); enc_tval_into(x, o); } }
        TVal::Struct(xs) => { o.push_str(&format!("R{};", xs.len())); for x in xs { enc_tval_into(x, o); } }
        TVal::Variant(i, x) => { o.push_str(&format!("V{};", i)); enc_tval_into(x, o); }
        TVal::Ignored => o.push('x'),
        TVal::Any(x) => { o.push('a'); crate::common::enc_value(x, o); }
    }
}
pub fn enc_tval(v: &TVal) -> String { let mut o = String::new(); enc_tval_into(v, &mut o); o }

struct Cur<'a> { b: &'a [u8], i: usize }
impl<'a> Cur<'a> {
    fn next(&mut self) -> u8 { let c = self.b[self.i]; self.i += 1; c }
    fn semi(&mut self) -> &'a str { let st = self.i; while self.b[self.i] != b';' { self.i += 1; } let r = &self.b[st..self.i]; self.i += 1; std::str::from_utf8(r).unwrap() }
    fn count(&mut self) -> usize { self.semi().parse().unwrap() }
    fn name(&mut self) -> String { String::from_utf8(unhex(self.semi())).unwrap() }
}
fn dec_key(c: &mut Cur) -> KeyKind {
    match c.next() {
        b's' => KeyKind::Str, b'i' => KeyKind::Int(IntTy::of_tag(c.next())), b'b' => KeyKind::Bool, b'c' => KeyKind::Char,
        b'e' => { let n = c.count(); KeyKind::UnitEnum((0..n).map(|_| c.name()).collect()) }
        x => panic!("bad key kind {}", x as char),
    }
}
fn dec_fields(c: &mut Cur) -> Vec<(String, Schema)> { let n = c.count(); (0..n).map(|_| { let k = c.name(); (k, dec_schema_cur(c)) }).collect() }
fn dec_schema_cur(c: &mut Cur) -> Schema {
    match c.next() {
        b'b' => Schema::Bool, b'i' => Schema::Int(IntTy::of_tag(c.next())), b'd' => Schema::F64, b'g' => Schema::F32,
        b'c' => Schema::Char, b's' => Schema::Str, b'y' => Schema::Bytes, b'u' => Schema::Unit, b'U' => Schema::UnitStruct,
        b'x' => Schema::Ignored, b'a' => Schema::Any,
        b'O' => Schema::Option(Box::new(dec_schema_cur(c))),
        b'N' => Schema::Newtype(Box::new(dec_schema_cur(c))),
        b'Q' => Schema::Seq(Box::new(dec_schema_cur(c))),
        b'T' => { let n = c.count(); Schema::Tuple((0..n).map(|_| dec_schema_cur(c)).collect()) }
        b'M' => { let k = dec_key(c); Schema::Map(k, Box::new(dec_schema_cur(c))) }
        b'S' => { let d = c.next() == b'1'; Schema::Struct(dec_fields(c), d) }
        b'E' => {
            let n = c.count();
            Schema::Enum((0..n).map(|_| {
                let k = c.name();
                let sh = match c.next() {
                    b'u' => Shape::Unit,
                    b'n' => Shape::Newtype(Box::new(dec_schema_cur(c))),
                    b't' => { let m = c.count(); Shape::Tuple((0..m).map(|_| dec_schema_cur(c)).collect()) }
                    b'r' => Shape::Struct(dec_fields(c)),
                    x => panic!("bad shape {}", x as char),
                };
                (k, sh)
            }).collect())
        }
        x => panic!("bad schema tag {}", x as char),
    }
}
/// decoder of the Schema wire token
pub fn dec_schema(s: &str) -> Schema { let mut c = Cur { b: s.as_bytes(), i: 0 }; dec_schema_cur(&mut c) }

// ---------------------------------------------------------------- interning (&'static str for serde)

static NAMES: Mutex<Option<HashMap<String, &'static str>>> = Mutex::new(None);
static LISTS: Mutex<Option<HashMap<Vec<String>, &'static [&'static str]>>> = Mutex::new(None);

/// serde wants `&'static str` names: leaked once per distinct name (names come from a fixed pool)
pub fn intern(s: &str) -> &'static str {
    let mut g = NAMES.lock().unwrap();
    let m = g.get_or_insert_with(HashMap::new);
    if let Some(x) = m.get(s) { return x; }
    let l: &'static str = Box::leak(s.to_string().into_boxed_str());
    m.insert(s.to_string(), l);
    l
}
pub fn intern_list<'a, I: Iterator<Item = &'a String>>(names: I) -> &'static [&'static str] {
    let key: Vec<String> = names.cloned().collect();
    {
        let mut g = LISTS.lock().unwrap();
        let m = g.get_or_insert_with(HashMap::new);
        if let Some(x) = m.get(&key) { return x; }
    }
    let v: Vec<&'static str> = key.iter().map(|s| intern(s)).collect();
    let l: &'static [&'static str] = Box::leak(v.into_boxed_slice());
    LISTS.lock().unwrap().as_mut().unwrap().insert(key, l);
    l
}

// ---------------------------------------------------------------- the universal seed

pub struct Seed<'a>(pub &'a Schema);

fn de_int<'de, D: Deserializer<'de>>(w: IntTy, d: D) -> Result<TVal, D::Error> {
    Ok(match w {
        IntTy::I8 => TVal::i(i8::deserialize(d)? as i128), IntTy::I16 => TVal::i(i16::deserialize(d)? as i128),
        IntTy::I32 => TVal::i(i32::deserialize(d)? as i128), IntTy::I64 => TVal::i(i64::deserialize(d)? as i128),
        IntTy::I128 => TVal::i(i128::deserialize(d)?),
        IntTy::U8 => TVal::u(u8::deserialize(d)? as u128), IntTy::U16 => TVal::u(u16::deserialize(d)? as u128),
        IntTy::U32 => TVal::u(u32::deserialize(d)? as u128), IntTy::U64 => TVal::u(u64::deserialize(d)? as u128),
        IntTy::U128 => TVal::u(u128::deserialize(d)?),
    })
}

impl<'de, 'a> DeserializeSeed<'de> for Seed<'a> {
    type Value = TVal;
    fn deserialize<D: Deserializer<'de>>(self, d: D) -> Result<TVal, D::Error> {
        match self.0 {
            Schema::Bool => bool::deserialize(d).map(TVal::Bool),
            Schema::Int(w) => de_int(*w, d),
            Schema::F64 => f64::deserialize(d).map(|x| TVal::F64(x.to_bits())),
            Schema::F32 => f32::deserialize(d).map(|x| TVal::F32(x.to_bits())),
            Schema::Char => char::deserialize(d).map(TVal::Char),
            Schema::Str => String::deserialize(d).map(TVal::Str),
            Schema::Bytes => serde_bytes::ByteBuf::deserialize(d).map(|b| TVal::Bytes(b.into_vec())),
            Schema::Option(s) => d.deserialize_option(OptionVisitor(s)),
            Schema::Unit => <()>::deserialize(d).map(|_| TVal::Unit),
            Schema::UnitStruct => d.deserialize_unit_struct("U", UnitStructVisitor),
            Schema::Newtype(s) => d.deserialize_newtype_struct("N", NewtypeVisitor(s)),
            Schema::Seq(s) => d.deserialize_seq(SeqVisitor(s)),
            Schema::Tuple(ss) => d.deserialize_tuple(ss.len(), TupleVisitor(ss)),
            Schema::Map(k, s) => d.deserialize_map(MapVisitor(k, s)),
            Schema::Struct(fs, deny) => {
                let names = intern_list(fs.iter().map(|f| &f.0));
                d.deserialize_struct("S", names, StructVisitor { fields: fs, deny: *deny, names })
            }
            Schema::Enum(vs) => {
                let names = intern_list(vs.iter().map(|v| &v.0));
                d.deserialize_enum("E", names, EnumVisitor { variants: vs, names })
            }
            Schema::Ignored => IgnoredAny::deserialize(d).map(|_| TVal::Ignored),
            Schema::Any => Value::deserialize(d).map(TVal::Any),
        }
    }
}

/// serde's `OptionVisitor`
struct OptionVisitor<'a>(&'a Schema);
impl<'de, 'a> Visitor<'de> for OptionVisitor<'a> {
    type Value = TVal;
    fn expecting(&self, f: &mut fmt::Formatter) -> fmt::Result { f.write_str("option") }
    fn visit_unit<E: de::Error>(self) -> Result<TVal, E> { Ok(TVal::None) }
    fn visit_none<E: de::Error>(self) -> Result<TVal, E> { Ok(TVal::None) }
    fn visit_some<D: Deserializer<'de>>(self, d: D) -> Result<TVal, D::Error> { Seed(self.0).deserialize(d).map(|v| TVal::Some(Box::new(v))) }
}

/// derive: `struct U;`
struct UnitStructVisitor;
impl<'de> Visitor<'de> for UnitStructVisitor {
    type Value = TVal;
    fn expecting(&self, f: &mut fmt::Formatter) -> fmt::Result { f.write_str("unit struct U") }
    fn visit_unit<E: de::Error>(self) -> Result<TVal, E> { Ok(TVal::Unit) }
}

/// derive: `struct N(T);`
struct NewtypeVisitor<'a>(&'a Schema);
impl<'de, 'a> Visitor<'de> for NewtypeVisitor<'a> {
    type Value = TVal;
    fn expecting(&self, f: &mut fmt::Formatter) -> fmt::Result { f.write_str("tuple struct N") }
    fn visit_newtype_struct<D: Deserializer<'de>>(self, d: D) -> Result<TVal, D::Error> { Seed(self.0).deserialize(d) }
    fn visit_seq<A: SeqAccess<'de>>(self, mut seq: A) -> Result<TVal, A::Error> {
        match seq.next_element_seed(Seed(self.0))? {
            Some(v) => Ok(v),
            None => Err(de::Error::invalid_length(0, &"tuple struct N with 1 element")),
        }
    }
}

/// serde's `VecVisitor`
struct SeqVisitor<'a>(&'a Schema);
impl<'de, 'a> Visitor<'de> for SeqVisitor<'a> {
    type Value = TVal;
    fn expecting(&self, f: &mut fmt::Formatter) -> fmt::Result { f.write_str("a sequence") }
    fn visit_seq<A: SeqAccess<'de>>(self, mut seq: A) -> Result<TVal, A::Error> {
        let mut out = Vec::new();
        while let Some(v) = seq.next_element_seed(Seed(self.0))? { out.push(v); }
        Ok(TVal::Seq(out))
    }
}

/// serde's `TupleVisitor` of fixed length
struct TupleVisitor<'a>(&'a [Schema]);
struct TupleExp(usize);
impl de::Expected for TupleExp { fn fmt(&self, f: &mut fmt::Formatter) -> fmt::Result { write!(f, "a tuple of size {}", self.0) } }
impl<'de, 'a> Visitor<'de> for TupleVisitor<'a> {
    type Value = TVal;
    fn expecting(&self, f: &mut fmt::Formatter) -> fmt::Result { write!(f, "a tuple of size {}", self.0.len()) }
    fn visit_seq<A: SeqAccess<'de>>(self, mut seq: A) -> Result<TVal, A::Error> {
        let mut out = Vec::with_capacity(self.0.len());
        for (i, s) in self.0.iter().enumerate() {
            match seq.next_element_seed(Seed(s))? {
                Some(v) => out.push(v),
                None => return Err(de::Error::invalid_length(i, &TupleExp(self.0.len()))),
            }
        }
        Ok(TVal::Seq(out))
    }
}

/// serde's map visitor (`BTreeMap`/`HashMap` shape, but keeping the visiting order and duplicates)
struct MapVisitor<'a>(&'a KeyKind, &'a Schema);
impl<'de, 'a> Visitor<'de> for MapVisitor<'a> {
    type Value = TVal;
    fn expecting(&self, f: &mut fmt::Formatter) -> fmt::Result { f.write_str("a map") }
    fn visit_map<A: MapAccess<'de>>(self, mut map: A) -> Result<TVal, A::Error> {
        let mut out = Vec::new();
        while let Some(k) = map.next_key_seed(KeySeed(self.0))? {
            let v = map.next_value_seed(Seed(self.1))?;
            out.push((k, v));
        }
        Ok(TVal::Map(out))
    }
}

/// map keys by kind: `String`, an integer, `bool`, `char`, or a derive-shaped enum of unit variants
pub struct KeySeed<'a>(pub &'a KeyKind);
impl<'de, 'a> DeserializeSeed<'de> for KeySeed<'a> {
    type Value = TVal;
    fn deserialize<D: Deserializer<'de>>(self, d: D) -> Result<TVal, D::Error> {
        match self.0 {
            KeyKind::Str => String::deserialize(d).map(TVal::Str),
            KeyKind::Int(w) => de_int(*w, d),
            KeyKind::Bool => bool::deserialize(d).map(TVal::Bool),
            KeyKind::Char => char::deserialize(d).map(TVal::Char),
            KeyKind::UnitEnum(ns) => {
                let names = intern_list(ns.iter());
                d.deserialize_enum("K", names, UnitEnumVisitor { n: ns, names })
            }
        }
    }
}
struct UnitEnumVisitor<'a> { n: &'a [String], names: &'static [&'static str] }
impl<'de, 'a> Visitor<'de> for UnitEnumVisitor<'a> {
    type Value = TVal;
    fn expecting(&self, f: &mut fmt::Formatter) -> fmt::Result { f.write_str("enum K") }
    fn visit_enum<A: EnumAccess<'de>>(self, data: A) -> Result<TVal, A::Error> {
        let (idx, variant) = data.variant_seed(VariantId { n: self.n.len(), names: self.names })?;
        variant.unit_variant()?;
        Ok(TVal::Variant(idx, Box::new(TVal::Unit)))
    }
}

/// derive's `__Field` identifier of a struct: `Some(index)` or `None` = `__ignore`
struct FieldId { names: &'static [&'static str], deny: bool }
struct IndexExp(&'static str, usize);
impl de::Expected for IndexExp { fn fmt(&self, f: &mut fmt::Formatter) -> fmt::Result { write!(f, "{} index 0 <= i < {}", self.0, self.1) } }
impl<'de> DeserializeSeed<'de> for FieldId {
    type Value = Option<usize>;
    fn deserialize<D: Deserializer<'de>>(self, d: D) -> Result<Option<usize>, D::Error> { d.deserialize_identifier(self) }
}
impl<'de> Visitor<'de> for FieldId {
    type Value = Option<usize>;
    fn expecting(&self, f: &mut fmt::Formatter) -> fmt::Result { f.write_str("field identifier") }
    fn visit_u64<E: de::Error>(self, v: u64) -> Result<Option<usize>, E> {
        if (v as usize) < self.names.len() { Ok(Some(v as usize)) }
        else if self.deny { Err(E::invalid_value(Unexpected::Unsigned(v), &IndexExp("field", self.names.len()))) }
        else { Ok(None) }
    }
    fn visit_str<E: de::Error>(self, v: &str) -> Result<Option<usize>, E> {
        match self.names.iter().position(|n| *n == v) {
            Some(i) => Ok(Some(i)),
            None => if self.deny { Err(E::unknown_field(v, self.names)) } else { Ok(None) },
        }
    }
    fn visit_bytes<E: de::Error>(self, v: &[u8]) -> Result<Option<usize>, E> {
        match self.names.iter().position(|n| n.as_bytes() == v) {
            Some(i) => Ok(Some(i)),
            None => if self.deny { Err(E::unknown_field(&String::from_utf8_lossy(v), self.names)) } else { Ok(None) },
        }
    }
}

/// derive's `__Field` identifier of an enum
struct VariantId { n: usize, names: &'static [&'static str] }
impl<'de> DeserializeSeed<'de> for VariantId {
    type Value = usize;
    fn deserialize<D: Deserializer<'de>>(self, d: D) -> Result<usize, D::Error> { d.deserialize_identifier(self) }
}
impl<'de> Visitor<'de> for VariantId {
    type Value = usize;
    fn expecting(&self, f: &mut fmt::Formatter) -> fmt::Result { f.write_str("variant identifier") }
    fn visit_u64<E: de::Error>(self, v: u64) -> Result<usize, E> {
        if (v as usize) < self.n { Ok(v as usize) } else { Err(E::invalid_value(Unexpected::Unsigned(v), &IndexExp("variant", self.n))) }
    }
    fn visit_str<E: de::Error>(self, v: &str) -> Result<usize, E> {
        self.names.iter().position(|n| *n == v).ok_or_else(|| E::unknown_variant(v, self.names))
    }
    fn visit_bytes<E: de::Error>(self, v: &[u8]) -> Result<usize, E> {
        self.names.iter().position(|n| n.as_bytes() == v).ok_or_else(|| E::unknown_variant(&String::from_utf8_lossy(v), self.names))
    }
}

/// `serde::__private::de::missing_field`: the field's type is deserialized from a deserializer whose
/// `deserialize_option` answers `visit_none` and whose every other method fails with `missing_field`
struct MissingFieldDeserializer<E>(&'static str, std::marker::PhantomData<E>);
impl<'de, E: de::Error> Deserializer<'de> for MissingFieldDeserializer<E> {
    type Error = E;
    fn deserialize_any<V: Visitor<'de>>(self, _visitor: V) -> Result<V::Value, E> { Err(E::missing_field(self.0)) }
    fn deserialize_option<V: Visitor<'de>>(self, visitor: V) -> Result<V::Value, E> { visitor.visit_none() }
    serde::forward_to_deserialize_any! {
        bool i8 i16 i32 i64 i128 u8 u16 u32 u64 u128 f32 f64 char str string bytes byte_buf unit unit_struct
        newtype_struct seq tuple tuple_struct map struct enum identifier ignored_any
    }
}

/// derive: `struct S { f0: T0, … }` (optionally `#[serde(deny_unknown_fields)]`)
struct StructVisitor<'a> { fields: &'a [(String, Schema)], deny: bool, names: &'static [&'static str] }
struct StructExp(usize);
impl de::Expected for StructExp { fn fmt(&self, f: &mut fmt::Formatter) -> fmt::Result { write!(f, "struct S with {} elements", self.0) } }
impl<'de, 'a> Visitor<'de> for StructVisitor<'a> {
    type Value = TVal;
    fn expecting(&self, f: &mut fmt::Formatter) -> fmt::Result { f.write_str("struct S") }
    fn visit_seq<A: SeqAccess<'de>>(self, mut seq: A) -> Result<TVal, A::Error> {
        let mut out = Vec::with_capacity(self.fields.len());
        for (i, (_, s)) in self.fields.iter().enumerate() {
            match seq.next_element_seed(Seed(s))? {
                Some(v) => out.push(v),
                None => return Err(de::Error::invalid_length(i, &StructExp(self.fields.len()))),
            }
        }
        Ok(TVal::Struct(out))
    }
    fn visit_map<A: MapAccess<'de>>(self, mut map: A) -> Result<TVal, A::Error> {
        let mut slots: Vec<Option<TVal>> = vec![None; self.fields.len()];
        while let Some(key) = map.next_key_seed(FieldId { names: self.names, deny: self.deny })? {
            match key {
                Some(i) => {
                    if slots[i].is_some() { return Err(de::Error::duplicate_field(self.names[i])); }
                    slots[i] = Some(map.next_value_seed(Seed(&self.fields[i].1))?);
                }
                None => { let _: IgnoredAny = map.next_value()?; }
            }
        }
        let mut out = Vec::with_capacity(slots.len());
        for (i, slot) in slots.into_iter().enumerate() {
            out.push(match slot {
                Some(v) => v,
                None => Seed(&self.fields[i].1).deserialize(MissingFieldDeserializer::<A::Error>(self.names[i], std::marker::PhantomData))?,
            });
        }
        Ok(TVal::Struct(out))
    }
}

/// derive: externally tagged `enum E { … }`
struct EnumVisitor<'a> { variants: &'a [(String, Shape)], names: &'static [&'static str] }
impl<'de, 'a> Visitor<'de> for EnumVisitor<'a> {
    type Value = TVal;
    fn expecting(&self, f: &mut fmt::Formatter) -> fmt::Result { f.write_str("enum E") }
    fn visit_enum<A: EnumAccess<'de>>(self, data: A) -> Result<TVal, A::Error> {
        let (idx, variant) = data.variant_seed(VariantId { n: self.variants.len(), names: self.names })?;
        let payload = match &self.variants[idx].1 {
            Shape::Unit => { variant.unit_variant()?; TVal::Unit }
            Shape::Newtype(s) => variant.newtype_variant_seed(Seed(s))?,
            Shape::Tuple(ss) => variant.tuple_variant(ss.len(), TupleVisitor(ss))?,
            Shape::Struct(fs) => {
                let names = intern_list(fs.iter().map(|f| &f.0));
                variant.struct_variant(names, StructVisitor { fields: fs, deny: false, names })?
            }
        };
        Ok(TVal::Variant(idx, Box::new(payload)))
    }
}

// ---------------------------------------------------------------- generators

/// field / variant / key names (escape-relevant, numeric-looking, empty)
pub const NAME_POOL: &[&str] = &["a", "b", "c", "key", "V", "W", "x y", "é", "", "0", "1", "true", "q\"t", "nl\n", "type", "longer_field_name"];

fn distinct_names(r: &mut Rng, n: usize) -> Vec<String> {
    let mut out: Vec<String> = vec![];
    while out.len() < n { let c = r.pick(NAME_POOL).to_string(); if !out.contains(&c) { out.push(c); } }
    out
}

pub fn gen_key_kind(r: &mut Rng) -> KeyKind {
    match r.below(8) {
        0 | 1 => KeyKind::Str,
        2 | 3 | 4 => KeyKind::Int(*r.pick(&INT_TYS)),
        5 => KeyKind::Bool,
        6 => KeyKind::Char,
        _ => { let n = 1 + r.below(3); KeyKind::UnitEnum(distinct_names(r, n)) }
    }
}

fn gen_fields(r: &mut Rng, depth: usize, max: usize) -> Vec<(String, Schema)> {
    let n = r.below(max + 1);
    distinct_names(r, n).into_iter().map(|k| { let s = gen_schema(r, depth); (k, s) }).collect()
}

/// random schema; f32 targets and zero-length tuple variants (outside the claim) are produced rarely
pub fn gen_schema(r: &mut Rng, depth: usize) -> Schema {
    let k = if depth == 0 { r.below(11) } else { r.below(22) };
    match k {
        0 => Schema::Bool,
        1 | 2 => Schema::Int(*r.pick(&INT_TYS)),
        3 => if r.chance(1, 25) { Schema::F32 } else { Schema::F64 },
        4 => Schema::Char,
        5 => Schema::Str,
        6 => Schema::Bytes,
        7 => Schema::Unit,
        8 => Schema::UnitStruct,
        9 => Schema::Ignored,
        10 => Schema::Any,
        11 | 12 => Schema::Option(Box::new(gen_schema(r, depth - 1))),
        13 => Schema::Newtype(Box::new(gen_schema(r, depth - 1))),
        14 => Schema::Seq(Box::new(gen_schema(r, depth - 1))),
        15 | 16 => { let n = r.below(4); Schema::Tuple((0..n).map(|_| gen_schema(r, depth - 1)).collect()) }
        17 => { let k = gen_key_kind(r); Schema::Map(k, Box::new(gen_schema(r, depth - 1))) }
        18 | 19 => { let deny = r.chance(1, 3); Schema::Struct(gen_fields(r, depth - 1, 4), deny) }
        _ => {
            let n = 1 + r.below(4);
            let names = distinct_names(r, n);
            Schema::Enum(names.into_iter().map(|k| {
                let sh = match r.below(7) {
                    0 | 1 => Shape::Unit,
                    2 | 3 => Shape::Newtype(Box::new(gen_schema(r, depth - 1))),
                    4 => { let m = if r.chance(1, 30) { 0 } else { 1 + r.below(3) }; Shape::Tuple((0..m).map(|_| gen_schema(r, depth - 1)).collect()) }
                    _ => Shape::Struct(gen_fields(r, depth - 1, 3)),
                };
                (k, sh)
            }).collect())
        }
    }
}

/// number literals that `from_str::<Value>` turns into numbers (kept verbatim under arbitrary_precision)
pub const NUM_LITS: &[&str] = &[
    "0", "-0", "1", "-1", "255", "256", "-128", "-129", "65535", "65536", "1.0", "1.50", "1E5", "1e5", "0.1", "1e-7", "2.5e-3", "0e0", "-0.0",
    "4294967295", "4294967296", "9223372036854775807", "9223372036854775808", "-9223372036854775808", "-9223372036854775809",
    "18446744073709551615", "18446744073709551616", "100000000000000000000", "0.000001", "12345678901234567", "9007199254740993",
    "170141183460469231731687303715884105727", "170141183460469231731687303715884105728", "-170141183460469231731687303715884105728",
    "-170141183460469231731687303715884105729", "340282366920938463463374607431768211455", "340282366920938463463374607431768211456",
    "123456789012345678901234567890123456789012", "1e22", "1e23", "1.7976931348623157e308", "5e-324", "1e400", "-1e400", "1e-400", "123.456e-2",
];
fn lit(r: &mut Rng) -> Value {
    for _ in 0..4 { if let Ok(v) = serde_json::from_str::<Value>(*r.pick(NUM_LITS)) { return v; } }
    Value::from(0)
}

fn num_i128(x: i128) -> Value {
    // integers beyond [i64::MIN, u64::MAX] exist only under arbitrary_precision; otherwise fall back to the nearest bound
    match Number::from_i128(x) { Some(n) => Value::Number(n), None => if x < 0 { Value::from(i64::MIN) } else { Value::from(u64::MAX) } }
}
fn num_u128(x: u128) -> Value { match Number::from_u128(x) { Some(n) => Value::Number(n), None => Value::from(u64::MAX) } }

fn int_bounds(w: IntTy) -> (i128, u128) {
    // (lo, hi)
    if w.signed() { if w.bits() == 128 { (i128::MIN, i128::MAX as u128) } else { (-(1i128 << (w.bits() - 1)), (1u128 << (w.bits() - 1)) - 1) } }
    else if w.bits() == 128 { (0, u128::MAX) } else { (0, (1u128 << w.bits()) - 1) }
}

fn gen_int_value(w: IntTy, r: &mut Rng) -> Value {
    let (lo, hi) = int_bounds(w);
    match r.below(12) {
        0 => num_i128(lo), 1 => num_u128(hi), 2 => Value::from(0), 3 => Value::from(1), 4 => Value::from(-1),
        5 => num_u128(hi.wrapping_add(1)),                                  // just above
        6 => num_i128(lo.wrapping_sub(1)),                                  // just below
        7 => { let span = hi - r.below(3) as u128; num_u128(span) }
        8 => num_i128(lo + r.below(3) as i128),
        9 => Value::from([1.0, 1.5, -0.0, 0.0, 1e3, 255.0][r.below(6)]),     // floats never fit integer targets
        10 => lit(r),
        _ => { let x = (r.next() >> r.below(64)) as u128 % (hi / 2 + 1 + hi / 2); num_u128(x) }
    }
}

fn wrong_kind(r: &mut Rng) -> Value {
    match r.below(9) {
        0 => Value::Null, 1 => Value::Bool(r.chance(1, 2)), 2 => Value::from(r.below(3) as u64), 3 => Value::from(-1),
        4 => Value::from(0.5), 5 => Value::String(r.pick(&["", "a", "true", "0", "12", "null", "V"]).to_string()),
        6 => Value::Array(vec![]), 7 => Value::Object(Map::new()),
        _ => gen_value(r, 2),
    }
}

fn key_for(k: &KeyKind, r: &mut Rng) -> String {
    const BAD_NUM: &[&str] = &["01", "-3", "1.0", "1e0", "true", "", " 1", "1 ", "+1", "-0", "-", "00", "0x1", "1_0", "१", "1.", ".5", "-01", "12a", "\"1\"", "1\n", "7\u{0}", "7\u{0}8", "7\t", "7,", "170141183460469231731687303715884105728", "340282366920938463463374607431768211455",
        "256", "-129", "65536", "4294967296", "18446744073709551616", "-9223372036854775809", "340282366920938463463374607431768211456",
        "-170141183460469231731687303715884105729", "99999999999999999999999999999999999999999"];
    match k {
        KeyKind::Str => gen_string(r),
        KeyKind::Int(w) => {
            if r.chance(1, 4) { return r.pick(BAD_NUM).to_string(); }
            let (lo, hi) = int_bounds(*w);
            match r.below(6) { 0 => lo.to_string(), 1 => hi.to_string(), 2 => "0".into(), 3 => (r.below(300)).to_string(),
                               4 => format!("-{}", r.below(200)), _ => (hi - r.below(5) as u128).to_string() }
        }
        KeyKind::Bool => r.pick(&["true", "false", "true", "false", "True", "1", "", "truee", " true", "null"]).to_string(),
        KeyKind::Char => r.pick(&["a", "é", "\u{10348}", "\n", "\"", "0", "", "ab", "é\u{301}"]).to_string(),
        KeyKind::UnitEnum(ns) => if r.chance(1, 5) { r.pick(NAME_POOL).to_string() } else { r.pick(ns).clone() },
    }
}

fn fields_object(fs: &[(String, Schema)], r: &mut Rng) -> Value {
    let mut entries: Vec<(String, Value)> = vec![];
    for (k, s) in fs {
        if r.chance(1, 8) { continue; }                                    // missing field
        entries.push((k.clone(), gen_value_for(s, r)));
    }
    if r.chance(1, 5) { entries.push((r.pick(NAME_POOL).to_string(), gen_value(r, 2))); }   // unknown field (or a clash: last wins)
    if r.chance(1, 10) { entries.push(("zz".into(), wrong_kind(r))); }
    // shuffle (matters under preserve_order)
    for i in (1..entries.len()).rev() { let j = r.below(i + 1); entries.swap(i, j); }
    let mut m = Map::new();
    for (k, v) in entries { m.insert(k, v); }
    Value::Object(m)
}

fn elems_array(ss: &[Schema], r: &mut Rng) -> Value {
    let mut xs: Vec<Value> = ss.iter().map(|s| gen_value_for(s, r)).collect();
    match r.below(10) {
        0 => { xs.pop(); }                                                 // one element short
        1 => xs.push(wrong_kind(r)),                                       // one element too many
        2 => xs.clear(),
        _ => {}
    }
    Value::Array(xs)
}

/// a Value for the schema: usually matching, with deliberate mismatches at every level
pub fn gen_value_for(s: &Schema, r: &mut Rng) -> Value {
    if r.chance(1, 14) { return wrong_kind(r); }
    match s {
        Schema::Bool => Value::Bool(r.chance(1, 2)),
        Schema::Int(w) => gen_int_value(*w, r),
        Schema::F64 | Schema::F32 => match r.below(6) {
            0 => Value::from([0.5, -0.0, 1.5e300, 1e-7, 123456.789, 2.0, 0.1, 1e22, 1e23, 4.35, 1.7976931348623157e308, 5e-324, 0.30000000000000004][r.below(13)]),
            1 => Value::from(r.next() >> r.below(64)),
            2 => Value::from(-((r.next() >> (1 + r.below(63))) as i64)),
            3 => lit(r),
            4 => Value::from(f64::from_bits(r.next()).abs().min(1e308).max(0.0)),
            _ => Value::from(r.below(100) as f64 / 8.0),
        },
        Schema::Char => Value::String(r.pick(&["a", "é", "\u{10348}", "\n", "\"", "\\", "0", "", "ab", "e\u{301}", "\u{7f}", "\u{0}"]).to_string()),
        Schema::Str => Value::String(gen_string(r)),
        Schema::Bytes => match r.below(4) {
            0 => Value::String(gen_string(r)),
            1 => Value::Array((0..r.below(5)).map(|_| Value::from(r.below(256) as u64)).collect()),
            2 => Value::Array((0..1 + r.below(4)).map(|_| match r.below(6) { 0 => Value::from(256), 1 => Value::from(-1), 2 => Value::from(1.5), 3 => Value::String("a".into()), 4 => lit(r), _ => Value::from(r.below(256) as u64) }).collect()),
            _ => Value::Array(vec![Value::from(0), Value::from(255)]),
        },
        Schema::Option(x) => if r.chance(1, 3) { Value::Null } else { gen_value_for(x, r) },
        Schema::Unit | Schema::UnitStruct => Value::Null,
        Schema::Newtype(x) => if r.chance(1, 12) { Value::Array(vec![gen_value_for(x, r)]) } else { gen_value_for(x, r) },
        Schema::Seq(x) => { let n = if r.chance(1, 10) { 6 + r.below(4) } else { r.below(4) }; Value::Array((0..n).map(|_| gen_value_for(x, r)).collect()) }
        Schema::Tuple(ss) => elems_array(ss, r),
        Schema::Map(k, x) => {
            let n = r.below(4);
            let mut m = Map::new();
            for _ in 0..n { let key = key_for(k, r); let v = gen_value_for(x, r); m.insert(key, v); }
            Value::Object(m)
        }
        Schema::Struct(fs, _) => if r.chance(1, 4) {
            elems_array(&fs.iter().map(|f| f.1.clone()).collect::<Vec<_>>(), r)
        } else { fields_object(fs, r) },
        Schema::Enum(vs) => {
            let (name, sh) = r.pick(vs);
            let name = if r.chance(1, 12) { r.pick(NAME_POOL).to_string() } else { name.clone() };
            let payload = match sh {
                Shape::Unit => match r.below(5) { 0 => Some(Value::Null), 1 => Some(wrong_kind(r)), _ => None },
                Shape::Newtype(x) => if r.chance(1, 10) { None } else { Some(gen_value_for(x, r)) },
                Shape::Tuple(ss) => match r.below(10) { 0 => None, 1 => Some(Value::Array(vec![])), 2 => Some(Value::Object(Map::new())), _ => Some(elems_array(ss, r)) },
                Shape::Struct(fs) => match r.below(12) {
                    0 => None,
                    1 => Some(elems_array(&fs.iter().map(|f| f.1.clone()).collect::<Vec<_>>(), r)),   // struct variant as array: outside the claim
                    _ => Some(fields_object(fs, r)),
                },
            };
            match payload {
                None => Value::String(name),
                Some(p) => {
                    let mut m = Map::new();
                    m.insert(name, p);
                    if r.chance(1, 15) { m.insert(r.pick(NAME_POOL).to_string(), Value::Null); }       // two keys (or the same key again)
                    if r.chance(1, 40) { m.clear(); }
                    Value::Object(m)
                }
            }
        }
        Schema::Ignored | Schema::Any => if r.chance(1, 6) { lit(r) } else { gen_value(r, 3) },
    }
}
