//! C06: integer literals into the twelve integer types via text, via Value, as quoted map keys; Number accessors.
use crate::common::*;
use crate::obs::*;
use serde::de::DeserializeOwned;
use serde_json::{Number, Value};
use std::collections::BTreeMap;

fn g<F: FnOnce() -> String>(f: F) -> String { std::panic::catch_unwind(std::panic::AssertUnwindSafe(f)).unwrap_or("PANIC".into()) }

fn five<T: DeserializeOwned + std::fmt::Display + Ord>(lit: &str) -> String {
    let text = g(|| match serde_json::from_str::<T>(lit) { Ok(x) => format!("OK{}", x), Err(_) => "ERR".into() });
    let val: Option<Value> = serde_json::from_str(lit).ok();
    let (v1, v2) = match &val {
        None => ("NOVAL".to_string(), "NOVAL".to_string()),
        Some(v) => (g(|| match serde_json::from_value::<T>(v.clone()) { Ok(x) => format!("OK{}", x), Err(_) => "ERR".into() }),
                    g(|| match T::deserialize(v) { Ok(x) => format!("OK{}", x), Err(_) => "ERR".into() })),
    };
    let doc = format!("{{\"{}\":null}}", lit);
    let key = g(|| match serde_json::from_str::<BTreeMap<T, ()>>(&doc) { Ok(m) => m.keys().next().map(|k| format!("OK{}", k)).unwrap_or("EMPTY".into()), Err(_) => "ERR".into() });
    let kv = g(|| { let mut m = serde_json::Map::new(); m.insert(lit.to_string(), Value::Null);
        match serde_json::from_value::<BTreeMap<T, ()>>(Value::Object(m)) { Ok(m) => m.keys().next().map(|k| format!("OK{}", k)).unwrap_or("EMPTY".into()), Err(_) => "ERR".into() } });
    // the value after an escaped string and a key, read from an io::Read (scratch buffer reuse)
    let doc2 = format!("[\"a\\n\\u00e9\",{{\"k\":{}}}]", lit);
    let seq = g(|| match serde_json::from_reader::<_, (String, BTreeMap<String, T>)>(Chunked::new(doc2.as_bytes(), vec![3])) { Ok(x) => x.1.values().next().map(|v| format!("OK{}", v)).unwrap_or("EMPTY".into()), Err(_) => "ERR".into() });
    format!("{}|{}|{}|{}|{}|{}", text, v1, v2, key, kv, seq)
}

fn emit_int(sink: &mut Sink, cfg: &str, lit: &str, tag: &str) {
    let h = hexf(lit.as_bytes());
    macro_rules! one { ($name:expr, $t:ty) => {{ let o = five::<$t>(lit); let class = if o.starts_with("OK") { "ok" } else { "err" };
        sink.case("int", &[cfg, $name, &h], &o, &format!("{}:{}:{}", tag, $name, class), lit.len() > 1); }}; }
    one!("i8", i8); one!("i16", i16); one!("i32", i32); one!("i64", i64); one!("i128", i128);
    one!("u8", u8); one!("u16", u16); one!("u32", u32); one!("u64", u64); one!("u128", u128);
    one!("isize", isize); one!("usize", usize);
    // accessors of the Number this literal parses to
    let o = g(|| match lit.parse::<Number>() {
        Err(_) => "ERR".into(),
        Ok(n) => format!("{}|{}|{}|{}|{}|{}|{}|{}", opt(n.as_i64()), opt(n.as_u64()), opt(n.as_i128()), opt(n.as_u128()), n.is_i64() as u8, n.is_u64() as u8, n.is_f64() as u8,
                         n.as_f64().map(|f| format!("{:016x}", f.to_bits())).unwrap_or("N".into())) });
    sink.case("acc", &[cfg, &h], &o, &format!("{}:acc", tag), lit.len() > 1);
    // integers print as their plain decimal digits
    if let Ok(v) = lit.parse::<i128>().and_then(|v| if v.to_string() == lit { Ok(v) } else { "x".parse::<i128>() }) {
        if let Ok(x) = i64::try_from(v) { sink.case("iprint", &[cfg, &h], &hexf(serde_json::to_string(&x).unwrap().as_bytes()), "print:i64", true); }
        if let Ok(x) = u64::try_from(v) { sink.case("iprint", &[cfg, &h], &hexf(serde_json::to_string(&x).unwrap().as_bytes()), "print:u64", true); }
        sink.case("iprint", &[cfg, &h], &hexf(serde_json::to_string(&v).unwrap().as_bytes()), "print:i128", true);
        // the same integer INTO a Value: to_value of the 128-bit types and Number::from_i128 / from_u128 are exact or refuse
        // (never wrap, never change kind: the Number must equal the one its own digits parse to)
        let tv = |r: Result<Value, serde_json::Error>| match r { Ok(v) => format!("V{}", enc(&v)), Err(_) => "ERR".to_string() };
        let num = |n: Option<Number>| match n {
            None => "N".to_string(),
            Some(n) => { let back: Value = serde_json::from_str(&n.to_string()).unwrap_or(Value::Null); format!("{}:{}", n, if Value::Number(n.clone()) == back { "=" } else { "!" }) }
        };
        let f1 = g(|| tv(serde_json::to_value(&v)));
        let (f2, f4) = if v >= 0 { (g(|| tv(serde_json::to_value(&(v as u128)))), g(|| num(Number::from_u128(v as u128)))) } else { ("-".to_string(), "-".to_string()) };
        let f3 = g(|| num(Number::from_i128(v)));
        sink.case("ival", &[cfg, &h], &format!("{}|{}|{}|{}", f1, f2, f3, f4), "ival", true);
    }
}
fn opt<T: std::fmt::Display>(x: Option<T>) -> String { x.map(|v| v.to_string()).unwrap_or("N".into()) }

pub fn replay(sink: &mut Sink, toks: &[&str]) {
    // (op `ival` is emitted next to `iprint` by the literal sweep: replay an `acc` / `iprint` line of the same literal)
    if toks.len() < 3 { return; }
    let cfg = cfg_tag();
    let lit = String::from_utf8(unhex(toks[toks.len() - 1])).unwrap_or_default();
    emit_int(sink, &cfg, &lit, "replay");
}

pub fn literals(r: &mut Rng, thorough: bool) -> Vec<String> {
    let mut v: Vec<String> = vec![];
    let d = if thorough { 300i128 } else { 40 };
    // within ±d of every power of two up to 2^128 and of every type bound
    for k in 0..=128u32 {
        let p: i128 = if k == 127 { i128::MAX } else if k == 128 { 0 } else { 1i128 << k };
        for delta in -d..=d {
            if k < 127 {
                let x = p + delta; v.push(x.to_string()); v.push((-x).to_string());
            } else if k == 127 {
                // 2^127 neighbourhood as decimal text beyond i128
                let base = 170141183460469231731687303715884105728u128; let x = base as i128 as u128; let _ = x;
                let y = (base as i128).wrapping_add(delta) as u128; v.push(y.to_string()); v.push(format!("-{}", y));
            } else {
                let base = u128::MAX; if delta <= 0 { v.push((base - (-delta) as u128).to_string()); } else { v.push(format!("34028236692093846346337460743176821145{}", 5 + delta % 5)); v.push(format!("3402823669209384634633746074317682114{}", 56 + delta)); }
            }
        }
    }
    if thorough { for x in -32768i32..=65535 { v.push(x.to_string()); } } else { for x in -300i32..=300 { v.push(x.to_string()); } for x in [32767, 32768, -32768, -32769, 65535, 65536] { v.push(x.to_string()); } }
    for s in ["-0", "0", "-0.0", "0.0", "1.0", "1e0", "1E2", "100e-2", "1.5", "-1.0", "2e1", "12e-1", "255.0", "256e0", "1e19", "1e20", "18446744073709551615.0", "-9223372036854775808.0",
              "01", "-01", "+1", "1.", ".1", "1e", "", "-", " 1", "1 ", "0x10", "1_0", "١"] { v.push(s.to_string()); }
    for _ in 0..(if thorough { 20000 } else { 1500 }) {
        let n = 1 + r.below(45);
        let mut s = String::new(); if r.chance(1, 2) { s.push('-'); }
        s.push(*r.pick(&['1', '2', '3', '4', '5', '6', '7', '8', '9']));
        for _ in 1..n { s.push(*r.pick(&['0', '1', '2', '3', '4', '5', '6', '7', '8', '9'])); }
        v.push(s);
    }
    v
}

/// every string of length <= 5 (thorough 6) over the number alphabet, as candidate for Number::from_str
pub fn exhaustive_number_alphabet(sink: &mut Sink, thorough: bool) {
    let cfg = cfg_tag();
    let alpha: &[u8] = b"019-+.eE";
    for len in 0..=(if thorough { 6 } else { 5 }) {
        let total = alpha.len().pow(len as u32);
        for mut i in 0..total {
            let mut s = Vec::with_capacity(len);
            for _ in 0..len { s.push(alpha[i % alpha.len()]); i /= alpha.len(); }
            let lit = String::from_utf8(s).unwrap();
            let o = g(|| match lit.parse::<Number>() {
                Err(_) => "ERR".into(),
                Ok(n) => format!("{}|{}|{}|{}|{}|{}|{}|{}", opt(n.as_i64()), opt(n.as_u64()), opt(n.as_i128()), opt(n.as_u128()), n.is_i64() as u8, n.is_u64() as u8, n.is_f64() as u8,
                                 n.as_f64().map(|f| format!("{:016x}", f.to_bits())).unwrap_or("N".into())) });
            let class = if o == "ERR" { "rejected" } else { "accepted" };
            sink.case("acc", &[&cfg, &hexf(lit.as_bytes())], &o, &format!("numalpha{}:{}", len, class), len > 1);
        }
    }
}

fn emit_acc(sink: &mut Sink, cfg: &str, cand: &str, tag: &str) {
    let lit = cand.to_string();
    let o = g(|| match lit.parse::<Number>() {
        Err(_) => "ERR".into(),
        Ok(n) => format!("{}|{}|{}|{}|{}|{}|{}|{}", opt(n.as_i64()), opt(n.as_u64()), opt(n.as_i128()), opt(n.as_u128()), n.is_i64() as u8, n.is_u64() as u8, n.is_f64() as u8,
                         n.as_f64().map(|f| format!("{:016x}", f.to_bits())).unwrap_or("N".into())) });
    let class = if o == "ERR" { "rejected" } else { "accepted" };
    sink.case("acc", &[cfg, &hexf(cand.as_bytes())], &o, &format!("{}:{}", tag, class), cand.len() > 1);
}

/// C20 "Number::from_str accepts exactly the RFC 8259 number grammar" beyond the number alphabet (tag `nearmiss`): complete
/// literals followed by, preceded by, and split by EVERY single byte value 0..=255 (bytes >= 0x80 as the two-byte UTF-8 text of
/// U+0080..U+00FF: the candidate is a `&str`), a few two- and three-byte tails (NUL bytes, blanks, a second literal), and random
/// insertions of an arbitrary byte into random number texts. Only strings of the grammar may be accepted (NUL is not the end of
/// input, whitespace is not skipped).
pub fn number_near_misses(sink: &mut Sink, thorough: bool, seed: u64) {
    let mut r = Rng::new(seed ^ 0x20c6);
    let cfg = cfg_tag();
    let lits: [&str; 14] = ["0", "-0", "1", "-12", "1.5", "-0.0", "1e5", "1E+05", "2.50e-3", "18446744073709551615", "18446744073709551616", "-9223372036854775809",
                            "123456789012345678901234567890.123456789012345678901234567890e-1000", "1e400"];
    for lit in lits.iter() {
        for b in 0..=255u8 {
            let c = char::from(b);
            emit_acc(sink, &cfg, &format!("{}{}", lit, c), "nearmiss-tail");
            emit_acc(sink, &cfg, &format!("{}{}", c, lit), "nearmiss-head");
            if lit.len() > 1 { let k = 1 + (b as usize) % (lit.len() - 1); emit_acc(sink, &cfg, &format!("{}{}{}", &lit[..k], c, &lit[k..]), "nearmiss-mid"); }
        }
        for tail in ["\0\0", "\u{0}1", "\0 ", " \0", "\0\n", "\0,", "\0]", "\0e5", "\0.5", " 1", ",1", "\n", "\r\n", "\t\0", "e\0", ".\0", "-\0", "\u{0}\u{0}\u{0}", "\u{feff}", "\u{0}x"] {
            emit_acc(sink, &cfg, &format!("{}{}", lit, tail), "nearmiss-tail2");
            emit_acc(sink, &cfg, &format!("{}{}", tail, lit), "nearmiss-head2");
        }
    }
    for _ in 0..(if thorough { 20000 } else { 2000 }) {
        let t = crate::gen::gen_number_text(&mut r);
        let c = char::from(match r.below(4) { 0 => 0u8, 1 => r.below(0x21) as u8, _ => r.next() as u8 });
        let k = r.below(t.len() + 1);
        emit_acc(sink, &cfg, &format!("{}{}{}", &t[..k], c, &t[k..]), "nearmiss-rand");
    }
}

pub fn run(sink: &mut Sink, thorough: bool, seed: u64) {
    let mut r = Rng::new(seed);
    let cfg = cfg_tag();
    let lits = literals(&mut r, thorough);
    let mut seen = std::collections::HashSet::new();
    for l in lits { if seen.insert(l.clone()) { emit_int(sink, &cfg, &l, "lit"); } }
}
