//! C04 typed clause over the typed universe of `schema.rs` (the universe of C16, `lean/SJ/Spec/Schema.lean`).
//!
//! `rtm <cfg> <seed> <schema> <tval> <floats> => <hex to_string>|<back>|<hex to_string_pretty>|<back>`
//! — the (schema, typed value) pair is regenerated from `Rng::new(seed)`; `Dyn(schema, value)` makes, against the REAL
//! serializer, exactly the calls serde's / serde_derive's `Serialize` impls make for a value of that type (the Lean side is
//! `SJ.Model.TypedSer.progOf`); the text is read back with the universal seed (`Seed(schema)`, then `end()`): `OK:<tval>`,
//! `ERR:<hex message>` or `PANIC`. `<floats>`: `bits:hex text` of every f64 (16 hex digits) / f32 (8 hex digits) leaf
//! as the crate prints it (the driver cannot compute ryu), `-` if none.
//! The generator avoids the documented exception (`Some(x)` with `x` serialising as `null`) and types without a
//! `Serialize` impl (`IgnoredAny`).
use crate::c04::{gen_adv_string, gen_f64_typed, gen_value4, guard};
use crate::common::*;
use crate::obs::cfg_tag;
use crate::prog::{gen_bytes, gen_char, gen_f32_finite};
use crate::schema::*;
use serde::de::DeserializeSeed;
use serde::ser::{
    Serialize, SerializeMap, SerializeSeq, SerializeStruct, SerializeStructVariant, SerializeTuple, SerializeTupleVariant, Serializer,
};
use serde_json::Value;

// ------------------------------------------------------------------ what `Serialize` does for a typed value

/// a map key of the given kind
pub struct DynKey<'a>(pub &'a KeyKind, pub &'a TVal);
impl<'a> Serialize for DynKey<'a> {
    fn serialize<S: Serializer>(&self, s: S) -> Result<S::Ok, S::Error> {
        match (self.0, self.1) {
            (KeyKind::Str, TVal::Str(x)) => s.serialize_str(x),
            (KeyKind::Int(w), TVal::Int(neg, m)) => ser_int(*w, *neg, *m, s),
            (KeyKind::Bool, TVal::Bool(b)) => s.serialize_bool(*b),
            (KeyKind::Char, TVal::Char(c)) => s.serialize_char(*c),
            (KeyKind::UnitEnum(ns), TVal::Variant(i, _)) => s.serialize_unit_variant("K", *i as u32, intern(&ns[*i])),
            _ => s.serialize_unit(),
        }
    }
}

fn ser_int<S: Serializer>(w: IntTy, neg: bool, m: u128, s: S) -> Result<S::Ok, S::Error> {
    let x: i128 = if neg { (m as i128).wrapping_neg() } else { m as i128 };
    match w {
        IntTy::I8 => s.serialize_i8(x as i8), IntTy::I16 => s.serialize_i16(x as i16), IntTy::I32 => s.serialize_i32(x as i32),
        IntTy::I64 => s.serialize_i64(x as i64), IntTy::I128 => s.serialize_i128(x),
        IntTy::U8 => s.serialize_u8(m as u8), IntTy::U16 => s.serialize_u16(m as u16), IntTy::U32 => s.serialize_u32(m as u32),
        IntTy::U64 => s.serialize_u64(m as u64), IntTy::U128 => s.serialize_u128(m),
    }
}

/// serde's impls for the leaves and std containers, serde_derive's output for structs and enums
pub struct Dyn<'a>(pub &'a Schema, pub &'a TVal);
impl<'a> Serialize for Dyn<'a> {
    fn serialize<S: Serializer>(&self, s: S) -> Result<S::Ok, S::Error> {
        match (self.0, self.1) {
            (Schema::Bool, TVal::Bool(b)) => s.serialize_bool(*b),
            (Schema::Int(w), TVal::Int(neg, m)) => ser_int(*w, *neg, *m, s),
            (Schema::F64, TVal::F64(b)) => s.serialize_f64(f64::from_bits(*b)),
            (Schema::F32, TVal::F32(b)) => s.serialize_f32(f32::from_bits(*b)),
            (Schema::Char, TVal::Char(c)) => s.serialize_char(*c),
            (Schema::Str, TVal::Str(x)) => s.serialize_str(x),
            // serde_bytes::ByteBuf
            (Schema::Bytes, TVal::Bytes(b)) => s.serialize_bytes(b),
            // Option<T>
            (Schema::Option(_), TVal::None) => s.serialize_none(),
            (Schema::Option(x), TVal::Some(v)) => s.serialize_some(&Dyn(x, v)),
            (Schema::Unit, _) => s.serialize_unit(),
            (Schema::UnitStruct, _) => s.serialize_unit_struct("U"),
            (Schema::Newtype(x), v) => s.serialize_newtype_struct("N", &Dyn(x, v)),
            // Vec<T>: collect_seq → serialize_seq(Some(len))
            (Schema::Seq(x), TVal::Seq(vs)) => {
                let mut q = s.serialize_seq(Some(vs.len()))?;
                for v in vs { q.serialize_element(&Dyn(x, v))?; }
                q.end()
            }
            (Schema::Tuple(xs), TVal::Seq(vs)) => {
                let mut q = s.serialize_tuple(xs.len())?;
                for (x, v) in xs.iter().zip(vs) { q.serialize_element(&Dyn(x, v))?; }
                q.end()
            }
            // BTreeMap / HashMap: collect_map → serialize_map(Some(len)), serialize_entry
            (Schema::Map(k, x), TVal::Map(kvs)) => {
                let mut q = s.serialize_map(Some(kvs.len()))?;
                for (a, b) in kvs { q.serialize_entry(&DynKey(k, a), &Dyn(x, b))?; }
                q.end()
            }
            (Schema::Struct(fs, _), TVal::Struct(vs)) => {
                let mut q = s.serialize_struct("S", fs.len())?;
                for ((n, x), v) in fs.iter().zip(vs) { q.serialize_field(intern(n), &Dyn(x, v))?; }
                q.end()
            }
            (Schema::Enum(vars), TVal::Variant(i, p)) => {
                let (n, sh) = &vars[*i];
                let n = intern(n);
                match (sh, &**p) {
                    (Shape::Unit, _) => s.serialize_unit_variant("E", *i as u32, n),
                    (Shape::Newtype(x), v) => s.serialize_newtype_variant("E", *i as u32, n, &Dyn(x, v)),
                    (Shape::Tuple(xs), TVal::Seq(vs)) => {
                        let mut q = s.serialize_tuple_variant("E", *i as u32, n, xs.len())?;
                        for (x, v) in xs.iter().zip(vs) { q.serialize_field(&Dyn(x, v))?; }
                        q.end()
                    }
                    (Shape::Struct(fs), TVal::Struct(vs)) => {
                        let mut q = s.serialize_struct_variant("E", *i as u32, n, fs.len())?;
                        for ((fname, x), v) in fs.iter().zip(vs) { q.serialize_field(intern(fname), &Dyn(x, v))?; }
                        q.end()
                    }
                    _ => s.serialize_unit(),
                }
            }
            (Schema::Any, TVal::Any(v)) => v.serialize(s),
            _ => s.serialize_unit(),
        }
    }
}

// ------------------------------------------------------------------ generation

/// schemas of serialisable types: `IgnoredAny` (no `Serialize` impl) becomes `()`
fn serialisable(s: Schema) -> Schema {
    let fields = |fs: Vec<(String, Schema)>| fs.into_iter().map(|(n, x)| (n, serialisable(x))).collect::<Vec<_>>();
    match s {
        Schema::Ignored => Schema::Unit,
        Schema::Option(x) => Schema::Option(Box::new(serialisable(*x))),
        Schema::Newtype(x) => Schema::Newtype(Box::new(serialisable(*x))),
        Schema::Seq(x) => Schema::Seq(Box::new(serialisable(*x))),
        Schema::Tuple(xs) => Schema::Tuple(xs.into_iter().map(serialisable).collect()),
        Schema::Map(k, x) => Schema::Map(k, Box::new(serialisable(*x))),
        Schema::Struct(fs, d) => Schema::Struct(fields(fs), d),
        Schema::Enum(vs) => Schema::Enum(vs.into_iter().map(|(n, sh)| (n, match sh {
            Shape::Unit => Shape::Unit,
            Shape::Newtype(x) => Shape::Newtype(Box::new(serialisable(*x))),
            Shape::Tuple(xs) => Shape::Tuple(xs.into_iter().map(serialisable).collect()),
            Shape::Struct(fs) => Shape::Struct(fields(fs)),
        })).collect()),
        s => s,
    }
}

/// "serialises as JSON null" (the documented exception is `Some` of such a value)
fn nullish(s: &Schema, v: &TVal) -> bool {
    match (s, v) {
        (Schema::Unit, _) | (Schema::UnitStruct, _) => true,
        (Schema::Option(_), TVal::None) => true,
        (Schema::Option(x), TVal::Some(v)) => nullish(x, v),
        (Schema::Newtype(x), v) => nullish(x, v),
        (Schema::Any, TVal::Any(Value::Null)) => true,
        _ => false,
    }
}

fn gen_int(w: IntTy, r: &mut Rng) -> TVal {
    let bits = w.bits();
    let mag_max: u128 = if w.signed() { if bits == 128 { i128::MAX as u128 } else { (1u128 << (bits - 1)) - 1 } }
                        else if bits == 128 { u128::MAX } else { (1u128 << bits) - 1 };
    let m: u128 = match r.below(8) {
        0 => 0, 1 => 1, 2 => mag_max, 3 => mag_max - r.below(3) as u128,
        4 => r.below(300) as u128 % (mag_max / 2 + 1 + mag_max / 2),
        _ => { let x = ((r.next() as u128) << 64 | r.next() as u128) >> r.below(128); if mag_max == u128::MAX { x } else { x % (mag_max + 1) } }
    };
    if w.signed() && r.chance(1, 2) {
        if r.chance(1, 8) { TVal::Int(true, mag_max + 1) }                       // MIN
        else if m == 0 { TVal::Int(false, 0) } else { TVal::Int(true, m) }
    } else { TVal::Int(false, m) }
}

fn gen_key(k: &KeyKind, r: &mut Rng) -> TVal {
    match k {
        KeyKind::Str => TVal::Str(gen_adv_string(r)),
        KeyKind::Int(w) => gen_int(*w, r),
        KeyKind::Bool => TVal::Bool(r.chance(1, 2)),
        KeyKind::Char => TVal::Char(gen_char(r)),
        KeyKind::UnitEnum(ns) => TVal::Variant(r.below(ns.len()), Box::new(TVal::Unit)),
    }
}

fn small(r: &mut Rng, depth: usize) -> usize { if depth == 0 { r.below(2) } else if r.chance(1, 12) { 5 + r.below(4) } else { r.below(4) } }

/// a value of the type `s`
pub fn gen_tval(s: &Schema, r: &mut Rng, depth: usize) -> TVal {
    let d = depth.saturating_sub(1);
    match s {
        Schema::Bool => TVal::Bool(r.chance(1, 2)),
        Schema::Int(w) => gen_int(*w, r),
        Schema::F64 => TVal::F64(gen_f64_typed(r).to_bits()),
        Schema::F32 => TVal::F32(gen_f32_finite(r).to_bits()),
        Schema::Char => TVal::Char(gen_char(r)),
        Schema::Str => TVal::Str(gen_adv_string(r)),
        Schema::Bytes => TVal::Bytes(gen_bytes(r)),
        Schema::Option(x) => {
            if r.chance(1, 3) { return TVal::None; }
            let v = gen_tval(x, r, d);
            if nullish(x, &v) { TVal::None } else { TVal::Some(Box::new(v)) }
        }
        Schema::Unit | Schema::UnitStruct | Schema::Ignored => TVal::Unit,
        Schema::Newtype(x) => gen_tval(x, r, d),
        Schema::Seq(x) => { let n = small(r, depth); TVal::Seq((0..n).map(|_| gen_tval(x, r, d)).collect()) }
        Schema::Tuple(xs) => TVal::Seq(xs.iter().map(|x| gen_tval(x, r, d)).collect()),
        Schema::Map(k, x) => {
            let n = small(r, depth);
            let mut out: Vec<(TVal, TVal)> = vec![];
            for _ in 0..n {
                let key = gen_key(k, r);
                if out.iter().any(|(a, _)| *a == key) { continue; }           // a map holds a key once
                out.push((key, gen_tval(x, r, d)));
            }
            TVal::Map(out)
        }
        Schema::Struct(fs, _) => TVal::Struct(fs.iter().map(|(_, x)| gen_tval(x, r, d)).collect()),
        Schema::Enum(vs) => {
            let i = r.below(vs.len());
            let p = match &vs[i].1 {
                Shape::Unit => TVal::Unit,
                Shape::Newtype(x) => gen_tval(x, r, d),
                Shape::Tuple(xs) => TVal::Seq(xs.iter().map(|x| gen_tval(x, r, d)).collect()),
                Shape::Struct(fs) => TVal::Struct(fs.iter().map(|(_, x)| gen_tval(x, r, d)).collect()),
            };
            TVal::Variant(i, Box::new(p))
        }
        Schema::Any => TVal::Any(gen_value4(r, depth.min(2), true)),
    }
}

// ------------------------------------------------------------------ observation

fn float_text64(f: f64) -> String { guard(|| serde_json::to_string(&f).unwrap_or_else(|_| "ERR".into())) }
fn float_text32(f: f32) -> String { guard(|| serde_json::to_string(&f).unwrap_or_else(|_| "ERR".into())) }

fn floats_of_value(v: &Value, out: &mut Vec<String>) {
    match v {
        Value::Number(n) if n.is_f64() && !cfg!(feature = "ap") => {
            let f = n.as_f64().unwrap();
            let item = format!("{:016x}:{}", f.to_bits(), hex(float_text64(f).as_bytes()));
            if !out.contains(&item) { out.push(item); }
        }
        Value::Array(xs) => for x in xs { floats_of_value(x, out); },
        Value::Object(m) => for (_, x) in m { floats_of_value(x, out); },
        _ => {}
    }
}
fn floats_of(v: &TVal, out: &mut Vec<String>) {
    match v {
        TVal::F64(b) => { let item = format!("{:016x}:{}", b, hex(float_text64(f64::from_bits(*b)).as_bytes())); if !out.contains(&item) { out.push(item); } }
        TVal::F32(b) => { let item = format!("{:08x}:{}", b, hex(float_text32(f32::from_bits(*b)).as_bytes())); if !out.contains(&item) { out.push(item); } }
        TVal::Some(x) | TVal::Variant(_, x) => floats_of(x, out),
        TVal::Seq(xs) | TVal::Struct(xs) => for x in xs { floats_of(x, out); },
        TVal::Map(kvs) => for (a, b) in kvs { floats_of(a, out); floats_of(b, out); },
        TVal::Any(j) => floats_of_value(j, out),
        _ => {}
    }
}
fn float_table(v: &TVal) -> String { let mut out = vec![]; floats_of(v, &mut out); if out.is_empty() { "-".into() } else { out.join(",") } }

fn read_back(s: &Schema, text: &str) -> String {
    guard(|| {
        let mut de = serde_json::Deserializer::from_str(text);
        let r = match Seed(s).deserialize(&mut de) { Ok(x) => de.end().map(|_| x), Err(e) => Err(e) };
        match r { Ok(t) => format!("OK:{}", enc_tval(&t)), Err(e) => format!("ERR:{}", hex(e.to_string().as_bytes())) }
    })
}

pub fn observe(s: &Schema, v: &TVal) -> String {
    let mut out: Vec<String> = vec![];
    for pretty in [false, true] {
        let t = std::panic::catch_unwind(std::panic::AssertUnwindSafe(|| {
            if pretty { serde_json::to_string_pretty(&Dyn(s, v)) } else { serde_json::to_string(&Dyn(s, v)) }
        }));
        match t {
            Ok(Ok(t)) => { out.push(hex_or_dash(t.as_bytes())); out.push(read_back(s, &t)); }
            Ok(Err(e)) => { out.push(format!("SERERR:{}", hex(e.to_string().as_bytes()))); out.push("-".into()); }
            Err(_) => { out.push("PANIC".into()); out.push("-".into()); }
        }
    }
    out.join("|")
}
fn hex_or_dash(b: &[u8]) -> String { if b.is_empty() { "-".into() } else { hex(b) } }

fn kind(s: &Schema) -> &'static str {
    match s {
        Schema::Bool => "bool", Schema::Int(_) => "int", Schema::F64 => "f64", Schema::F32 => "f32", Schema::Char => "char", Schema::Str => "string",
        Schema::Bytes => "bytes", Schema::Option(_) => "option", Schema::Unit => "unit", Schema::UnitStruct => "unitstruct",
        Schema::Newtype(_) => "newtype", Schema::Seq(_) => "seq", Schema::Tuple(_) => "tuple", Schema::Map(k, _) => match k {
            KeyKind::Str => "map-str", KeyKind::Int(_) => "map-int", KeyKind::Bool => "map-bool", KeyKind::Char => "map-char", KeyKind::UnitEnum(_) => "map-enum" },
        Schema::Struct(..) => "struct", Schema::Enum(_) => "enum", Schema::Ignored => "ignored", Schema::Any => "any",
    }
}

fn case_of(seed: u64) -> (Schema, TVal) {
    let mut r = Rng::new(seed);
    let depth = r.below(4);
    let s = serialisable(gen_schema(&mut r, depth));
    let v = gen_tval(&s, &mut r, 3);
    (s, v)
}

fn emit(sink: &mut Sink, cfg: &str, seed: u64, tag: &str) {
    let (s, v) = case_of(seed);
    let o = observe(&s, &v);
    let want = format!("OK:{}", enc_tval(&v));
    let f: Vec<&str> = o.split('|').collect();
    let same = f.len() == 4 && f[1] == want && f[3] == want;
    let t = format!("rtm:{}:{}:{}", tag, kind(&s), if same { "same" } else { "DIFF" });
    let nt = !matches!(s, Schema::Bool | Schema::Unit | Schema::UnitStruct);
    sink.case("rtm", &[cfg, &seed.to_string(), &enc_schema(&s), &enc_tval(&v), &float_table(&v)], &o, &t, nt);
}

// ------------------------------------------------------------------ WIDE documents (op `rtw`)

/// `enum Shape { Unit, Newtype(u32), Tuple(i8, String), Struct { a: bool, b: Option<char> } }`
fn wide_enum() -> Schema {
    Schema::Enum(vec![
        ("Unit".into(), Shape::Unit),
        ("Newtype".into(), Shape::Newtype(Box::new(Schema::Int(IntTy::U32)))),
        ("Tuple".into(), Shape::Tuple(vec![Schema::Int(IntTy::I8), Schema::Str])),
        ("Struct".into(), Shape::Struct(vec![("a".into(), Schema::Bool), ("b".into(), Schema::Option(Box::new(Schema::Char)))])),
    ])
}
/// the `i`-th element: variant kind `vk` = unit / newtype / tuple / struct / mixed (the three non-unit kinds in rotation)
fn wide_elem(vk: &str, i: usize) -> TVal {
    let which = match vk { "unit" => 0, "newtype" => 1, "tuple" => 2, "struct" => 3, _ => 1 + i % 3 };
    let p = match which {
        0 => TVal::Unit,
        1 => TVal::Int(false, i as u128),
        2 => TVal::Seq(vec![if i % 100 == 0 { TVal::Int(false, 0) } else { TVal::Int(true, (i % 100) as u128) }, TVal::Str(format!("s{}", i))]),
        _ => TVal::Struct(vec![TVal::Bool(i % 2 == 0), if i % 5 == 0 { TVal::None } else { TVal::Some(Box::new(TVal::Char('x'))) }]),
    };
    TVal::Variant(which, Box::new(p))
}
const WIDE_CONTAINERS: &[&str] = &["seq", "map", "spread"];
const WIDE_KINDS: &[&str] = &["unit", "newtype", "tuple", "struct", "mixed"];
/// family `<container>-<variant kind>-<n>`: `n` enum values in one `Vec`, one `BTreeMap<u16, _>`, or spread over
/// `struct Doc { first: Vec<_>, second: (Vec<_>, Vec<_>), last: _ }` (no container long, the document wide)
fn wide_case(family: &str) -> Option<(Schema, TVal)> {
    let f: Vec<&str> = family.split('-').collect();
    if f.len() != 3 || !WIDE_CONTAINERS.contains(&f[0]) || !WIDE_KINDS.contains(&f[1]) { return None; }
    let n: usize = f[2].parse().ok()?;
    let e = wide_enum();
    let elems: Vec<TVal> = (0..n).map(|i| wide_elem(f[1], i)).collect();
    Some(match f[0] {
        "seq" => (Schema::Seq(Box::new(e)), TVal::Seq(elems)),
        "map" => (Schema::Map(KeyKind::Int(IntTy::U16), Box::new(e)), TVal::Map(elems.into_iter().enumerate().map(|(i, v)| (TVal::Int(false, i as u128), v)).collect())),
        _ => {
            let vec_e = Schema::Seq(Box::new(e.clone()));
            let s = Schema::Struct(vec![("first".into(), vec_e.clone()), ("second".into(), Schema::Tuple(vec![vec_e.clone(), vec_e])), ("last".into(), e)], false);
            let (a, b) = ((n.max(1) - 1) / 3, 2 * (n.max(1) - 1) / 3);
            let mut it = elems.into_iter();
            let first: Vec<TVal> = it.by_ref().take(a).collect();
            let second: Vec<TVal> = it.by_ref().take(b - a).collect();
            let mut third: Vec<TVal> = it.collect();
            let last = third.pop().unwrap_or_else(|| wide_elem(f[1], 0));
            (s, TVal::Struct(vec![TVal::Seq(first), TVal::Seq(vec![TVal::Seq(second), TVal::Seq(third)]), last]))
        }
    })
}

fn emit_wide(sink: &mut Sink, cfg: &str, family: &str, tag: &str) {
    let (s, v) = match wide_case(family) { Some(x) => x, None => { eprintln!("unknown rtw family {}", family); return; } };
    let o = observe(&s, &v);
    let want = format!("OK:{}", enc_tval(&v));
    let f: Vec<&str> = o.split('|').collect();
    let same = f.len() == 4 && f[1] == want && f[3] == want;
    let fam: Vec<&str> = family.split('-').collect();
    let t = format!("rtw:{}:{}-{}:{}", tag, fam[0], fam[1], if same { "same" } else { "DIFF" });
    sink.case("rtw", &[cfg, family, &enc_schema(&s), &enc_tval(&v), &float_table(&v)], &o, &t, true);
}

/// documents that are wide, not deep: 100 … 300 enum values of every variant kind side by side (the nesting is at most 5).
/// Reading one back must not depend on how many siblings were read before it.
fn run_wide(sink: &mut Sink, cfg: &str, thorough: bool) {
    for c in WIDE_CONTAINERS {
        for k in WIDE_KINDS {
            for n in [100usize, 126, 127, 128, 130, 300, 1000] {
                if n == 1000 && !(thorough || *k == "mixed") { continue; }
                emit_wide(sink, cfg, &format!("{}-{}-{}", c, k, n), "wide");
            }
        }
    }
}

pub fn replay(sink: &mut Sink, toks: &[&str]) {
    let cfg = cfg_tag();
    if toks[0] == "rtw" { if toks.len() >= 3 { emit_wide(sink, &cfg, toks[2], "replay"); } return; }
    if toks.len() >= 3 { emit(sink, &cfg, toks[2].parse().unwrap_or(0), "replay"); } else { eprintln!("cannot replay {:?}", toks); }
}

pub fn run(sink: &mut Sink, thorough: bool, seed: u64) {
    let cfg = cfg_tag();
    let mut r = Rng::new(seed ^ 0x0c04_7e57);
    let n = if thorough { 120_000 } else { 6_000 };
    for _ in 0..n { let cs = r.next(); emit(sink, &cfg, cs, "rand"); }
    run_wide(sink, &cfg, thorough);
}
