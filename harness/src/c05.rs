//! C05 (this branch: serializer escaping, `\uXXXX` group decoding, the string scanner).
//!
//! * `esc <s> => <out>`        `to_string(&str)` (cross-checked in-process with `to_vec` and `to_writer`)
//! * `escbufs <s> => b1,b2,…`  buffers a recording `io::Write` received from `to_writer(&str)`
//! * `hex4 <abcd> => N | S<n>` `"\uXXXX"` (the four bytes verbatim) into `ByteBuf` from a slice: the
//!                             decoder is non-validating there, so every u16 (surrogates too) comes
//!                             out as WTF-8, which is decoded back to the number
//! * `hex4s <src> <abcd> => N | S<n> | LONE | UEND`   same literal into `String` via str / slice / reader
//! * `scan <src> <tgt> <input> <index> => OK:<len> | CTL:l:c | EOF:l:c | ESC:l:c | UTF:l:c`
//!   the string literal whose content starts at byte `index` of `input` (after 0..8 spaces and `"`);
//!   tgt S = String, R = &str (borrowed; pointer range checked here), B = ByteBuf.
use crate::common::*;
use serde::Deserialize;
use serde_bytes::ByteBuf;
use std::panic::{catch_unwind, AssertUnwindSafe};

// ------------------------------------------------------------------ observations
struct Rec(Vec<Vec<u8>>);
impl std::io::Write for Rec {
    fn write(&mut self, buf: &[u8]) -> std::io::Result<usize> { self.0.push(buf.to_vec()); Ok(buf.len()) }
    fn flush(&mut self) -> std::io::Result<()> { Ok(()) }
}

fn obs_esc(s: &str) -> String {
    let r = catch_unwind(AssertUnwindSafe(|| {
        let a = serde_json::to_string(s).map(|x| x.into_bytes()).map_err(|e| e.to_string());
        let b = serde_json::to_vec(s).map_err(|e| e.to_string());
        let mut w: Vec<u8> = vec![];
        let c = serde_json::to_writer(&mut w, s).map(|_| w).map_err(|e| e.to_string());
        (a, b, c)
    }));
    match r {
        Err(_) => "PANIC".into(),
        Ok((Ok(a), Ok(b), Ok(c))) => {
            if a == b && b == c { hexf(&a) } else { format!("{}/vec:{}/writer:{}", hexf(&a), hexf(&b), hexf(&c)) }
        }
        Ok(_) => "ERR".into(),
    }
}

fn obs_escbufs(s: &str) -> String {
    let r = catch_unwind(AssertUnwindSafe(|| {
        let mut w = Rec(vec![]);
        serde_json::to_writer(&mut w, s).map(|_| w.0).map_err(|e| e.to_string())
    }));
    match r {
        Err(_) => "PANIC".into(),
        Ok(Err(_)) => "ERR".into(),
        Ok(Ok(bufs)) => bufs.iter().map(|b| hexf(b)).collect::<Vec<_>>().join(","),
    }
}

fn err_class(e: &serde_json::Error) -> &'static str {
    let m = e.to_string();
    if m.starts_with("control character") { "CTL" }
    else if m.starts_with("EOF while parsing a string") { "EOF" }
    else if m.starts_with("invalid escape") { "ESC" }
    else if m.starts_with("invalid unicode code point") { "UTF" }
    else if m.starts_with("lone leading surrogate") { "LONE" }
    else if m.starts_with("unexpected end of hex escape") { "UEND" }
    else { "OTHER" }
}
fn err_pos(e: &serde_json::Error) -> String { format!("{}:{}:{}", err_class(e), e.line(), e.column()) }

fn literal(g: &[u8; 4]) -> Vec<u8> { vec![b'"', b'\\', b'u', g[0], g[1], g[2], g[3], b'"'] }

fn unwtf8(b: &[u8]) -> Option<u32> {
    match b.len() {
        1 if b[0] < 0x80 => Some(b[0] as u32),
        2 if b[0] & 0xe0 == 0xc0 && b[1] & 0xc0 == 0x80 => Some(((b[0] as u32 & 0x1f) << 6) | (b[1] as u32 & 0x3f)),
        3 if b[0] & 0xf0 == 0xe0 && b[1] & 0xc0 == 0x80 && b[2] & 0xc0 == 0x80 =>
            Some(((b[0] as u32 & 0x0f) << 12) | ((b[1] as u32 & 0x3f) << 6) | (b[2] as u32 & 0x3f)),
        _ => None,
    }
}

fn obs_hex4(g: &[u8; 4]) -> String {
    let inp = literal(g);
    let r = catch_unwind(AssertUnwindSafe(|| {
        let mut de = serde_json::Deserializer::from_slice(&inp);
        ByteBuf::deserialize(&mut de).map(|b| b.into_vec())
    }));
    match r {
        Err(_) => "PANIC".into(),
        Ok(Ok(b)) => match unwtf8(&b) { Some(n) => format!("S{}", n), None => format!("BAD{}", hexf(&b)) },
        Ok(Err(e)) => if err_class(&e) == "ESC" { "N".into() } else { err_pos(&e) },
    }
}

fn obs_hex4s(src: &str, g: &[u8; 4]) -> String {
    let inp = literal(g);
    let r = catch_unwind(AssertUnwindSafe(|| match src {
        "s" => match std::str::from_utf8(&inp) {
            Ok(t) => { let mut de = serde_json::Deserializer::from_str(t); String::deserialize(&mut de) }
            Err(_) => Ok("<<not-utf8-input>>".to_string()),
        },
        "r" => { let mut de = serde_json::Deserializer::from_reader(&inp[..]); String::deserialize(&mut de) }
        _ => { let mut de = serde_json::Deserializer::from_slice(&inp); String::deserialize(&mut de) }
    }));
    match r {
        Err(_) => "PANIC".into(),
        Ok(Ok(s)) => { let mut it = s.chars(); match (it.next(), it.next()) { (Some(c), None) => format!("S{}", c as u32), _ => format!("BAD{}", hexf(s.as_bytes())) } }
        Ok(Err(e)) => match err_class(&e) { "ESC" => "N".into(), "LONE" => "LONE".into(), "UEND" => "UEND".into(), _ => err_pos(&e) },
    }
}

fn obs_scan(src: &str, tgt: &str, input: &[u8], index: usize) -> String {
    let r = catch_unwind(AssertUnwindSafe(|| -> Result<String, serde_json::Error> {
        macro_rules! with_de { ($de:expr) => {{
            let mut de = $de;
            match tgt {
                "B" => ByteBuf::deserialize(&mut de).map(|b| format!("OK:{}", b.len())),
                _ => String::deserialize(&mut de).map(|s| format!("OK:{}", s.len())),
            }
        }}}
        match (src, tgt) {
            ("b", "R") => { let mut de = serde_json::Deserializer::from_slice(input);
                <&str>::deserialize(&mut de).map(|s| {
                    let off = (s.as_ptr() as usize).wrapping_sub(input.as_ptr() as usize);
                    if off == index { format!("OK:{}", s.len()) } else { format!("OK:{}:PTR{}", s.len(), off) } }) }
            ("s", "R") => { let t = std::str::from_utf8(input).unwrap(); let mut de = serde_json::Deserializer::from_str(t);
                <&str>::deserialize(&mut de).map(|s| {
                    let off = (s.as_ptr() as usize).wrapping_sub(input.as_ptr() as usize);
                    if off == index { format!("OK:{}", s.len()) } else { format!("OK:{}:PTR{}", s.len(), off) } }) }
            ("s", _) => { let t = std::str::from_utf8(input).unwrap(); with_de!(serde_json::Deserializer::from_str(t)) }
            ("r", _) => with_de!(serde_json::Deserializer::from_reader(input)),
            _ => with_de!(serde_json::Deserializer::from_slice(input)),
        }
    }));
    match r { Err(_) => "PANIC".into(), Ok(Ok(s)) => s, Ok(Err(e)) => err_pos(&e) }
}

// ------------------------------------------------------------------ emission
fn needs_escape(b: u8) -> bool { b == b'"' || b == b'\\' || b < 0x20 }

fn emit_esc(sink: &mut Sink, s: &str, tag: &str, bufs: bool) {
    let h = hexf(s.as_bytes());
    let nt = s.bytes().any(|b| needs_escape(b) || b >= 0x80);
    let cls = if s.bytes().any(needs_escape) { "escaped" } else if s.is_ascii() { "ascii" } else { "multibyte" };
    let o = obs_esc(s);
    sink.case("esc", &[&h], &o, &format!("esc-{}:{}", tag, cls), nt);
    if bufs {
        let o = obs_escbufs(s);
        let n = o.split(',').count();
        sink.case("escbufs", &[&h], &o, &format!("escbufs-{}:{}buf", tag, if n > 6 { "7+".to_string() } else { n.to_string() }), nt);
    }
}

fn emit_hex4(sink: &mut Sink, g: &[u8; 4], tag: &str) {
    let h = hex(g);
    let o = obs_hex4(g);
    let c = if o == "N" { "none" } else if o.starts_with('S') { "some" } else { "other" };
    sink.case("hex4", &[&h], &o, &format!("hex4-{}:{}", tag, c), true);
}
fn emit_hex4s(sink: &mut Sink, src: &str, g: &[u8; 4], tag: &str) {
    if src == "s" && std::str::from_utf8(g).is_err() { return; }
    let h = hex(g);
    let o = obs_hex4s(src, g);
    let c = if o.starts_with('S') { "scalar" } else if o.len() > 5 { "other" } else { &o[..] };
    sink.case("hex4s", &[src, &h], &o, &format!("hex4s-{}-{}:{}", tag, src, c), true);
}

fn emit_scan(sink: &mut Sink, src: &str, tgt: &str, input: &[u8], index: usize, tag: &str) {
    if src == "s" && std::str::from_utf8(input).is_err() { return; }
    if src == "r" && tgt == "R" { return; }
    let o = obs_scan(src, tgt, input, index);
    let cls = o.split(':').next().unwrap_or("?").to_string();
    let n = input.len() - index;
    let lenc = if n < 8 { "<8" } else if n < 16 { "<16" } else { ">=16" };
    sink.case("scan", &[src, tgt, &hexf(input), &index.to_string()], &o, &format!("scan-{}-{}{}:{}:rest{}", tag, src, tgt, cls, lenc), n > 0);
    // a literal scanned into ByteBuf from the start of a slice: also as a bytes-typed object KEY (op rsk)
    if tgt == "B" && src == "b" && index == 1 { let mut r = Rng::new(input.len() as u64); crate::keys::emit_rsk(sink, &mut r, &crate::obs::cfg_tag(), input, "scan"); }
}

/// `bytesctl <cfg> <src> <input> => OK:y<hex>; | E:<hex msg>:<cat>:<line>:<col>` — a string literal holding a BARE control character read as
/// `ByteBuf` through `Deserializer::from_str / from_slice / from_reader` + `end()`. The statement's "the same decoding applies" rejects such
/// a literal; the crate's non-validating scanner copies the byte (open finding C05-bytes-control-char-accepted).
fn emit_bytesctl(sink: &mut Sink, src: &str, input: &[u8], tag: &str) {
    if src == "str" && std::str::from_utf8(input).is_err() { return; }
    let cfg = crate::obs::cfg_tag();
    let o = crate::typed::outcome(&crate::schema::Schema::Bytes, src, input, vec![2]);
    let cls = if o.starts_with("OK") { "accepted" } else { "rejected" };
    sink.case("bytesctl", &[&cfg, src, &hexf(input)], &o, &format!("bytesctl:{}:{}", tag, cls), true);
}

/// every control byte alone in a literal, from the three sources; a few in context (after an escape, between multi-byte characters)
pub fn run_bytesctl(sink: &mut Sink, _thorough: bool, _seed: u64) {
    for c in 0u8..0x20 {
        for src in ["str", "slice", "reader"] { emit_bytesctl(sink, src, &[b'"', c, b'"'], "alone"); }
    }
    for c in [0x00u8, 0x0a, 0x1f] {
        let mut inp = b"\"a\\n\xc3\xa9".to_vec(); inp.push(c); inp.extend_from_slice(b"\\ud800z\"");
        for src in ["str", "slice", "reader"] { emit_bytesctl(sink, src, &inp, "context"); }
    }
    // control: the same positions with 0x20 / 0x7f (not control characters) are accepted by the statement too
    for c in [0x20u8, 0x7f] { for src in ["str", "slice", "reader"] { emit_bytesctl(sink, src, &[b'"', c, b'"'], "plain"); } }
}

pub fn replay(sink: &mut Sink, toks: &[&str]) {
    match toks[0] {
        "bytesctl" if toks.len() >= 4 => emit_bytesctl(sink, toks[2], &unhex(toks[3]), "replay"),
        "esc" | "escbufs" if toks.len() >= 2 => {
            let b = unhex(toks[1]);
            match String::from_utf8(b) {
                Ok(s) => { let o = if toks[0] == "esc" { obs_esc(&s) } else { obs_escbufs(&s) }; sink.case(toks[0], &[toks[1]], &o, "replay", true) }
                Err(_) => eprintln!("esc replay: argument is not UTF-8"),
            }
        }
        "hex4" if toks.len() >= 2 => { let b = unhex(toks[1]); if b.len() == 4 { let g = [b[0], b[1], b[2], b[3]]; let o = obs_hex4(&g); sink.case("hex4", &[toks[1]], &o, "replay", true) } }
        "hex4s" if toks.len() >= 3 => { let b = unhex(toks[2]); if b.len() == 4 { let g = [b[0], b[1], b[2], b[3]]; let o = obs_hex4s(toks[1], &g); sink.case("hex4s", &[toks[1], toks[2]], &o, "replay", true) } }
        "scan" if toks.len() >= 5 => {
            let inp = unhex(toks[3]); let idx: usize = toks[4].parse().unwrap_or(0);
            if toks[1] == "s" && std::str::from_utf8(&inp).is_err() { eprintln!("scan replay: input is not UTF-8"); return; }
            let o = obs_scan(toks[1], toks[2], &inp, idx);
            sink.case("scan", &[toks[1], toks[2], toks[3], toks[4]], &o, "replay", true)
        }
        _ => eprintln!("cannot replay {:?}", toks),
    }
}

// ------------------------------------------------------------------ generators
/// valid UTF-8 of exactly `n` bytes, mixing 1–4 byte characters (none of them needs escaping or
/// could start an escape after a backslash); `kind` 0 = ASCII only
fn filler(n: usize, kind: usize, phase: usize) -> Vec<u8> {
    let pool: [&str; 7] = ["😀", "€", "é", "a", "\u{7f}", " ", "z"];
    let mut out = Vec::with_capacity(n);
    let mut k = phase;
    while out.len() < n {
        if kind == 0 { out.push(b"az ~\x7fq"[k % 6]); k += 1; continue; }
        let c = pool[k % pool.len()].as_bytes(); k += 1;
        if out.len() + c.len() <= n { out.extend_from_slice(c); }
    }
    out
}

const SRC_TGT: [(&str, &str); 7] = [("b", "R"), ("b", "S"), ("b", "B"), ("s", "R"), ("s", "S"), ("r", "S"), ("r", "B")];

fn scan_case(sink: &mut Sink, content: &[u8], closed: bool, prefix: usize, combos: &[(&str, &str)], tag: &str) {
    let mut input = vec![b' '; prefix];
    input.push(b'"');
    input.extend_from_slice(content);
    if closed { input.push(b'"'); }
    for (s, t) in combos { emit_scan(sink, s, t, &input, prefix + 1, tag); }
}

fn gen_char(r: &mut Rng) -> char {
    match r.below(12) {
        0 => '"', 1 => '\\',
        2 => char::from_u32(r.below(0x20) as u32).unwrap(),
        3 => *r.pick(&['\u{7f}', '\u{80}', '\u{9f}', '\u{a0}', '/', '\u{2028}', '\u{2029}', '\u{feff}', '\u{fffd}', '\u{ffff}', '\u{10000}', '\u{10ffff}', '\u{d7ff}', '\u{e000}']),
        4 | 5 => char::from_u32(0x20 + r.below(0x5f) as u32).unwrap(),
        6 => char::from_u32(0x80 + r.below(0x780) as u32).unwrap(),
        7 => loop { if let Some(c) = char::from_u32(0x800 + r.below(0xf800) as u32) { break c; } },
        8 => char::from_u32(0x10000 + r.below(0x100000) as u32).unwrap(),
        _ => *r.pick(&['a', 'b', ' ', 'é', '0']),
    }
}

pub fn run(sink: &mut Sink, thorough: bool, seed: u64) {
    let mut r = Rng::new(seed);

    // ---------------- esc: every Unicode scalar value as a one-character string
    let mut buf = [0u8; 4];
    for cp in 0u32..0x110000 {
        let c = match char::from_u32(cp) { Some(c) => c, None => continue };
        let near = |x: u32| cp + 2 >= x && cp <= x + 2;
        let take = thorough || cp < 0x3000 || cp % 251 == 0 || near(0xd7ff) || near(0xe000) || near(0xfffd)
            || (cp & 0xffff) <= 2 || (cp & 0xffff) >= 0xfffd || r.chance(1, 97);
        if take { emit_esc(sink, c.encode_utf8(&mut buf), "scalar", cp < 0x100); }
    }
    // ---------------- esc: every byte < 0x80 at every offset of strings of every length up to 24 (ASCII and mixed filler)
    for kind in 0..2 {
        for len in 0..=24usize {
            if len == 0 { emit_esc(sink, "", "offs", true); continue; }
            for off in 0..len {
                for b in 0u8..0x80 {
                    let mut s = filler(off, kind, len);
                    s.push(b);
                    s.extend_from_slice(&filler(len - off - 1, kind, off));
                    let st = String::from_utf8(s).unwrap();
                    emit_esc(sink, &st, if kind == 0 { "offs-ascii" } else { "offs-mixed" }, needs_escape(b) || (b % 8 == 0));
                }
            }
        }
    }
    // adjacent escapes and escapes at both ends (empty fragments must not be written)
    for a in [b'"', b'\\', 0u8, 8, 9, 10, 11, 12, 13, 0x1f] {
        for b in [b'"', b'\\', 0u8, 0x0b, 0x0c, 0x1f, b'a'] {
            for shape in 0..4 {
                let s: Vec<u8> = match shape { 0 => vec![a, b], 1 => vec![a, b, b'x'], 2 => vec![b'x', a, b], _ => vec![a, 0xc3, 0xa9, b] };
                emit_esc(sink, &String::from_utf8(s).unwrap(), "adjacent", true);
            }
        }
    }
    // ---------------- esc: random long mixtures
    for _ in 0..(if thorough { 60000 } else { 3000 }) {
        let n = if r.chance(1, 10) { 100 + r.below(400) } else { r.below(40) };
        let s: String = (0..n).map(|_| gen_char(&mut r)).collect();
        emit_esc(sink, &s, "mix", true);
    }

    // ---------------- hex4: all 65 536 values, lower / upper / mixed case
    let lo = b"0123456789abcdef"; let up = b"0123456789ABCDEF";
    for v in 0u32..0x10000 {
        let d = [(v >> 12) as usize & 15, (v >> 8) as usize & 15, (v >> 4) as usize & 15, v as usize & 15];
        let mask = (r.next() & 15) as usize;
        let gl = [lo[d[0]], lo[d[1]], lo[d[2]], lo[d[3]]];
        let gu = [up[d[0]], up[d[1]], up[d[2]], up[d[3]]];
        let mut gm = gl; for i in 0..4 { if mask >> i & 1 == 1 { gm[i] = up[d[i]]; } }
        emit_hex4(sink, &gl, "all-lower");
        emit_hex4(sink, &gu, "all-upper");
        emit_hex4(sink, &gm, "all-mixed");
        let surro = (0xd7f0..0xe010).contains(&v);
        if thorough || v % 4 == 0 || surro { emit_hex4s(sink, "b", &gm, "all"); }
        if thorough || v % 16 == 1 || surro { emit_hex4s(sink, "s", &gu, "all"); emit_hex4s(sink, "r", &gl, "all"); }
        // the same group as a bytes-typed object KEY (op rsk): every surrogate-adjacent value, a 32nd of the others
        if thorough || v % 32 == 7 || (surro && v % 4 == 0) { crate::keys::emit_rsk(sink, &mut r, &crate::obs::cfg_tag(), &literal(&gm), "hex4"); }
    }
    // ---------------- hex4: all 256 substitutions at each of the 4 positions of several base groups
    for base in [*b"0000", *b"ffff", *b"1a2B", *b"D834", *b"dC00", *b"9F09", *b"aAfF"] {
        for pos in 0..4 {
            for x in 0..=255u8 {
                let mut g = base; g[pos] = x;
                emit_hex4(sink, &g, "subst");
                for s in ["b", "s", "r"] { emit_hex4s(sink, s, &g, "subst"); }
            }
        }
    }
    // ---------------- hex4: random four-byte groups (about half of the bytes are hex digits)
    let hexd = b"0123456789abcdefABCDEF";
    let near = b"/:@G`g \"\\\x00\xff\x80";
    for i in 0..(if thorough { 10_000_000u64 } else { 100_000 }) {
        let mut g = [0u8; 4];
        for b in g.iter_mut() {
            *b = match r.below(8) { 0..=4 => hexd[r.below(22)], 5 => near[r.below(near.len())], _ => r.next() as u8 };
        }
        emit_hex4(sink, &g, "rand");
        if i % 8 == 0 { emit_hex4s(sink, ["b", "r", "s"][(i / 8 % 3) as usize], &g, "rand"); }
    }

    // ---------------- scan: every special byte at every offset of contents of every length up to 24,
    //                  closed and unclosed, at every prefix 0..8, ASCII and mixed filler
    let specials: [u8; 10] = [b'"', b'\\', 0x00, 0x0a, 0x1f, 0x20, 0x7f, 0x80, 0xff, 0xc3];
    let mut rot = 0usize;
    for kind in 0..2 {
        for len in 0..=24usize {
            // no special byte at all
            for prefix in 0..=8 { for closed in [true, false] {
                scan_case(sink, &filler(len, kind, prefix), closed, prefix, &SRC_TGT, "plain");
            } }
            for off in 0..len {
                for sp in specials {
                    let mut c = filler(off, kind, len);
                    c.push(sp);
                    c.extend_from_slice(&filler(len - off - 1, kind, off + 1));
                    for prefix in 0..=8 { for closed in [true, false] {
                        if closed && sp == b'\\' && off + 1 == len { continue; } // `\"` is a valid escape: outcome not determined by the first stop
                        if thorough { scan_case(sink, &c, closed, prefix, &SRC_TGT, "special"); }
                        else {
                            rot += 1;
                            let combos = [SRC_TGT[0], SRC_TGT[1 + rot % 6]];
                            scan_case(sink, &c, closed, prefix, &combos, "special");
                        }
                    } }
                }
            }
        }
    }
    // two special bytes (the second one must not be reported), and contents spanning several chunks
    for len in [7usize, 8, 9, 15, 16, 17, 23, 24, 25, 31, 32, 33, 40, 64, 65] {
        for off in 0..len {
            for sp in [b'"', b'\\', 0x1f, 0x00] {
                for sp2 in [b'"', 0x1f] {
                    if sp == b'\\' && off + 1 == len { continue; }
                    let mut c = filler(off, 1, len);
                    c.push(sp);
                    c.extend_from_slice(&filler(len - off - 1, 1, off));
                    c.push(sp2);
                    c.extend_from_slice(b"tail");
                    let prefix = (len + off) % 9;
                    scan_case(sink, &c, true, prefix, if thorough { &SRC_TGT } else { &SRC_TGT[..3] }, "two");
                }
            }
        }
    }
    // random contents: a backslash is always followed by a filler byte or the end of input
    for _ in 0..(if thorough { 200_000 } else { 8000 }) {
        let n = if r.chance(1, 8) { 30 + r.below(120) } else { r.below(30) };
        let mut c: Vec<u8> = vec![];
        let utf8_only = r.chance(3, 4);
        while c.len() < n {
            let span = if r.chance(1, 3) { 14 } else { 9 };
            match r.below(span) {
                0..=5 => c.extend_from_slice(&filler(1 + r.below(9), r.below(2), r.below(7))),
                6 => c.push(0x20), 7 => c.push(0x7f),
                8 => c.extend_from_slice("é€😀".as_bytes()),
                9 => c.push(b'"'),
                10 => { c.push(b'\\'); if r.chance(7, 8) { c.push(b'x'); } else { break; } }
                11 => c.push(r.below(0x20) as u8),
                12 => if !utf8_only { c.push(0x80 + r.below(0x80) as u8) } else { c.push(b'q') },
                _ => c.push(0x1f),
            }
        }
        let closed = !c.ends_with(b"\\") && r.chance(3, 4);
        let (s, t) = SRC_TGT[r.below(7)];
        scan_case(sink, &c, closed, r.below(9), &[(s, t), ("b", "R")], "random");
    }
}
