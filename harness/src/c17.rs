//! C17: `serde_json::Map` against the reference dictionary / order rules, `==`, `Hash`,
//! `sort_all_objects`. Line formats: see lean/SJ/Drv/C17.lean.
use crate::common::*;
use serde_json::map::Entry;
use serde_json::{Map, Value};
use std::hash::{Hash, Hasher};
use std::panic::{catch_unwind, AssertUnwindSafe};

#[cfg(feature = "po")]
const PO: bool = true;
#[cfg(not(feature = "po"))]
const PO: bool = false;
fn cfg_tag() -> &'static str { if PO { "po" } else { "d" } }

// ------------------------------------------------------------------ wire helpers
fn key_of(h: &str) -> String { String::from_utf8(unhex(h)).unwrap() }

/// extent of one encoded value starting at `i`
fn skip_value(b: &[u8], mut i: usize) -> usize {
    fn semi(b: &[u8], mut i: usize) -> (usize, usize) { let st = i; while b[i] != b';' { i += 1; } (st, i + 1) }
    let c = b[i]; i += 1;
    match c {
        b'n' | b't' | b'f' => i,
        b'i' | b'j' | b'l' | b's' => semi(b, i).1,
        b'd' => i + 16,
        b'a' => { let (st, e) = semi(b, i); let n: usize = std::str::from_utf8(&b[st..e - 1]).unwrap().parse().unwrap();
                  let mut j = e; for _ in 0..n { j = skip_value(b, j); } j }
        b'o' => { let (st, e) = semi(b, i); let n: usize = std::str::from_utf8(&b[st..e - 1]).unwrap().parse().unwrap();
                  let mut j = e; for _ in 0..n { j = semi(b, j + 1).1; j = skip_value(b, j); } j }
        _ => panic!("bad wire"),
    }
}
/// `o<n>;(s<hex>;v)*` as a pair list (order and duplicates preserved)
fn dec_pairs(s: &str) -> Vec<(String, Value)> {
    let b = s.as_bytes();
    assert!(b[0] == b'o');
    let mut i = 1; while b[i] != b';' { i += 1; }
    let n: usize = s[1..i].parse().unwrap(); i += 1;
    let mut out = vec![];
    for _ in 0..n {
        let st = i + 1; while b[i] != b';' { i += 1; }
        let k = key_of(&s[st..i]); i += 1;
        let e = skip_value(b, i);
        out.push((k, dec_value(&s[i..e]))); i = e;
    }
    out
}
fn enc_pairs(ps: &[(String, Value)]) -> String {
    let mut s = format!("o{};", ps.len());
    for (k, v) in ps { s.push('s'); s.push_str(&hex(k.as_bytes())); s.push(';'); enc_value(v, &mut s); }
    s
}
fn enc_iter<'a>(it: impl Iterator<Item = (&'a String, &'a Value)>, n: usize) -> String {
    let mut s = format!("o{};", n);
    for (k, v) in it { s.push('s'); s.push_str(&hex(k.as_bytes())); s.push(';'); enc_value(v, &mut s); }
    s
}
fn opt_v(o: Option<Value>) -> String { match o { None => "N".into(), Some(v) => format!("S{}", enc(&v)) } }
fn opt_kv(o: Option<(String, Value)>) -> String {
    match o { None => "N".into(), Some((k, v)) => format!("P{}~{}", hexf(k.as_bytes()), enc(&v)) }
}
fn tf(b: bool) -> &'static str { if b { "T" } else { "F" } }

// ------------------------------------------------------------------ one API call
fn remove_call(m: &mut Map<String, Value>, f: &str, k: &str) -> String {
    let f: Vec<char> = f.chars().collect();
    let (fl, sh, via) = (f[0], f[1], f[2]);
    if via == 'm' {
        match (fl, sh) {
            ('p', 'v') => opt_v(m.remove(k)),
            ('p', _) => opt_kv(m.remove_entry(k)),
            #[cfg(feature = "po")] ('w', 'v') => opt_v(m.swap_remove(k)),
            #[cfg(feature = "po")] ('w', _) => opt_kv(m.swap_remove_entry(k)),
            #[cfg(feature = "po")] ('h', 'v') => opt_v(m.shift_remove(k)),
            #[cfg(feature = "po")] ('h', _) => opt_kv(m.shift_remove_entry(k)),
            _ => "?unsupported".into(),
        }
    } else {
        match m.entry(k) {
            Entry::Vacant(_) => "N".into(),
            Entry::Occupied(e) => match (fl, sh) {
                ('p', 'v') => opt_v(Some(e.remove())),
                ('p', _) => opt_kv(Some(e.remove_entry())),
                #[cfg(feature = "po")] ('w', 'v') => opt_v(Some(e.swap_remove())),
                #[cfg(feature = "po")] ('w', _) => opt_kv(Some(e.swap_remove_entry())),
                #[cfg(feature = "po")] ('h', 'v') => opt_v(Some(e.shift_remove())),
                #[cfg(feature = "po")] ('h', _) => opt_kv(Some(e.shift_remove_entry())),
                _ => "?unsupported".into(),
            },
        }
    }
}

/// apply one operation token to the real map; returns the encoded return value
fn apply(m: &mut Map<String, Value>, tok: &str) -> String {
    let f: Vec<&str> = tok.split(':').collect();
    match f[0] {
        "in" => opt_v(m.insert(key_of(f[1]), dec_value(f[2]))),
        "si" => {
            #[cfg(feature = "po")]
            { let (i, k, v) = (f[1].parse::<usize>().unwrap(), key_of(f[2]), dec_value(f[3]));
              match catch_unwind(AssertUnwindSafe(|| m.shift_insert(i, k, v))) { Ok(o) => opt_v(o), Err(_) => "!".into() } }
            #[cfg(not(feature = "po"))]
            { "?unsupported".into() }
        }
        "rm" => remove_call(m, f[1], &key_of(f[2])),
        "gt" => opt_v(m.get(&key_of(f[1])).cloned()),
        "gk" => { let k = key_of(f[1]); match m.get_key_value(&k) {
                    None => "N".into(),
                    Some((k2, v)) => if *k2 == k { format!("S{}", enc(v)) } else { "?wrong-key".into() } } }
        "ct" => tf(m.contains_key(&key_of(f[1]))).into(),
        "ln" => format!("#{}", m.len()),
        "ie" => tf(m.is_empty()).into(),
        "cl" => { m.clear(); "U".into() }
        "ap" => { let mut other = Map::new(); for (k, v) in dec_pairs(f[1]) { other.insert(k, v); }
                  m.append(&mut other);
                  if other.is_empty() && other.iter().next().is_none() { "U".into() } else { format!("?other-left-{}", other.len()) } }
        "ex" => { m.extend(dec_pairs(f[1])); "U".into() }
        "rt" => { match f[1] {
                    "n" => m.retain(|_, v| !v.is_null()),
                    "l" => { let k = key_of(f[2]); m.retain(|k2, _| k2.as_str() < k.as_str()) }
                    _ => { let k = key_of(f[2]); m.retain(|k2, _| *k2 != k) } }
                  "U".into() }
        "sk" => { m.sort_keys(); "U".into() }
        "eo" => { let r = m.entry(key_of(f[1])).or_insert(dec_value(f[2])); format!("V{}", enc(r)) }
        "ei" => match m.entry(key_of(f[1])) {
                    Entry::Vacant(e) => { e.insert(dec_value(f[2])); "N".into() }
                    Entry::Occupied(mut e) => { let old = e.insert(dec_value(f[2])); format!("S{}", enc(&old)) } },
        "em" => { let v = dec_value(f[2]);
                  let r = m.entry(key_of(f[1])).and_modify(|x| *x = v).or_insert(dec_value(f[3])); format!("V{}", enc(r)) }
        "sm" => { let v = dec_value(f[2]); opt_v(m.get_mut(&key_of(f[1])).map(|x| std::mem::replace(x, v))) }
        "ix" => { let k = key_of(f[1]);
                  match catch_unwind(AssertUnwindSafe(|| m[k.as_str()].clone())) { Ok(v) => format!("V{}", enc(&v)), Err(_) => "!".into() } }
        "is" => { let (k, v) = (key_of(f[1]), dec_value(f[2]));
                  match catch_unwind(AssertUnwindSafe(|| { m[k.as_str()] = v; })) { Ok(()) => "U".into(), Err(_) => "!".into() } }
        "it" => format!("L{}", enc_iter(m.iter(), m.len())),
        "ir" => format!("L{}", enc_iter(m.iter().rev(), m.len())),
        "ks" => format!("K{}", m.keys().map(|k| hexf(k.as_bytes())).collect::<Vec<_>>().join(".")),
        "vs" => { let mut s = format!("Aa{};", m.values().len()); for v in m.values() { enc_value(v, &mut s); } s }
        _ => "?unknown-op".into(),
    }
}

/// forward iteration through `&Map: IntoIterator`, cross-checked against the other iterator wrappers
fn fwd(m: &mut Map<String, Value>) -> String {
    let a = enc_iter((&*m).into_iter(), m.len());
    let ks: Vec<String> = m.keys().cloned().collect();
    let vs: Vec<Value> = m.values().cloned().collect();
    let im: Vec<(String, Value)> = m.iter_mut().map(|(k, v)| (k.clone(), v.clone())).collect();
    let vm: Vec<Value> = m.values_mut().map(|v| v.clone()).collect();
    let owned: Vec<(String, Value)> = m.clone().into_iter().collect();
    let iv: Vec<Value> = m.clone().into_values().collect();
    let zipped: Vec<(String, Value)> = ks.into_iter().zip(vs.into_iter()).collect();
    if enc_pairs(&zipped) != a || enc_pairs(&im) != a || enc_pairs(&owned) != a || vm != iv
        || iv != owned.iter().map(|p| p.1.clone()).collect::<Vec<_>>() || m.iter().len() != m.len() {
        return format!("?iterators-disagree-{}", a);
    }
    a
}
fn bwd(m: &mut Map<String, Value>) -> String {
    let a = enc_iter(m.iter().rev(), m.len());
    let ks: Vec<String> = m.keys().rev().cloned().collect();
    let vs: Vec<Value> = m.values().rev().cloned().collect();
    let owned: Vec<(String, Value)> = m.clone().into_iter().rev().collect();
    let im: Vec<(String, Value)> = m.iter_mut().rev().map(|(k, v)| (k.clone(), v.clone())).collect();
    let zipped: Vec<(String, Value)> = ks.into_iter().zip(vs.into_iter()).collect();
    if enc_pairs(&zipped) != a || enc_pairs(&owned) != a || enc_pairs(&im) != a { return format!("?iterators-disagree-{}", a); }
    a
}

fn run_hist(ops: &str) -> (Map<String, Value>, String, bool) {
    let mut m = Map::new();
    let mut obs = String::new();
    let mut panicked = false;
    if ops != "-" {
        for tok in ops.split(',') {
            let r = apply(&mut m, tok);
            if r == "!" { panicked = true; }
            obs.push_str(&r); obs.push('/'); obs.push_str(&fwd(&mut m)); obs.push(',');
        }
    }
    obs.push('R'); obs.push_str(&bwd(&mut m));
    (m, obs, panicked)
}

fn siphash<T: Hash>(x: &T) -> u64 {
    let mut h = std::collections::hash_map::DefaultHasher::new(); // SipHash-1-3, keys (0, 0)
    x.hash(&mut h); h.finish()
}

/// records the calls made on the hasher
struct Rec(String);
impl Rec { fn put(&mut self, s: String) { if !self.0.is_empty() { self.0.push('.'); } self.0.push_str(&s); } }
impl Hasher for Rec {
    fn finish(&self) -> u64 { 0 }
    fn write(&mut self, b: &[u8]) { self.put(format!("w{}", hexf(b))) }
    fn write_u8(&mut self, i: u8) { self.put(format!("b{}", i)) }
    fn write_u16(&mut self, i: u16) { self.put(format!("x16_{}", i)) }
    fn write_u32(&mut self, i: u32) { self.put(format!("x32_{}", i)) }
    fn write_u64(&mut self, i: u64) { self.put(format!("q{}", i)) }
    fn write_u128(&mut self, i: u128) { self.put(format!("x128_{}", i)) }
    fn write_usize(&mut self, i: usize) { self.put(format!("u{}", i)) }
    fn write_i8(&mut self, i: i8) { self.put(format!("y8_{}", i)) }
    fn write_i16(&mut self, i: i16) { self.put(format!("y16_{}", i)) }
    fn write_i32(&mut self, i: i32) { self.put(format!("y32_{}", i)) }
    fn write_i64(&mut self, i: i64) { self.put(format!("j{}", i)) }
    fn write_i128(&mut self, i: i128) { self.put(format!("y128_{}", i)) }
    fn write_isize(&mut self, i: isize) { self.put(format!("i{}", i)) }
}
fn hasher_input<T: Hash>(x: &T) -> String { let mut r = Rec(String::new()); x.hash(&mut r); if r.0.is_empty() { "-".into() } else { r.0 } }

// ------------------------------------------------------------------ emitters
fn emit_hist(sink: &mut Sink, ops: &str, tag: &str) {
    let (m, obs, panicked) = run_hist(ops);
    let n = if ops == "-" { 0 } else { ops.split(',').count() };
    let t = format!("{}:{}{}", tag, if m.len() > 3 { "len>3" } else { ["len0", "len1", "len2", "len3"][m.len()] }, if panicked { ":panic" } else { "" });
    sink.case("maphist", &[cfg_tag(), ops], &obs, &t, n >= 2);
}
fn emit_eqh(sink: &mut Sink, o1: &str, o2: &str, tag: &str) {
    let (m1, _, _) = run_hist(o1); let (m2, _, _) = run_hist(o2);
    let e = m1 == m2;
    if e != (m2 == m1) { sink.case("mapeqh", &[cfg_tag(), o1, o2], &format!("?asymmetric:{}:{}", tf(e), tf(!e)), &format!("{}:asymmetric", tag), true); return; }
    let h = siphash(&m1) == siphash(&m2) && hasher_input(&m1) == hasher_input(&m2);
    let same_order = enc(&Value::Object(m1.clone())) == enc(&Value::Object(m2.clone()));
    sink.case("mapeqh", &[cfg_tag(), o1, o2], &format!("{}/{}", tf(e), tf(h)),
              &format!("{}:{}", tag, if e { if same_order { "eq-same-order" } else { "eq-other-order" } } else { "ne" }), o1 != o2);
}
fn emit_value_pair(sink: &mut Sink, a: &Value, b: &Value, tag: &str) {
    let e = a == b;
    let (ea, eb) = (enc(a), enc(b));
    if e != (b == a) { sink.case("mapeq", &[cfg_tag(), &ea, &eb], &format!("?asymmetric:{}:{}", tf(e), tf(!e)), &format!("{}:asymmetric", tag), true); return; }
    let obs = format!("{}/{}/{}", tf(e), tf(siphash(a) == siphash(b)), tf(hasher_input(a) == hasher_input(b)));
    sink.case("mapeq", &[cfg_tag(), &ea, &eb], &obs, &format!("{}:{}", tag, if e { if ea == eb { "eq-identical" } else { "eq-differently-written" } } else { "ne" }), ea != eb);
}
fn emit_hash(sink: &mut Sink, a: &Value, tag: &str) {
    sink.case("maphash", &[cfg_tag(), &enc(a)], &hasher_input(a), tag, true);
}
fn emit_sort(sink: &mut Sink, a: &Value, tag: &str) {
    let mut s = a.clone();
    s.sort_all_objects();
    let changed = enc(&s) != enc(a);
    sink.case("mapsort", &[cfg_tag(), &enc(a)], &format!("{}/{}", enc(&s), tf(s == *a && *a == s)),
              &format!("{}:{}", tag, if changed { "reordered" } else { "unchanged" }), true);
}

// ------------------------------------------------------------------ the seven iterator wrappers, both ends (op `mapiter`)

/// every observation of one iterator constructor `$mk` (evaluated afresh for each): see lean/SJ/Drv/C17.lean `iterFields`
macro_rules! probe_iter {
    ($mk:expr, $show:expr, $k:expr) => {{
        let k: usize = $k;
        let show = $show;
        let list = |v: Vec<String>| if v.is_empty() { "_".to_string() } else { v.join(",") };
        let opt = |o: Option<String>| match o { None => "N".to_string(), Some(s) => format!("S{}", s) };
        let sz = |l: usize, h: (usize, Option<usize>)| format!("{}:{}:{}", l, h.0, h.1.map(|x| x.to_string()).unwrap_or_else(|| "?".into()));
        let mut f: Vec<String> = vec![];
        f.push(list($mk.map(&show).collect()));
        f.push(list($mk.rev().map(&show).collect()));
        { let mut it = $mk; let a = it.nth(k).map(&show); let rest: Vec<String> = it.map(&show).collect(); f.push(format!("{}+{}", opt(a), list(rest))); }
        { let mut it = $mk; let a = it.nth_back(k).map(&show); let rest: Vec<String> = it.map(&show).collect(); f.push(format!("{}+{}", opt(a), list(rest))); }
        f.push(opt($mk.rev().nth(k).map(&show)));
        f.push(list($mk.rev().skip(k).map(&show).collect()));
        f.push(list($mk.rev().step_by(2).map(&show).collect()));
        f.push(list($mk.skip(k).map(&show).collect()));
        f.push(list($mk.step_by(k + 1).map(&show).collect()));
        f.push(list($mk.rev().step_by(k + 1).map(&show).collect()));
        {
            let mut s: Vec<String> = vec![];
            { let it = $mk; s.push(sz(it.len(), it.size_hint())); }
            { let mut it = $mk; let _ = it.next(); s.push(sz(it.len(), it.size_hint())); let _ = it.next_back(); s.push(sz(it.len(), it.size_hint())); }
            { let mut it = $mk; let _ = it.nth(k); s.push(sz(it.len(), it.size_hint())); }
            { let mut it = $mk; let _ = it.nth_back(k); s.push(sz(it.len(), it.size_hint())); }
            f.push(s.join("+"));
        }
        f.push(opt($mk.last().map(&show)));
        { let mut it = $mk;
          let a = it.next().map(&show); let b = it.next_back().map(&show); let c = it.next().map(&show); let d = it.next_back().map(&show);
          let rest: Vec<String> = it.map(&show).collect();
          f.push([opt(a), opt(b), opt(c), opt(d), list(rest)].join("+")); }
        { let mut it = $mk;
          let x = it.nth_back(k).map(&show); let y = it.nth(k).map(&show); let n = it.len();
          let rest: Vec<String> = it.map(&show).collect();
          f.push([opt(x), opt(y), list(rest), n.to_string()].join("+")); }
        f.join("/")
    }};
}

fn iter_obs(m: &Map<String, Value>, k: usize) -> String {
    fn kv<K: std::borrow::Borrow<String>, V: std::borrow::Borrow<Value>>(p: (K, V)) -> String { format!("{}~{}", hexf(p.0.borrow().as_bytes()), enc(p.1.borrow())) }
    let guard = |name: &str, f: &mut dyn FnMut() -> String| -> String {
        format!("{}={}", name, catch_unwind(AssertUnwindSafe(|| f())).unwrap_or_else(|_| "PANIC".into()))
    };
    let mut mm = m.clone();
    let mut out: Vec<String> = vec![];
    out.push(guard("iter", &mut || probe_iter!(m.iter(), |p: (&String, &Value)| kv(p), k)));
    out.push(guard("iter_mut", &mut || probe_iter!(mm.iter_mut(), |p: (&String, &mut Value)| format!("{}~{}", hexf(p.0.as_bytes()), enc(p.1)), k)));
    out.push(guard("into_iter", &mut || probe_iter!(m.clone().into_iter(), |p: (String, Value)| kv(p), k)));
    out.push(guard("keys", &mut || probe_iter!(m.keys(), |p: &String| hexf(p.as_bytes()), k)));
    out.push(guard("values", &mut || probe_iter!(m.values(), |p: &Value| enc(p), k)));
    let mut mm = m.clone();
    out.push(guard("values_mut", &mut || probe_iter!(mm.values_mut(), |p: &mut Value| enc(p), k)));
    out.push(guard("into_values", &mut || probe_iter!(m.clone().into_values(), |p: Value| enc(&p), k)));
    out.join("|")
}

fn emit_iter(sink: &mut Sink, ops: &str, k: usize, tag: &str) {
    let mut m = Map::new();
    if ops != "-" { for tok in ops.split(',') { let _ = apply(&mut m, tok); } }
    let o = iter_obs(&m, k);
    let rel = if k + 1 < m.len() { "k<len-1" } else if k + 1 == m.len() { "k=len-1" } else if k == m.len() { "k=len" } else { "k>len" };
    let t = format!("mapiter:{}:{}:{}", tag, if m.len() > 3 { "len>3" } else { ["len0", "len1", "len2", "len3"][m.len()] }, rel);
    sink.case("mapiter", &[cfg_tag(), ops, &k.to_string()], &o, &t, m.len() >= 2);
}

/// maps of 0..=9 entries inserted in ascending, descending and mixed key order, every `k` up to len + 1; then random histories
fn run_iter(sink: &mut Sink, r: &mut Rng, thorough: bool) {
    let keys = ["a", "b", "c", "d", "e", "f", "g", "h", "i"];
    for n in 0..=9usize {
        for order in 0..3 {
            let mut ks: Vec<&str> = keys[..n].to_vec();
            if order == 1 { ks.reverse(); }
            if order == 2 { for i in (1..ks.len()).rev() { let j = r.below(i + 1); ks.swap(i, j); } }
            let toks: Vec<String> = ks.iter().enumerate().map(|(i, k)| format!("in:{}:i{};", hexf(k.as_bytes()), i)).collect();
            let h = if toks.is_empty() { "-".to_string() } else { toks.join(",") };
            for k in 0..=n + 1 { if order == 0 || n <= 5 || thorough { emit_iter(sink, &h, k, "fixed"); } }
        }
    }
    for i in 0..(if thorough { 6000 } else { 400 }) {
        let pool = key_pool(r);
        let len = if i % 10 == 0 { 40 + r.below(60) } else { 3 + r.below(25) };
        let h = rand_hist(r, &pool, len);
        let n = { let mut m = Map::new(); if h != "-" { for tok in h.split(',') { let _ = apply(&mut m, tok); } } m.len() };
        let mut ks = vec![0usize, 1, r.below(n + 2)];
        if n >= 2 { ks.push(n - 1); }
        ks.sort(); ks.dedup();
        for k in ks { emit_iter(sink, &h, k, "rand"); }
    }
}

pub fn replay(sink: &mut Sink, toks: &[&str]) {
    // a recorded case is meaningful only in the configuration it was recorded in
    if toks.len() < 2 || toks[1] != cfg_tag() { return; }
    match (toks[0], toks.len()) {
        ("mapiter", 4) => emit_iter(sink, toks[2], toks[3].parse().unwrap_or(0), "replay"),
        ("maphist", 3) => emit_hist(sink, toks[2], "replay"),
        ("mapeqh", 4) => emit_eqh(sink, toks[2], toks[3], "replay"),
        ("mapeq", 4) => emit_value_pair(sink, &dec_ordered(toks[2]), &dec_ordered(toks[3]), "replay"),
        ("maphash", 3) => emit_hash(sink, &dec_ordered(toks[2]), "replay"),
        ("mapsort", 3) => emit_sort(sink, &dec_ordered(toks[2]), "replay"),
        _ => {}
    }
}
/// `dec_value` rebuilds objects by `insert` in wire order, which reproduces the iteration order in
/// both builds (ascending wire order under the default build, insertion order under preserve_order)
fn dec_ordered(s: &str) -> Value { dec_value(s) }

// ------------------------------------------------------------------ generators
const KA: &str = "61"; const KB: &str = "62"; const KC: &str = "63"; const KD: &str = "60"; // "a" "b" "c" "`"

/// one or more instances of every operation kind over the keys a, b, c (d = "`" sorts first)
fn alphabet(full: bool) -> Vec<String> {
    let mut v: Vec<String> = vec![];
    let mut p = |s: String| v.push(s);
    // core: at least one instance of every operation kind
    p(format!("in:{}:i1;", KB)); p(format!("in:{}:i1;", KA)); p(format!("in:{}:i2;", KC)); p(format!("in:{}:n", KB));
    p(format!("rm:pvm:{}", KA)); p(format!("rm:pem:{}", KB)); p(format!("rm:pvo:{}", KC)); p(format!("rm:peo:{}", KA));
    p(format!("gt:{}", KA)); p(format!("ct:{}", KB)); p("ln".into()); p("cl".into());
    p(format!("ap:o2;s{};i3;s{};i3;", KC, KA)); p(format!("ex:o3;s{};i4;s{};i5;s{};n", KB, KB, KA));
    p("rt:n".into()); p(format!("rt:l:{}", KB)); p("sk".into());
    p(format!("eo:{}:i6;", KA)); p(format!("ei:{}:i7;", KC)); p(format!("em:{}:i8;:i9;", KB)); p(format!("sm:{}:i2;", KA));
    p(format!("ix:{}", KB)); p(format!("is:{}:i2;", KC)); p("ir".into());
    if PO {
        p(format!("si:0:{}:i1;", KC)); p(format!("si:1:{}:i2;", KA)); p(format!("rm:hvm:{}", KA)); p(format!("rm:wem:{}", KB));
        p(format!("rm:hvo:{}", KB)); p(format!("rm:weo:{}", KA));
    }
    if full {
        p(format!("in:{}:i2;", KA)); p(format!("in:{}:i1;", KC)); p(format!("in:{}:i1;", KD));
        p(format!("rm:pvm:{}", KB)); p(format!("rm:pvm:{}", KC)); p(format!("rm:pem:{}", KA)); p(format!("rm:peo:{}", KC));
        p(format!("gk:{}", KC)); p(format!("gt:{}", KB)); p(format!("ct:{}", KA)); p("ie".into());
        p(format!("ap:o2;s{};i3;s{};n", KB, KD)); p(format!("ex:o2;s{};i4;s{};i4;", KC, KA));
        p(format!("rt:x:{}", KA)); p(format!("rt:l:{}", KC));
        p(format!("eo:{}:i6;", KC)); p(format!("ei:{}:n", KA)); p(format!("em:{}:i8;:i9;", KA)); p(format!("sm:{}:n", KC));
        p(format!("ix:{}", KA)); p(format!("is:{}:i5;", KB)); p("it".into()); p("ks".into()); p("vs".into());
        if PO {
            p(format!("si:2:{}:i3;", KB)); p(format!("si:3:{}:i3;", KC)); p(format!("si:0:{}:i4;", KA));
            p(format!("rm:wvm:{}", KA)); p(format!("rm:wvm:{}", KC)); p(format!("rm:hem:{}", KC)); p(format!("rm:hvm:{}", KB));
            p(format!("rm:heo:{}", KA)); p(format!("rm:wvo:{}", KB));
        }
    }
    v
}

fn exhaustive(sink: &mut Sink, alpha: &[String], len: usize, tag: &str, stride: usize) {
    let n = alpha.len();
    let total = n.pow(len as u32);
    let mut s = String::new();
    for mut i in (0..total).step_by(stride) {
        s.clear();
        for j in 0..len { if j > 0 { s.push(','); } s.push_str(&alpha[i % n]); i /= n; }
        emit_hist(sink, &s, tag);
    }
}

fn rand_key(r: &mut Rng, pool: &[String]) -> String { hexf(r.pick(pool).as_bytes()) }
fn rand_pairs(r: &mut Rng, pool: &[String], depth: usize) -> String {
    let n = r.below(5);
    let ps: Vec<(String, Value)> = (0..n).map(|_| (r.pick(pool).clone(), gen_value(r, depth))).collect();
    enc_pairs(&ps)
}
fn rand_op(r: &mut Rng, pool: &[String], cur_len: usize) -> String {
    let k = rand_key(r, pool);
    let v = |r: &mut Rng| enc(&gen_value(r, 2));
    let n_kinds = if PO { 30 } else { 26 };
    match r.below(n_kinds) {
        0 | 1 | 2 | 3 | 4 => format!("in:{}:{}", k, v(r)),
        5 | 6 => format!("rm:p{}{}:{}", *r.pick(&['v', 'e']), *r.pick(&['m', 'o']), k),
        7 => format!("gt:{}", k), 8 => format!("gk:{}", k), 9 => format!("ct:{}", k),
        10 => "ln".into(), 11 => if r.chance(1, 6) { "cl".into() } else { "ie".into() },
        12 => format!("ap:{}", rand_pairs(r, pool, 1)), 13 => format!("ex:{}", rand_pairs(r, pool, 1)),
        14 => match r.below(4) { 0 => "rt:n".into(), 1 => format!("rt:l:{}", k), _ => format!("rt:x:{}", k) },
        15 => "sk".into(),
        16 => format!("eo:{}:{}", k, v(r)), 17 => format!("ei:{}:{}", k, v(r)), 18 => format!("em:{}:{}:{}", k, v(r), v(r)),
        19 => format!("sm:{}:{}", k, v(r)), 20 => format!("ix:{}", k), 21 => format!("is:{}:{}", k, v(r)),
        22 => "it".into(), 23 => "ir".into(), 24 => "ks".into(), 25 => "vs".into(),
        26 | 27 => format!("si:{}:{}:{}", r.below(cur_len + 3), k, v(r)),
        _ => format!("rm:{}{}{}:{}", *r.pick(&['w', 'h']), *r.pick(&['v', 'e']), *r.pick(&['m', 'o']), k),
    }
}
fn key_pool(r: &mut Rng) -> Vec<String> {
    let n = 4 + r.below(12);
    let mut p: Vec<String> = (0..n).map(|_| gen_string(r)).collect();
    // keys whose order differs between UTF-8 bytes (= Rust's str order = code point order) and UTF-16 code units, or
    // between byte order and a locale / case-folded order
    if r.chance(1, 3) {
        for k in ["\u{ffff}", "\u{10000}", "k\u{e000}", "k\u{1f600}", "\u{ff61}z", "\u{10348}a", "Z", "a", "_", "\u{e9}", "e\u{301}"] { if r.chance(1, 2) { p.push(k.to_string()); } }
    }
    p.sort(); p.dedup();
    // shuffle so that insertion order and key order are unrelated
    for i in (1..p.len()).rev() { let j = r.below(i + 1); p.swap(i, j); }
    p
}
fn rand_hist(r: &mut Rng, pool: &[String], len: usize) -> String {
    // the current length is only a hint for shift_insert indices; track it with a scratch map
    let mut m = Map::new();
    let mut toks = vec![];
    for _ in 0..len { let t = rand_op(r, pool, m.len()); let _ = apply(&mut m, &t); toks.push(t); }
    if toks.is_empty() { "-".into() } else { toks.join(",") }
}

/// the same tree with every object rebuilt in another insertion order and some zeros sign-flipped
fn rewrite(v: &Value, r: &mut Rng) -> Value {
    match v {
        Value::Array(xs) => Value::Array(xs.iter().map(|x| rewrite(x, r)).collect()),
        Value::Object(m) => {
            let mut ps: Vec<(String, Value)> = m.iter().map(|(k, x)| (k.clone(), rewrite(x, r))).collect();
            for i in (1..ps.len()).rev() { let j = r.below(i + 1); ps.swap(i, j); }
            Value::Object(ps.into_iter().collect())
        }
        Value::Number(n) if n.as_f64() == Some(0.0) && n.is_f64() => {
            if r.chance(1, 2) { Value::from(0.0f64) } else { Value::from(-0.0f64) }
        }
        x => x.clone(),
    }
}
/// change one thing somewhere (so that the result is usually unequal)
fn perturb(v: &Value, r: &mut Rng) -> Value {
    match v {
        Value::Array(xs) if !xs.is_empty() && r.chance(2, 3) => {
            let mut ys = xs.clone(); let i = r.below(ys.len());
            match r.below(4) { 0 => { ys.remove(i); } 1 => { ys.swap(0, i); } _ => { ys[i] = perturb(&xs[i], r); } }
            Value::Array(ys)
        }
        Value::Object(m) if !m.is_empty() && r.chance(3, 4) => {
            let mut n = m.clone();
            let k = m.keys().nth(r.below(m.len())).unwrap().clone();
            match r.below(4) {
                0 => { n.remove(&k); }
                1 => { n.insert(gen_string(r), gen_value(r, 0)); }
                _ => { let x = perturb(&m[&k], r); n.insert(k, x); }
            }
            Value::Object(n)
        }
        Value::Number(n) => match r.below(3) {
            0 => Value::from(n.as_f64().unwrap_or(0.0)),          // integer -> float of the same magnitude
            1 => Value::from(-n.as_f64().unwrap_or(0.0)),
            _ => Value::Number(gen_number(r)),
        },
        _ => gen_value(r, 1),
    }
}
fn gen_numbery(r: &mut Rng, depth: usize) -> Value {
    // values rich in zeros of both signs and in integer/float twins
    if depth == 0 || r.chance(1, 3) {
        return match r.below(8) { 0 => Value::from(0.0f64), 1 => Value::from(-0.0f64), 2 => Value::from(0u64), 3 => Value::from(1u64),
                                  4 => Value::from(1.0f64), 5 => Value::from(-1i64), 6 => Value::from(-1.0f64), _ => Value::Number(gen_number(r)) };
    }
    if r.chance(1, 2) { Value::Array((0..r.below(4)).map(|_| gen_numbery(r, depth - 1)).collect()) }
    else { let mut m = Map::new(); for _ in 0..r.below(4) { m.insert(gen_string(r), gen_numbery(r, depth - 1)); } Value::Object(m) }
}

/// a removal of key `k` (hex) in every spelling the build has: remove / remove_entry, through the map or an occupied entry,
/// swap_remove / shift_remove under preserve_order, retain
fn rand_removal(r: &mut Rng, k: &str) -> String {
    match r.below(if PO { 6 } else { 3 }) {
        0 => format!("rt:x:{}", k),
        1 | 2 => format!("rm:p{}{}:{}", *r.pick(&['v', 'e']), *r.pick(&['m', 'o']), k),
        _ => format!("rm:{}{}{}:{}", *r.pick(&['w', 'h']), *r.pick(&['v', 'e']), *r.pick(&['m', 'o']), k),
    }
}
/// `inner` wrapped in arrays / objects (`Value::eq` reaches `Map::eq` through every level)
fn wrap(inner: Value, shape: usize) -> Value {
    match shape {
        0 => inner,
        1 => Value::Array(vec![inner]),
        2 => { let mut m = Map::new(); m.insert("k".into(), inner); Value::Object(m) }
        3 => { let mut m = Map::new(); m.insert("x".into(), Value::Array(vec![Value::Null, inner])); Value::Array(vec![Value::from(1u64), Value::Object(m)]) }
        _ => { let mut m = Map::new(); m.insert("a".into(), Value::from(1u64)); m.insert("m".into(), inner); m.insert("z".into(), Value::Bool(true));
               let mut o = Map::new(); o.insert("o".into(), Value::Object(m)); Value::Object(o) }
    }
}
/// 6. strict subsets / supersets: a map against itself minus one or more keys (remove / remove_entry / swap_remove /
/// shift_remove / retain / clear) and plus extra keys, in BOTH orders, as histories (op mapeqh) and as values at top level
/// and nested inside arrays / objects (op mapeq). Equal values on the common keys, so only the key sets tell them apart.
fn run_subsets(sink: &mut Sink, r: &mut Rng, thorough: bool) {
    // fixed small cases first (small replays)
    let one = format!("in:{}:n", KA);
    let two = format!("in:{}:n,in:{}:i2;", KA, KB);
    for (x, y) in [("-", one.as_str()), (one.as_str(), two.as_str()), ("-", two.as_str())] { emit_eqh(sink, x, y, "subset-fixed"); emit_eqh(sink, y, x, "superset-fixed"); }
    let removed = format!("{},rm:pvm:{}", two, KB); let cleared = format!("{},cl", two); let retained = format!("{},rt:x:{}", two, KA);
    for h in [&removed, &cleared, &retained] { emit_eqh(sink, h, &two, "subset-fixed"); emit_eqh(sink, &two, h, "superset-fixed"); }
    for shape in 0..5 {
        let mut big = Map::new(); big.insert("a".into(), Value::Null); big.insert("b".into(), Value::from(2u64));
        let mut small = big.clone(); small.remove("b");
        for (s, b) in [(Value::Object(small.clone()), Value::Object(big.clone())), (Value::Object(Map::new()), Value::Object(big.clone())), (Value::Object(Map::new()), Value::Object(small.clone()))] {
            emit_value_pair(sink, &wrap(s.clone(), shape), &wrap(b.clone(), shape), "subset-fixed");
            emit_value_pair(sink, &wrap(b, shape), &wrap(s, shape), "superset-fixed");
        }
    }
    for i in 0..(if thorough { 6000 } else { 600 }) {
        let pool = key_pool(r);
        // base: 1..7 distinct keys inserted in pool order (shuffled), nested values
        let n = 1 + r.below(pool.len().min(7));
        let base: Vec<(String, Value)> = pool.iter().take(n).map(|k| (k.clone(), gen_value(r, 2))).collect();
        let h1: Vec<String> = base.iter().map(|(k, v)| format!("in:{}:{}", hexf(k.as_bytes()), enc(v))).collect();
        // smaller side: the same history followed by removals of 1..n keys / retain / clear
        let mut h2 = h1.clone();
        let tag;
        match r.below(8) {
            0 => { h2.push("cl".into()); tag = "clear"; }
            1 => { let k = hexf(base[r.below(n)].0.as_bytes()); h2.push(format!("rt:l:{}", k)); tag = "retain-below"; }
            2 if n < pool.len() => {
                // larger side instead: extra keys inserted / extended / appended
                let extra: Vec<(String, Value)> = pool.iter().skip(n).take(1 + r.below(3)).map(|k| (k.clone(), gen_value(r, 1))).collect();
                match r.below(3) { 0 => for (k, v) in &extra { h2.push(format!("in:{}:{}", hexf(k.as_bytes()), enc(v))); },
                                   1 => h2.push(format!("ex:{}", enc_pairs(&extra))), _ => h2.push(format!("ap:{}", enc_pairs(&extra))) }
                tag = "extra";
            }
            _ => { let cnt = 1 + r.below(n.min(3)); for _ in 0..cnt { let k = hexf(base[r.below(n)].0.as_bytes()); h2.push(rand_removal(r, &k)); } tag = "removed"; }
        }
        // the other side rebuilt in another insertion order (so that order and contents vary independently)
        let mut h1s = h1.clone();
        if r.chance(1, 2) { for i in (1..h1s.len()).rev() { let j = r.below(i + 1); h1s.swap(i, j); } }
        let (a, b) = (h1s.join(","), h2.join(","));
        emit_eqh(sink, &a, &b, &format!("subset-{}", tag)); emit_eqh(sink, &b, &a, &format!("subset-{}-rev", tag));
        // the same two maps as values, at top level and nested
        let (m1, _, _) = run_hist(&a); let (m2, _, _) = run_hist(&b);
        let shape = i % 5;
        emit_value_pair(sink, &wrap(Value::Object(m1.clone()), shape), &wrap(Value::Object(m2.clone()), shape), &format!("subset-{}-v{}", tag, shape));
        emit_value_pair(sink, &wrap(Value::Object(m2), shape), &wrap(Value::Object(m1), shape), &format!("subset-{}-v{}-rev", tag, shape));
    }
}

pub fn run(sink: &mut Sink, thorough: bool, seed: u64) {
    let mut r = Rng::new(seed);
    // 0. fixed corpus first (small cases make small replays): zeros of both signs, integer/float twins
    for v in [Value::from(0.0f64), Value::from(-0.0f64), Value::from(0u64), Value::Null] {
        for w in [Value::from(0.0f64), Value::from(-0.0f64), Value::from(0u64), Value::from(1.0f64), Value::from(1u64)] {
            emit_value_pair(sink, &v, &w, "zeros");
            emit_value_pair(sink, &Value::Array(vec![v.clone()]), &Value::Array(vec![w.clone()]), "zeros");
            let (mut a, mut b) = (Map::new(), Map::new());
            a.insert("z".into(), v.clone()); a.insert("a".into(), Value::Null);
            b.insert("a".into(), Value::Null); b.insert("z".into(), w.clone());
            emit_value_pair(sink, &Value::Object(a), &Value::Object(b), "zeros");
        }
        emit_hash(sink, &v, "zeros");
    }
    // 1. exhaustive histories
    emit_hist(sink, "-", "exh0");
    let core = alphabet(false);
    let full = alphabet(true);
    for len in 1..=3 { exhaustive(sink, &full, len, &format!("exh-full{}", len), 1); }
    exhaustive(sink, &core, 4, "exh-core4", 1);
    if thorough {
        // state-changing operations only (one instance per kind): every history of length 5, and of
        // length 6 (under preserve_order every 5th history of length 6, in enumeration order)
        let skip = ["gt", "ct", "ln", "ix", "ir", "sm", "is"];
        let mini: Vec<String> = core.iter().filter(|t| !skip.contains(&&t[..2])
            && !["in:62:n", "rm:pvo", "rm:pem", "rt:n", "rm:hvo", "rm:weo"].iter().any(|p| t.starts_with(p))).cloned().collect();
        exhaustive(sink, &mini, 5, "exh-mini5", 1);
        exhaustive(sink, &mini, 6, if PO { "sampled-mini6" } else { "exh-mini6" }, if PO { 5 } else { 1 });
    }
    // 2. long random histories over larger key sets with nested values
    let n_rand = if thorough { 40000 } else { 4000 };
    for i in 0..n_rand {
        let pool = key_pool(&mut r);
        let len = if i % 10 == 0 { 100 + r.below(200) } else { 5 + r.below(40) };
        let h = rand_hist(&mut r, &pool, len);
        emit_hist(sink, &h, if len >= 100 { "rand-long" } else { "rand" });
    }
    // 3. == and Hash between maps built by different histories
    let small: Vec<String> = {
        let a: Vec<String> = core.iter().filter(|t| !["gt", "ct", "ln", "ix", "ir"].contains(&&t[..2])).cloned().collect();
        let mut hs = vec!["-".to_string()];
        for x in &a { hs.push(x.clone()); }
        for x in &a { for y in &a { hs.push(format!("{},{}", x, y)); } }
        hs
    };
    let stride = if thorough { 1 } else { 7 };
    let mut c = 0usize;
    for x in &small { for y in &small { c += 1; if c % stride == 0 { emit_eqh(sink, x, y, "pairs-len<=2"); } } }
    for _ in 0..(if thorough { 20000 } else { 2000 }) {
        let pool = key_pool(&mut r);
        let l1 = 3 + r.below(25);
        let h1 = rand_hist(&mut r, &pool, l1);
        let (m1, _, _) = run_hist(&h1);
        // a second history that rebuilds the same contents in another order, optionally disturbed
        let mut ps: Vec<(String, Value)> = m1.iter().map(|(k, v)| (k.clone(), rewrite(v, &mut r))).collect();
        for i in (1..ps.len()).rev() { let j = r.below(i + 1); ps.swap(i, j); }
        let mut toks: Vec<String> = ps.iter().map(|(k, v)| format!("in:{}:{}", hexf(k.as_bytes()), enc(v))).collect();
        match r.below(5) {
            0 => toks.push(rand_op(&mut r, &pool, ps.len())),
            1 if !toks.is_empty() => { toks.pop(); }
            2 if !ps.is_empty() => { let (k, v) = &ps[r.below(ps.len())]; toks.push(format!("in:{}:{}", hexf(k.as_bytes()), enc(&perturb(v, &mut r)))); }
            _ => {}
        }
        let h2 = if toks.is_empty() { "-".to_string() } else { toks.join(",") };
        emit_eqh(sink, &h1, &h2, "rebuilt");
    }
    // 4. random nested values, their reordered / sign-of-zero rewritings and perturbations
    for i in 0..(if thorough { 60000 } else { 6000 }) {
        let a = if i % 3 == 0 { gen_numbery(&mut r, 3) } else { gen_value(&mut r, 3) };
        let b = rewrite(&a, &mut r);
        emit_value_pair(sink, &a, &b, "rewritten");
        let c = perturb(&b, &mut r);
        emit_value_pair(sink, &a, &c, "perturbed");
        if i % 4 == 0 { let d = gen_value(&mut r, 2); emit_value_pair(sink, &a, &d, "unrelated"); }
        emit_hash(sink, &b, "hash");
        emit_sort(sink, &b, "sort");
    }
    // 5. the iterator wrappers from both ends (own generator state: the cases above stay what they were)
    let mut r2 = Rng::new(seed ^ 0x17e7_17e7);
    run_iter(sink, &mut r2, thorough);
    // 6. strict subsets / supersets in both orders (own generator state)
    let mut r3 = Rng::new(seed ^ 0x5b5e_7175);
    run_subsets(sink, &mut r3, thorough);
}
