//! Line / column bookkeeping of the readers (`src/iter.rs` `LineColIterator`, `src/read.rs` `IoRead::position`,
//! `SliceRead::position_of_index`) — the Rust side of `lean/SJ/Model/LineCol.lean`, `lean/SJ/Drv/LineCol.lean`.
//!
//! Nothing of that bookkeeping is public; what is observable is `Error::line()` / `Error::column()` of errors forced at
//! chosen places and `StreamDeserializer::byte_offset()`.
//!
//! `lc3 <cfg> <schema> <kind> <hex doc> => <str>|<slice>|<reader>`     outcomes as in `tt3` (`-` for str when not UTF-8)
//!      kind `plant`: a well-typed token sequence, newline-rich gaps between the tokens (`\n`, `\r\n`, `\r`, runs of
//!      newlines, blanks), and ONE byte no JSON continuation allows, planted in a gap (before / inside / after the
//!      newlines) or — `Value` / `IgnoredAny` — a raw control character planted inside a string; kind `free`: crafted
//!      texts (a newline as the byte the reader has peeked when a typed error is raised) and single-byte mutations /
//!      truncations of such documents.
//! `lcs <cfg> <tgt> <calls> <hex> => <str>|<slice>|<reader>`            `next()` / `byte_offset()` histories (format of `stream3`)
#![allow(dead_code)]
use crate::common::*;
use crate::gen::chunk_sizes;
use crate::obs::*;
use crate::schema::*;
use crate::streamraw::history;
use crate::typed::outcome;

const NLS: &[&str] = &["\n", "\r\n", "\r", "\n\n", "\n\r", " ", "\t", "\n ", " \n", "\r\r\n", "\n\n\n", "\r \n", "\n", "\n"];

fn gap(r: &mut Rng) -> Vec<u8> {
    let n = match r.below(8) { 0 => 0, 1 | 2 | 3 => 1, 4 | 5 => 2, _ => 3 + r.below(3) };
    let mut out = vec![];
    for _ in 0..n { out.extend_from_slice(r.pick(NLS).as_bytes()); }
    out
}

#[derive(Clone)]
enum Tok { Plain(Vec<u8>), Str(Vec<Vec<u8>>) }
impl Tok {
    fn bytes(&self) -> Vec<u8> {
        match self { Tok::Plain(b) => b.clone(), Tok::Str(ps) => { let mut o = vec![b'"']; for p in ps { o.extend_from_slice(p); } o.push(b'"'); o } }
    }
}
fn p(s: &str) -> Tok { Tok::Plain(s.as_bytes().to_vec()) }

/// string pieces: multi-byte characters (columns count BYTES), escapes that are not newlines, blanks
fn str_tok(r: &mut Rng) -> Tok {
    let n = r.below(6);
    Tok::Str((0..n).map(|_| r.pick(&["a", "\u{e9}", "\u{1f600}", "\u{10348}", "\\n", "\\\"", "\\\\", " ", "\u{20ac}", "\\t", "\\u00e9", "\\r", "z"]).as_bytes().to_vec()).collect())
}
fn num_any(r: &mut Rng) -> Tok { p(*r.pick(&["0", "-1", "12", "1.5", "1e2", "-0.25E-1", "255", "7", "100"])) }
fn n8(r: &mut Rng) -> Tok { p(*r.pick(&["0", "1", "12", "255", "7", "100"])) }

fn value_toks(r: &mut Rng, depth: usize, out: &mut Vec<Tok>) {
    let k = if depth == 0 { r.below(5) } else { r.below(8) };
    match k {
        0 => out.push(p("null")),
        1 => out.push(p(if r.chance(1, 2) { "true" } else { "false" })),
        2 | 3 => out.push(num_any(r)),
        4 => out.push(str_tok(r)),
        5 | 6 => {
            out.push(p("["));
            for i in 0..r.below(4) { if i > 0 { out.push(p(",")); } value_toks(r, depth - 1, out); }
            out.push(p("]"));
        }
        _ => {
            out.push(p("{"));
            for i in 0..r.below(4) { if i > 0 { out.push(p(",")); } out.push(str_tok(r)); out.push(p(":")); value_toks(r, depth - 1, out); }
            out.push(p("}"));
        }
    }
}

pub const SCHEMAS: &[&str] = &["a", "x", "ic", "T2;iAiA", "Qic", "MiAb", "Os", "iE", "S02;61;iA62;s", "E1;56;nb", "Qa", "Msx"];

/// a token sequence the schema accepts
fn typed_toks(se: &str, r: &mut Rng) -> Vec<Tok> {
    let mut out = vec![];
    match se {
        "ic" => out.push(p(*r.pick(&["0", "-1", "12", "2147483647", "-2147483648", "7"]))),
        "T2;iAiA" => { out.push(p("[")); out.push(n8(r)); out.push(p(",")); out.push(n8(r)); out.push(p("]")); }
        "Qic" => { out.push(p("[")); for i in 0..r.below(5) { if i > 0 { out.push(p(",")); } out.push(p(*r.pick(&["0", "-1", "12", "2147483647", "7"]))); } out.push(p("]")); }
        "MiAb" => {
            out.push(p("{"));
            for i in 0..r.below(4) { if i > 0 { out.push(p(",")); } out.push(Tok::Str(vec![r.pick(&["0", "1", "12", "255", "7"]).as_bytes().to_vec()])); out.push(p(":")); out.push(p(if r.chance(1, 2) { "true" } else { "false" })); }
            out.push(p("}"));
        }
        "Os" => { if r.chance(1, 3) { out.push(p("null")); } else { out.push(str_tok(r)); } }
        "iE" => out.push(p(*r.pick(&["0", "340282366920938463463374607431768211455", "18446744073709551616", "12"]))),
        "S02;61;iA62;s" => { out.push(p("{")); out.push(p("\"a\"")); out.push(p(":")); out.push(n8(r)); out.push(p(",")); out.push(p("\"b\"")); out.push(p(":")); out.push(str_tok(r)); out.push(p("}")); }
        "E1;56;nb" => { out.push(p("{")); out.push(p("\"V\"")); out.push(p(":")); out.push(p(if r.chance(1, 2) { "true" } else { "false" })); out.push(p("}")); }
        "Qa" => { out.push(p("[")); for i in 0..r.below(4) { if i > 0 { out.push(p(",")); } value_toks(r, 1, &mut out); } out.push(p("]")); }
        "Msx" => { out.push(p("{")); for i in 0..r.below(4) { if i > 0 { out.push(p(",")); } out.push(str_tok(r)); out.push(p(":")); value_toks(r, 1, &mut out); } out.push(p("}")); }
        _ => value_toks(r, 2, &mut out),
    }
    out
}

/// gaps[0] tok[0] gaps[1] … tok[n-1] gaps[n]
fn render(toks: &[Tok], gaps: &[Vec<u8>]) -> Vec<u8> {
    let mut out = gaps[0].clone();
    for (i, t) in toks.iter().enumerate() { out.extend_from_slice(&t.bytes()); out.extend_from_slice(&gaps[i + 1]); }
    out
}

const JUNK: &[u8] = &[0x01, b'x', 0x7f, b'$', 0xc3, 0xff, b'\'', b';', 0x00, b'x', b'x'];

/// one offending byte planted in gap `j` (split at a random point of the gap), the rest kept or cut
fn plant_gap(toks: &[Tok], gaps: &[Vec<u8>], r: &mut Rng) -> (Vec<u8>, &'static str) {
    let j = r.below(gaps.len());
    let k = r.below(gaps[j].len() + 1);
    let junk = *r.pick(JUNK);
    let mut out = vec![];
    for i in 0..gaps.len() {
        if i == j { out.extend_from_slice(&gaps[j][..k]); out.push(junk); if r.chance(1, 4) { return (out, "gap-cut"); } out.extend_from_slice(&gaps[j][k..]); }
        else { out.extend_from_slice(&gaps[i]); }
        if i < toks.len() { out.extend_from_slice(&toks[i].bytes()); }
    }
    let where_ = if gaps[j].is_empty() { "gap-empty" } else if k == 0 { "gap-before" } else if k == gaps[j].len() { "gap-after" } else { "gap-inside" };
    (out, where_)
}

/// a raw control character (newline, CR, tab, 0x01) planted inside one of the string tokens, between two pieces
fn plant_str(toks: &[Tok], gaps: &[Vec<u8>], r: &mut Rng) -> Option<Vec<u8>> {
    let strs: Vec<usize> = toks.iter().enumerate().filter(|(_, t)| matches!(t, Tok::Str(_))).map(|(i, _)| i).collect();
    if strs.is_empty() { return None; }
    let i = *r.pick(&strs);
    let mut toks = toks.to_vec();
    if let Tok::Str(ps) = &mut toks[i] { let k = r.below(ps.len() + 1); ps.insert(k, vec![*r.pick(&[0x0au8, 0x0a, 0x0d, 0x09, 0x01])]); }
    Some(render(&toks, gaps))
}

fn class_of(o: &str) -> &'static str {
    if o.starts_with("OK:") { return "ok"; }
    if o == "PANIC" { return "panic"; }
    let f: Vec<&str> = o.split(':').collect();
    if f.len() == 5 { match f[2] { "syntax" => "syntax", "eof" => "eof", "data" => "data", _ => "other" } } else { "other" }
}
fn pos_tag(o: &str) -> String {
    let f: Vec<&str> = o.split(':').collect();
    if f.len() != 5 { return "-".into(); }
    format!("{}{}", if f[3] == "1" { "line1" } else if f[3] == "0" { "nopos" } else { "lineN" }, if f[4] == "0" { "col0" } else { "" })
}

pub fn emit_lc3(sink: &mut Sink, cfg: &str, se: &str, kind: &str, b: &[u8], r: &mut Rng, tag: &str) {
    let s = dec_schema(se);
    let o1 = if std::str::from_utf8(b).is_ok() { outcome(&s, "str", b, vec![]) } else { "-".into() };
    let o2 = outcome(&s, "slice", b, vec![]);
    let o3 = outcome(&s, "reader", b, chunk_sizes(r));
    let t = format!("lc3:{}:{}:{}:{}:{}", tag, se.chars().next().unwrap_or('?'), class_of(&o2), pos_tag(&o2), if o2 == o3 { "same" } else { "shift" });
    let nontrivial = class_of(&o2) != "ok" && b.iter().any(|c| *c == b'\n' || *c == b'\r');
    sink.case("lc3", &[cfg, se, kind, &hexf(b)], &format!("{}|{}|{}", o1, o2, o3), &t, nontrivial);
}

pub fn emit_lcs(sink: &mut Sink, cfg: &str, b: &[u8], calls: usize, r: &mut Rng, tag: &str) {
    for tgt in ["value", "ignored"] {
        let sizes = chunk_sizes(r);
        let o = format!("{}|{}|{}", history(tgt, "str", b, calls, vec![], false), history(tgt, "slice", b, calls, vec![], false), history(tgt, "reader", b, calls, sizes, false));
        let mid = o.split('|').nth(1).unwrap_or("");
        let cls = if mid.contains(":syntax:") { "syntax" } else if mid.contains(":eof:") { "eof" } else if mid.contains("PANIC") { "panic" } else { "clean" };
        sink.case("lcs", &[cfg, tgt, &calls.to_string(), &hexf(b)], &o, &format!("lcs:{}:{}:{}", tag, tgt, cls), b.iter().any(|c| *c == b'\n'));
    }
}

/// texts where the byte a reader has PEEKED when a typed error is positioned is a newline (slice: line l, column c;
/// reader: line l + 1, column 0), their `\r\n` / `\r` / blank variants, and end-of-input / first-line controls
fn crafted() -> Vec<(&'static str, Vec<u8>)> {
    let mut v: Vec<(&'static str, Vec<u8>)> = vec![];
    for nl in ["\n", "\r\n", "\r", " ", "\n\n", "\t\n", ""] {
        // visitor errors positioned by fix_position with the byte after a number peeked
        for t in ["256", "\n256", "\r\n 256", "-1", "1.5", "\n\n1e2"] { v.push(("iA", format!("{}{}", t, nl).into_bytes())); v.push(("iA", format!("{}{}x", t, nl).into_bytes())); }
        v.push(("ic", format!("2147483648{}", nl).into_bytes()));
        v.push(("ic", format!("[{}1]", nl).into_bytes()));
        v.push(("ic", format!("{}\"a{}b\"", nl, nl).into_bytes()));
        // 128-bit overflow: `self.error(NumberOutOfRange)` with the byte that ended the digits peeked
        v.push(("iE", format!("340282366920938463463374607431768211456{}", nl).into_bytes()));
        v.push(("iE", format!("\n340282366920938463463374607431768211456{}1", nl).into_bytes()));
        v.push(("ie", format!("-170141183460469231731687303715884105729{}", nl).into_bytes()));
        // numeric map keys: `self.de.error(ExpectedNumericKey)` with the byte after the quote peeked
        v.push(("MiAb", format!("{{\"{}1\":true}}", nl).into_bytes()));
        v.push(("MiAb", format!("{{{}\"{}\":true}}", nl, nl).into_bytes()));
        v.push(("MiAb", format!("{{\"1{}\":true}}", nl).into_bytes()));
        v.push(("MiAb", format!("{{\"1\"{}:{}true{},{}}}", nl, nl, nl, nl).into_bytes()));
        v.push(("MiAb", format!("{{\"256\"{}:true}}", nl).into_bytes()));
        // enums: `self.error(ExpectedSomeValue)` after parse_whitespace
        v.push(("E1;56;nb", format!("{{\"V\":true{},}}", nl).into_bytes()));
        v.push(("E1;56;nb", format!("{{\"V\":true{}", nl).into_bytes()));
        v.push(("E1;56;nb", format!("{{\"W\"{}:true}}", nl).into_bytes()));
        v.push(("E1;56;nb", format!("{{{}}}", nl).into_bytes()));
        // tuples / sequences: wrong length, wrong element kind, trailing comma, trailing characters
        for t in ["[1{}]", "[1,2,3{}]", "[1,{}]", "[1,2{},]", "[1,2]{}x", "[1,2]{}", "[{}1,\"a\"]", "[1,{}2.5]", "[1{}2]", "[{}", "[1,2{}", "{}[1,2]{}]"] {
            v.push(("T2;iAiA", t.replace("{}", nl).into_bytes()));
        }
        for t in ["[1,2{},]", "[{}]", "[1{}2]", "[1,{}null]", "[1,2]{}]", "[1,2]{}[", "[1,\n2,\n3,\n{}4294967296]"] { v.push(("Qic", t.replace("{}", nl).into_bytes())); }
        // structs: unknown / missing / duplicate fields, wrong kinds
        for t in ["{\"a\":1{}}", "{\"a\":1,{}\"b\":2}", "{\"a\":1,\"b\":\"x\",{}\"a\":2}", "{\"a\"{}:256,\"b\":\"\"}", "[1{}]", "[1,\"s\",{}3]", "{\"a\":1,\"b\":\"\"}{}}"] {
            v.push(("S02;61;iA62;s", t.replace("{}", nl).into_bytes()));
            v.push(("S12;61;iA62;s", t.replace("{}", nl).into_bytes()));
        }
        // Option / unit / bool / char / string targets hit by another kind
        for s in ["Os", "u", "b", "c", "s", "OiA"] {
            for t in ["{}1{}", "{}[{}", "{}nul{}l", "{}\"ab\"{}", "{}{{}", "{}tru{}", "{}\"a{}b\"", "{}\"\\{}\""] { v.push((s, t.replace("{}", nl).into_bytes())); }
        }
        // numbers that have left the 64-bit fast path (20+ integer digits: parse_long_integer / parse_long_decimal / parse_long_exponent under
        // float_roundtrip), cut short after `.` / `e` / `e+`, the next byte being a newline variant, a closer or a letter: f64, f32, Value, IgnoredAny targets
        for s in ["d", "g", "a", "x", "Qd"] {
            for t in ["[18446744073709551616.{}x]", "[18446744073709551616.{}]", "[1,{} 99999999999999999999.e5,{} 3]", "[{}-123456789012345678901234567890e{}]", "[18446744073709551616e+{}]",
                      "[18446744073709551616.5e{},1]", "[{}18446744073709551616.{}", "[12345678901234567890123.{}", "[1.{}]", "[18446744073709551615.{}x]"] {
                v.push((s, t.replace("{}", nl).into_bytes()));
            }
        }
        // Value / IgnoredAny: the classical sites
        for s in ["a", "x"] {
            for t in ["[1,{}]", "[1{}2]", "{\"a\"{}1}", "{\"a\":1{},}", "{{}\"a\":1,{}}", "[{}", "{}", "1{}x", "\"a{}b\"", "\"a\\{}\"", "[1,2]{}x", "{}-{}", "1.{}", "1e{}", "nul{}", "[1e999{},2]", "\"\\ud800{}\"", "\"\\u00{}e9\"", "[\"\u{e9}\u{e9}\",{}\"\u{1f600}\"{}x]"] {
                v.push((s, t.replace("{}", nl).into_bytes()));
            }
        }
    }
    v
}

fn mutate1(d: &[u8], r: &mut Rng) -> Vec<u8> {
    let alpha: &[u8] = b"\n\r \t,:[]{}\"x1-e.\\\n\n";
    let mut d = d.to_vec();
    match r.below(4) {
        0 if !d.is_empty() => { let i = r.below(d.len()); d.remove(i); }
        1 if !d.is_empty() => { let i = r.below(d.len()); d[i] = *r.pick(alpha); }
        2 if !d.is_empty() => { let i = r.below(d.len()); d.truncate(i); }
        _ => { let i = r.below(d.len() + 1); d.insert(i, *r.pick(alpha)); }
    }
    d
}

fn stream_docs(r: &mut Rng) -> (Vec<Tok>, Vec<Vec<u8>>, usize) {
    let k = 1 + r.below(4);
    let mut toks = vec![];
    for _ in 0..k { value_toks(r, 1, &mut toks); }
    let gaps: Vec<Vec<u8>> = (0..=toks.len()).map(|_| gap(r)).collect();
    (toks, gaps, k)
}

pub fn run(sink: &mut Sink, _prop: &str, thorough: bool, seed: u64) {
    let mut r = Rng::new(seed ^ 0x11ec01);
    let cfg = cfg_tag();
    for (se, t) in crafted() { emit_lc3(sink, &cfg, se, "free", &t, &mut r, "crafted"); }
    let per = if thorough { 600 } else { 60 };
    for se in SCHEMAS {
        for _ in 0..per {
            let toks = typed_toks(se, &mut r);
            let gaps: Vec<Vec<u8>> = (0..=toks.len()).map(|_| gap(&mut r)).collect();
            let doc = render(&toks, &gaps);
            emit_lc3(sink, &cfg, se, "free", &doc, &mut r, "intact");
            for _ in 0..3 { let (d, w) = plant_gap(&toks, &gaps, &mut r); emit_lc3(sink, &cfg, se, "plant", &d, &mut r, w); }
            for _ in 0..2 { if let Some(d) = plant_str(&toks, &gaps, &mut r) { emit_lc3(sink, &cfg, se, "plant", &d, &mut r, "in-string"); } }
            for _ in 0..4 { let m = mutate1(&doc, &mut r); emit_lc3(sink, &cfg, se, "free", &m, &mut r, "mut"); }
        }
    }
    // streams
    for s in ["", "\n", "1\n2\n", "1\r\n2\r\n\r\n", "\n\n[1]\n\n\"a\"\n\n", "1\nx", "[1,\n2]\n\n[3,\n x", "\"\u{e9}\"\n\"\u{e9}\u{1f600}\" \n x", "1\n\n2\n\n\u{1}", "null\ntrue\rfalse\r\nnul", "1\n2x", "{\"a\":\n1}\n{\"a\"\n:x}"] {
        emit_lcs(sink, &cfg, s.as_bytes(), 6, &mut r, "corpus");
    }
    // streams whose second / third item runs into the nesting limit: the error sits at the 128th opening bracket of THAT item (bracket or brace,
    // levels on their own lines or not)
    for first in ["1\n", "[[1]]\n{\"a\":[]} ", ""] {
        for d in [127usize, 128, 129] {
            for mix in 0..4 {
                for sep in ["", "\n", "\r\n "] {
                    let mut doc = first.as_bytes().to_vec(); let mut close: Vec<u8> = vec![];
                    for i in 0..d {
                        let obj = match mix { 0 => false, 1 => true, 2 => i == 127, _ => i % 2 == 0 };
                        if i > 0 { doc.extend_from_slice(sep.as_bytes()); }
                        if obj { doc.extend_from_slice(b"{\"a\":"); close.insert(0, b'}'); } else { doc.push(b'['); close.insert(0, b']'); }
                    }
                    doc.extend_from_slice(b"1"); doc.extend_from_slice(&close); doc.extend_from_slice(b"\n2");
                    emit_lcs(sink, &cfg, &doc, 5, &mut r, "deep");
                }
            }
        }
    }
    for _ in 0..(if thorough { 3000 } else { 300 }) {
        let (toks, gaps, k) = stream_docs(&mut r);
        let doc = render(&toks, &gaps);
        emit_lcs(sink, &cfg, &doc, k + 3, &mut r, "intact");
        for _ in 0..2 { let (d, _) = plant_gap(&toks, &gaps, &mut r); emit_lcs(sink, &cfg, &d, k + 3, &mut r, "plant"); }
        let cut = r.below(doc.len() + 1);
        emit_lcs(sink, &cfg, &doc[..cut], k + 3, &mut r, "cut");
    }
}

pub fn replay(sink: &mut Sink, toks: &[&str]) {
    let cfg = cfg_tag();
    let mut r = Rng::new(1);
    match toks[0] {
        "lc3" if toks.len() >= 5 => emit_lc3(sink, &cfg, toks[2], toks[3], &unhex(toks[4]), &mut r, "replay"),
        "lcs" if toks.len() >= 5 => { let calls: usize = toks[3].parse().unwrap_or(4); let b = unhex(toks[4]);
            let tgt = toks[2];
            let o = format!("{}|{}|{}", history(tgt, "str", &b, calls, vec![], false), history(tgt, "slice", &b, calls, vec![], false), history(tgt, "reader", &b, calls, vec![1], false));
            sink.case("lcs", &[&cfg, tgt, toks[3], toks[4]], &o, "replay", true); }
        _ => {}
    }
}
