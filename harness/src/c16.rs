//! C16: `from_value::<T>(v)`, `T::deserialize(&v)` and `from_str::<T>(&to_string(&v))` for the universal seed.
//!
//! `c16 <cfg> <schema> <value> <F0|F1> <ext> <hex of to_string(value)> => <owned>|<borrowed>|<text>` with outcomes `OK:<tval>` / `ERR` / `PANIC`.
//! `F1`: f64 results are comparable (float_roundtrip build, or every number of the value is an integer in
//! [i64::MIN, u64::MAX] or a short literal: <= 15 significant digits and |decimal exponent| <= 22).
//! `<ext>` (arbitrary_precision only, else `-`): for every number literal of the value that is not a plain
//! integer, `lit:ryu:display` in hex — what `ryu` and `f64::to_string` print for `lit.parse::<f64>()`
//! (external code the model takes as a parameter).
use crate::common::*;
use crate::schema::*;
use serde::de::DeserializeSeed;
use serde_json::{Map, Value};
use std::panic::{catch_unwind, AssertUnwindSafe};

fn cfg_name() -> String { std::env::var("SJH_CFG").unwrap_or_else(|_| "d".into()) }

fn show<E>(r: std::thread::Result<Result<TVal, E>>) -> String {
    match r { Ok(Ok(t)) => format!("OK:{}", enc_tval(&t)), Ok(Err(_)) => "ERR".into(), Err(_) => "PANIC".into() }
}

/// the three paths of the property statement
pub fn observe(s: &Schema, v: &Value) -> String {
    // from_value::<T>(v): `Value` is a `Deserializer` by value
    let owned = show(catch_unwind(AssertUnwindSafe(|| Seed(s).deserialize(v.clone()))));
    // T::deserialize(&v)
    let borrowed = show(catch_unwind(AssertUnwindSafe(|| Seed(s).deserialize(v))));
    // from_str::<T>(&to_string(&v)): deserialize, then `end()`
    let text = show(catch_unwind(AssertUnwindSafe(|| {
        let t = serde_json::to_string(v).expect("to_string of a Value");
        let mut de = serde_json::Deserializer::from_str(&t);
        let x = Seed(s).deserialize(&mut de)?;
        de.end()?;
        Ok::<TVal, serde_json::Error>(x)
    })));
    format!("{}|{}|{}", owned, borrowed, text)
}

/// <= 15 significant digits and |decimal exponent| <= 22 (the exact case of C08)
fn short_lit(s: &str) -> bool {
    let s = s.strip_prefix('-').unwrap_or(s);
    let (mant, exp) = match s.find(|c| c == 'e' || c == 'E') { Some(i) => (&s[..i], s[i + 1..].parse::<i64>().unwrap_or(i64::MAX / 2)), None => (s, 0) };
    let (int, frac) = match mant.find('.') { Some(i) => (&mant[..i], &mant[i + 1..]), None => (mant, "") };
    let digits: String = format!("{}{}", int, frac);
    let sig = digits.trim_start_matches('0');
    if sig.is_empty() { return true; }
    let e = exp - frac.len() as i64;
    sig.len() <= 15 && e.abs() <= 22
}

fn floats_safe(v: &Value) -> bool {
    match v {
        Value::Number(n) => n.is_u64() || n.is_i64() || short_lit(&n.to_string()),
        Value::Array(xs) => xs.iter().all(floats_safe),
        Value::Object(m) => m.values().all(floats_safe),
        _ => true,
    }
}

#[cfg(feature = "ap")]
fn ext_of(v: &Value) -> String {
    fn go(v: &Value, out: &mut Vec<String>) {
        match v {
            Value::Number(n) => {
                let s = n.to_string();
                if s.parse::<u128>().is_ok() || s.parse::<i128>().is_ok() { return; }
                if let Ok(f) = s.parse::<f64>() {
                    if f.is_finite() {
                        let e = format!("{}:{}:{}", hex(s.as_bytes()), hex(serde_json::to_string(&f).unwrap().as_bytes()), hex(f.to_string().as_bytes()));
                        if !out.contains(&e) { out.push(e); }
                    }
                }
            }
            Value::Array(xs) => for x in xs { go(x, out); },
            Value::Object(m) => for x in m.values() { go(x, out); },
            _ => {}
        }
    }
    let mut out = vec![];
    go(v, &mut out);
    if out.is_empty() { "-".into() } else { out.join(",") }
}
#[cfg(not(feature = "ap"))]
fn ext_of(_v: &Value) -> String { "-".into() }

fn schema_tag(s: &Schema) -> &'static str {
    match s {
        Schema::Bool => "bool", Schema::Int(_) => "int", Schema::F64 => "f64", Schema::F32 => "f32", Schema::Char => "char", Schema::Str => "string",
        Schema::Bytes => "bytes", Schema::Option(_) => "option", Schema::Unit => "unit", Schema::UnitStruct => "unitstruct",
        Schema::Newtype(_) => "newtype", Schema::Seq(_) => "seq", Schema::Tuple(_) => "tuple", Schema::Map(k, _) => match k {
            KeyKind::Str => "map-str", KeyKind::Int(_) => "map-int", KeyKind::Bool => "map-bool", KeyKind::Char => "map-char", KeyKind::UnitEnum(_) => "map-enum" },
        Schema::Struct(_, false) => "struct", Schema::Struct(_, true) => "struct-deny", Schema::Enum(_) => "enum", Schema::Ignored => "ignored", Schema::Any => "any",
    }
}
fn is_leaf(s: &Schema) -> bool {
    matches!(s, Schema::Bool | Schema::Int(_) | Schema::F64 | Schema::F32 | Schema::Char | Schema::Str | Schema::Unit | Schema::UnitStruct | Schema::Ignored | Schema::Any)
}

fn emit(sink: &mut Sink, s: &Schema, v: &Value, src: &str) {
    let cfg = cfg_name();
    let se = enc_schema(s);
    let ve = enc(v);
    let flag = if cfg.contains("fr") || floats_safe(v) { "F1" } else { "F0" };
    let ext = ext_of(v);
    let o = observe(s, v);
    let mut parts = o.split('|');
    let first = parts.next().unwrap_or("");
    let class = if first.starts_with("OK") { "ok" } else { "err" };
    let agree = { let fs: Vec<&str> = o.split('|').collect(); fs.iter().all(|x| x.starts_with("OK")) || fs.iter().all(|x| *x == "ERR") };
    let tag = format!("{}:{}:{}{}", src, schema_tag(s), class, if agree { "" } else { ":split" });
    let nontrivial = !is_leaf(s) || matches!(v, Value::Array(_) | Value::Object(_));
    // the text the third path reads (ryu/itoa output is external to the model: it travels with the case)
    let text = hexf(serde_json::to_string(v).expect("to_string of a Value").as_bytes());
    sink.case("c16", &[&cfg, &se, &ve, flag, &ext, &text], &o, &tag, nontrivial);
}

pub fn replay(sink: &mut Sink, toks: &[&str]) {
    if toks.len() < 4 { return; }
    // a recorded value may not be expressible in this configuration (e.g. the literal 1e400 without arbitrary_precision)
    let dec = catch_unwind(|| (dec_schema(toks[2]), dec_value(toks[3])));
    if let Ok((s, v)) = dec { emit(sink, &s, &v, "replay"); }
}

fn j(s: &str) -> Value { serde_json::from_str(s).expect("corpus literal") }

/// small values of every kind (leaf targets are run against all of them)
fn small_values() -> Vec<Value> {
    let mut out: Vec<Value> = ["null", "true", "false", "0", "1", "-1", "127", "128", "-128", "-129", "255", "256", "32767", "32768", "-32769", "65535", "65536",
        "2147483647", "2147483648", "-2147483648", "-2147483649", "4294967295", "4294967296", "9223372036854775807", "9223372036854775808",
        "-9223372036854775808", "18446744073709551615", "0.0", "-0.0", "1.0", "1.5", "1e3", "0.1", "1e-7", "1.5e300", "123456.789", "4.35",
        "\"\"", "\"a\"", "\"ab\"", "\"é\"", "\"\\u0000\"", "\"\\ud800\\udf48\"", "\"true\"", "\"12\"", "\"null\"", "[]", "[0]", "[0,255]", "[256]", "[-1]", "[1.0]",
        "[\"a\"]", "[null]", "[[]]", "{}", "{\"a\":1}", "{\"a\":null}", "{\"V\":null}", "{\"V\":[]}", "{\"V\":{}}", "{\"a\":1,\"b\":2}"]
        .iter().map(|t| j(t)).collect();
    for t in NUM_LITS { if let Ok(v) = serde_json::from_str::<Value>(t) { out.push(v); } }
    out
}

fn leaf_schemas() -> Vec<Schema> {
    let mut out = vec![Schema::Bool, Schema::F64, Schema::Char, Schema::Str, Schema::Bytes, Schema::Unit, Schema::UnitStruct, Schema::Ignored, Schema::Any];
    for w in INT_TYS { out.push(Schema::Int(w)); }
    out
}

fn corpus(sink: &mut Sink) {
    let vals = small_values();
    let leaves = leaf_schemas();
    // every leaf, and every leaf under option / newtype / seq / 1-tuple, against every small value
    for s in &leaves {
        for v in &vals {
            emit(sink, s, v, "leaf");
            emit(sink, &Schema::Option(Box::new(s.clone())), v, "wrap");
        }
    }
    for s in &leaves {
        for v in &vals {
            if !matches!(v, Value::Array(_) | Value::Null) { continue; }
            emit(sink, &Schema::Seq(Box::new(s.clone())), v, "wrap");
            emit(sink, &Schema::Tuple(vec![s.clone()]), v, "wrap");
            emit(sink, &Schema::Newtype(Box::new(s.clone())), v, "wrap");
        }
    }
    // tuples: too few / exact / too many
    let t2 = Schema::Tuple(vec![Schema::Int(IntTy::U8), Schema::Str]);
    for t in ["[]", "[1]", "[1,\"a\"]", "[1,\"a\",null]", "[\"a\",1]", "[256,\"a\"]", "{\"0\":1,\"1\":\"a\"}", "null", "[1,\"a\",[]]"] { emit(sink, &t2, &j(t), "tuple"); }
    emit(sink, &Schema::Tuple(vec![]), &j("[]"), "tuple");
    emit(sink, &Schema::Tuple(vec![]), &j("[1]"), "tuple");
    emit(sink, &Schema::Tuple(vec![]), &j("null"), "tuple");
    // typed map keys: every key kind against a pool of key spellings
    let keys = ["0", "1", "12", "-3", "01", "1.0", "1e0", "true", "false", "", " 1", "1 ", "+1", "-0", "-", "00", "a", "é", "ab", "V", "W", "255", "256", "-128", "-129",
        "65535", "65536", "4294967295", "4294967296", "18446744073709551615", "18446744073709551616", "-9223372036854775808", "-9223372036854775809",
        "340282366920938463463374607431768211455", "340282366920938463463374607431768211456", "-170141183460469231731687303715884105728",
        "-170141183460469231731687303715884105729", "1\"", "\"1\"", "1\n", "\n", "null", "True", "-1e0", "0.0", "7\u{0}", "7\u{0}8", "\u{0}7", "7\t", "7\u{1f}", "7,", "7}", "7:", "7]", "true\u{0}", "170141183460469231731687303715884105728",
        "170141183460469231731687303715884105727", "340282366920938463463374607431768211454", "9".repeat(45).leak() as &str];
    let mut kinds = vec![KeyKind::Str, KeyKind::Bool, KeyKind::Char, KeyKind::UnitEnum(vec!["V".into(), "W".into(), "".into(), "1".into()])];
    for w in INT_TYS { kinds.push(KeyKind::Int(w)); }
    for k in &kinds {
        let s = Schema::Map(k.clone(), Box::new(Schema::Bool));
        for key in keys { let mut m = Map::new(); m.insert(key.to_string(), Value::Bool(true)); emit(sink, &s, &Value::Object(m), "key"); }
        emit(sink, &s, &j("{}"), "key");
        emit(sink, &s, &j("[]"), "key");
        emit(sink, &s, &j("{\"1\":true,\"0\":false,\"true\":true,\"a\":false}"), "key");
        emit(sink, &s, &j("{\"1\":1}"), "key");
    }
    // structs: object / array, unknown / missing / wrong fields, deny_unknown_fields
    for deny in [false, true] {
        let s = Schema::Struct(vec![("a".into(), Schema::Int(IntTy::I32)), ("b".into(), Schema::Option(Box::new(Schema::Str))), ("c".into(), Schema::Ignored)], deny);
        for t in ["{\"a\":1,\"b\":\"x\",\"c\":[1,2]}", "{\"a\":1,\"c\":null}", "{\"a\":1,\"b\":null,\"c\":0}", "{\"b\":\"x\",\"c\":0}", "{\"a\":1,\"b\":\"x\"}",
                  "{\"a\":1,\"b\":\"x\",\"c\":0,\"d\":5}", "{\"d\":5,\"a\":1,\"c\":0}", "{\"a\":\"1\",\"c\":0}", "{}", "[1,\"x\",null]", "[1,null,null]", "[1,\"x\"]", "[1]", "[]",
                  "[1,\"x\",null,4]", "[\"x\",1,null]", "null", "\"a\"", "1", "{\"a\":1,\"b\":1,\"c\":0}", "{\"c\":0,\"b\":\"y\",\"a\":-2147483648}", "{\"a\":2147483648,\"c\":0}"] {
            emit(sink, &s, &j(t), "struct");
        }
        let e = Schema::Struct(vec![], deny);
        for t in ["{}", "[]", "{\"a\":1}", "[1]", "null"] { emit(sink, &e, &j(t), "struct"); }
        let o = Schema::Struct(vec![("n".into(), Schema::Newtype(Box::new(Schema::Option(Box::new(Schema::Bool))))), ("u".into(), Schema::Unit), ("v".into(), Schema::Any)], deny);
        for t in ["{}", "{\"n\":null,\"u\":null,\"v\":null}", "{\"n\":true,\"u\":null,\"v\":{\"k\":[1]}}", "{\"u\":null,\"v\":1}", "{\"n\":null,\"v\":1}", "{\"n\":null,\"u\":null}"] { emit(sink, &o, &j(t), "struct"); }
    }
    // enums: every shape, every spelling
    let e = Schema::Enum(vec![
        ("U".into(), Shape::Unit), ("N".into(), Shape::Newtype(Box::new(Schema::Int(IntTy::U8)))),
        ("T".into(), Shape::Tuple(vec![Schema::Bool, Schema::Str])), ("S".into(), Shape::Struct(vec![("x".into(), Schema::Int(IntTy::I8)), ("y".into(), Schema::Option(Box::new(Schema::Bool)))])),
        ("O".into(), Shape::Newtype(Box::new(Schema::Option(Box::new(Schema::Bool))))), ("T1".into(), Shape::Tuple(vec![Schema::Bool])),
    ]);
    for t in ["\"U\"", "{\"U\":null}", "{\"U\":1}", "{\"U\":[]}", "{\"U\":{}}", "\"N\"", "{\"N\":1}", "{\"N\":256}", "{\"N\":null}", "{\"N\":[1]}", "\"T\"", "{\"T\":[true,\"a\"]}", "{\"T\":[true]}",
              "{\"T\":[]}", "{\"T\":[true,\"a\",1]}", "{\"T\":null}", "{\"T\":{}}", "{\"T\":{\"0\":true,\"1\":\"a\"}}", "\"S\"", "{\"S\":{\"x\":1,\"y\":true}}", "{\"S\":{\"x\":1}}", "{\"S\":{\"y\":true}}",
              "{\"S\":{\"x\":1,\"z\":2}}", "{\"S\":{}}", "{\"S\":null}", "{\"S\":1}", "{\"S\":\"x\"}", "\"O\"", "{\"O\":null}", "{\"O\":true}", "{\"T1\":[true]}", "{\"T1\":[]}", "{\"T1\":true}",
              "\"X\"", "{\"X\":null}", "{}", "{\"U\":null,\"N\":1}", "{\"N\":1,\"U\":null}", "null", "1", "[]", "[\"U\"]", "true", "\"\"", "{\"\":null}", "0", "{\"0\":null}"] {
        emit(sink, &e, &j(t), "enum");
    }
    // the statement's exclusions (reported, not compared): struct variant as array, zero-length tuple variant
    emit(sink, &e, &j("{\"S\":[1,true]}"), "excluded");
    emit(sink, &e, &j("{\"S\":[1]}"), "excluded");
    let z = Schema::Enum(vec![("Z".into(), Shape::Tuple(vec![])), ("U".into(), Shape::Unit)]);
    for t in ["{\"Z\":[]}", "\"Z\"", "{\"Z\":null}", "\"U\""] { emit(sink, &z, &j(t), "excluded"); }
    for v in &vals { emit(sink, &Schema::F32, v, "excluded"); }
    // Value targets inside containers
    let a = Schema::Seq(Box::new(Schema::Any));
    for t in ["[1,-1,1.5,\"s\",null,true,[],{}]", "[{\"b\":1,\"a\":[{\"c\":null}]}]", "[[[[1]]]]"] { emit(sink, &a, &j(t), "any"); }
}

pub fn run(sink: &mut Sink, thorough: bool, seed: u64) {
    let mut r = Rng::new(seed);
    corpus(sink);
    let n = if thorough { 2_000_000 } else { 200_000 };
    for i in 0..n {
        let depth = match i % 8 { 0 => 0, 1 | 2 | 3 => 1, 4 | 5 | 6 => 2, _ => 3 };
        let s = gen_schema(&mut r, depth);
        let reps = 1 + r.below(3);
        for _ in 0..reps {
            let v = gen_value_for(&s, &mut r);
            emit(sink, &s, &v, "gen");
        }
        if r.chance(1, 10) { let v = gen_value(&mut r, 2); emit(sink, &s, &v, "rand"); }
    }
}
