//! Object-KEY position of three clauses (C05 escaping, C06 integers as decimal digits, C05 bytes targets).
//!
//! * `esck <route> <hex s> => <hex key literal>` — the string `s` as a map KEY through the text serializer
//!   (`MapKeySerializer`): route `cm` = `BTreeMap<char, u8>` (s is one char: `serialize_char` on the key serializer), `ch` = a
//!   hand-driven `serialize_map` + `serialize_key(&char)`, `sm` = `BTreeMap<String, u8>`, `sh` = hand-driven
//!   `serialize_key(&str)`. Each route is run through `to_string`, `to_vec`, `to_writer` (compact: the bytes between `{` and
//!   `:1}`) and `to_string_pretty` (between `{\n  ` and `: 1\n}`); when the four agree the observation is that key literal.
//! * `ikey <cfg> <ty> <decimal> => <to_string>|<pretty>|<to_vec>|<to_writer>|<hand>|<to_value>|<v to_string>|<v to_vec>|<v to_value>`
//!   — the integer of type `ty` as the KEY of a one-entry map (hex of the quoted key literal; `to_value`: hex of the key of the
//!   resulting `Map`; `hand` = hand-driven `serialize_key`), and as a VALUE (hex of the text; `to_value`: the Number's text).
//! * `rsk <cfg> <hex doc> <p> => <str>|<slice>|<reader>` — `doc = {` + literal + `:7}` read into
//!   `BTreeMap<serde_bytes::ByteBuf, u8>`; the key literal's body starts at `doc[p]`: `OK:<hex key bytes>` or
//!   `E:<msg>:<cat>:<line>:<col>`.
use crate::common::*;
use crate::obs::*;
use serde::ser::{Serialize, SerializeMap, Serializer};
use serde_bytes::ByteBuf;
use std::collections::BTreeMap;
use std::panic::{catch_unwind, AssertUnwindSafe};

/// a one-entry map written by hand: `serialize_map(Some(1))`, `serialize_key`, `serialize_value`, `end`
struct Hand<K: Serialize, V: Serialize>(K, V);
impl<K: Serialize, V: Serialize> Serialize for Hand<K, V> {
    fn serialize<S: Serializer>(&self, s: S) -> Result<S::Ok, S::Error> {
        let mut m = s.serialize_map(Some(1))?;
        m.serialize_key(&self.0)?;
        m.serialize_value(&self.1)?;
        m.end()
    }
}

fn strip<'a>(out: &'a [u8], pre: &[u8], post: &[u8]) -> Option<&'a [u8]> {
    if out.len() >= pre.len() + post.len() && out.starts_with(pre) && out.ends_with(post) { Some(&out[pre.len()..out.len() - post.len()]) } else { None }
}

/// the key literal of a one-entry map `{key: <val>}` through the four text entry points; `val` is the value's text
fn key_texts<T: Serialize>(m: &T, val: &str) -> Vec<String> {
    let post_c = format!(":{}}}", val); let post_p = format!(": {}\n}}", val);
    let f = |r: std::thread::Result<Result<Vec<u8>, serde_json::Error>>, pre: &[u8], post: &[u8]| -> String {
        match r {
            Err(_) => "PANIC".into(),
            Ok(Err(_)) => "ERR".into(),
            Ok(Ok(out)) => match strip(&out, pre, post) { Some(k) => hexf(k), None => format!("BAD{}", hexf(&out)) },
        }
    };
    vec![
        f(catch_unwind(AssertUnwindSafe(|| serde_json::to_string(m).map(|s| s.into_bytes()))), b"{", post_c.as_bytes()),
        f(catch_unwind(AssertUnwindSafe(|| serde_json::to_string_pretty(m).map(|s| s.into_bytes()))), b"{\n  ", post_p.as_bytes()),
        f(catch_unwind(AssertUnwindSafe(|| serde_json::to_vec(m))), b"{", post_c.as_bytes()),
        f(catch_unwind(AssertUnwindSafe(|| { let mut w: Vec<u8> = vec![]; serde_json::to_writer(&mut w, m).map(|_| w) })), b"{", post_c.as_bytes()),
    ]
}

fn obs_esck(route: &str, s: &str) -> String {
    let one = |c: char| -> BTreeMap<char, u8> { let mut m = BTreeMap::new(); m.insert(c, 1u8); m };
    let c = s.chars().next().unwrap_or('?');
    let v = match route {
        "cm" => key_texts(&one(c), "1"),
        "ch" => key_texts(&Hand(c, 1u8), "1"),
        "sm" => { let mut m = BTreeMap::new(); m.insert(s.to_string(), 1u8); key_texts(&m, "1") }
        _ => key_texts(&Hand(s, 1u8), "1"),
    };
    if v.iter().all(|x| *x == v[0]) { v[0].clone() } else { format!("{}/pretty:{}/vec:{}/writer:{}", v[0], v[1], v[2], v[3]) }
}

fn needs_escape(b: u8) -> bool { b == b'"' || b == b'\\' || b < 0x20 }

fn emit_esck(sink: &mut Sink, s: &str, tag: &str) {
    let h = hexf(s.as_bytes());
    let cls = if s.bytes().any(needs_escape) { "escaped" } else if s.is_ascii() { "ascii" } else { "multibyte" };
    let single = s.chars().count() == 1;
    for route in ["cm", "ch", "sm", "sh"] {
        if !single && route.starts_with('c') { continue; }
        let o = obs_esck(route, s);
        sink.case("esck", &[route, &h], &o, &format!("esck-{}:{}:{}", tag, route, cls), cls != "ascii");
    }
}

/// C05, key position of the text serializer: every char 0..=0x7f, the escape-relevant and boundary characters and a sample of
/// the others as `char` key and as `String` key; multi-character keys mixing escapes and multi-byte characters
pub fn run_esck(sink: &mut Sink, thorough: bool, seed: u64) {
    let mut r = Rng::new(seed ^ 0x6b65_7973);
    let mut buf = [0u8; 4];
    for cp in 0u32..0x110000 {
        let c = match char::from_u32(cp) { Some(c) => c, None => continue };
        let near = |x: u32| cp + 2 >= x && cp <= x + 2;
        let take = cp < 0x100 || near(0x7ff) || near(0xd7ff) || near(0xe000) || near(0xfffd) || near(0x2028) || (cp & 0xffff) <= 1 || (cp & 0xffff) >= 0xfffe
            || r.chance(1, if thorough { 50 } else { 2500 });
        if take { emit_esck(sink, c.encode_utf8(&mut buf), "char"); }
    }
    let pool: [char; 16] = ['"', '\\', '\u{0}', '\u{8}', '\t', '\n', '\u{b}', '\u{c}', '\r', '\u{1f}', '\u{7f}', 'a', '/', 'é', '\u{2028}', '😀'];
    for a in pool { for b in pool { let s: String = [a, b].iter().collect(); emit_esck(sink, &s, "pair"); } }
    for _ in 0..(if thorough { 5000 } else { 300 }) {
        let n = r.below(12);
        let s: String = (0..n).map(|_| if r.chance(1, 2) { *r.pick(&pool) } else { char::from_u32(r.below(0x250) as u32).unwrap_or('x') }).collect();
        emit_esck(sink, &s, "mix");
    }
}

// ------------------------------------------------------------------ integers as keys / values

fn num_text(r: std::thread::Result<Result<Vec<u8>, serde_json::Error>>) -> String {
    match r { Err(_) => "PANIC".into(), Ok(Err(_)) => "ERR".into(), Ok(Ok(out)) => hexf(&out) }
}

macro_rules! ikey_ty { ($x:expr, $t:ty) => {{
    let x: $t = $x;
    let mut m: BTreeMap<$t, bool> = BTreeMap::new(); m.insert(x, true);
    let mut f = key_texts(&m, "true");
    f.push(key_texts(&Hand(x, true), "true")[0].clone());
    f.push(match catch_unwind(AssertUnwindSafe(|| serde_json::to_value(&m))) {
        Err(_) => "PANIC".into(), Ok(Err(_)) => "ERR".into(),
        Ok(Ok(serde_json::Value::Object(o))) => if o.len() == 1 { hexf(o.keys().next().unwrap().as_bytes()) } else { format!("LEN{}", o.len()) },
        Ok(Ok(_)) => "NOTMAP".into() });
    f.push(num_text(catch_unwind(AssertUnwindSafe(|| serde_json::to_string(&x).map(|s| s.into_bytes())))));
    f.push(num_text(catch_unwind(AssertUnwindSafe(|| serde_json::to_vec(&x)))));
    f.push(match catch_unwind(AssertUnwindSafe(|| serde_json::to_value(&x))) {
        Err(_) => "PANIC".into(), Ok(Err(_)) => "ERR".into(),
        Ok(Ok(serde_json::Value::Number(n))) => hexf(n.to_string().as_bytes()),
        Ok(Ok(_)) => "NOTNUM".into() });
    f.join("|")
}}; }

const TYS: [&str; 10] = ["i8", "i16", "i32", "i64", "i128", "u8", "u16", "u32", "u64", "u128"];

/// `None`: the decimal text is not a value of the type
fn obs_ikey(ty: &str, dec: &str) -> Option<String> {
    macro_rules! go { ($t:ty) => { dec.parse::<$t>().ok().map(|x| ikey_ty!(x, $t)) }; }
    match ty {
        "i8" => go!(i8), "i16" => go!(i16), "i32" => go!(i32), "i64" => go!(i64), "i128" => go!(i128),
        "u8" => go!(u8), "u16" => go!(u16), "u32" => go!(u32), "u64" => go!(u64), "u128" => go!(u128),
        _ => None,
    }
}

fn emit_ikey(sink: &mut Sink, cfg: &str, ty: &str, dec: &str, tag: &str) {
    if let Some(o) = obs_ikey(ty, dec) {
        let cls = if dec.starts_with('-') { "neg" } else if dec == "0" { "zero" } else { "pos" };
        sink.case("ikey", &[cfg, ty, dec], &o, &format!("ikey-{}:{}:{}", tag, ty, cls), dec.len() > 1);
    }
}

fn bits_of(ty: &str) -> u32 { ty[1..].parse().unwrap_or(64) }

/// C06, serialising side: all ten integer widths x {MIN, MIN+1, -1, 0, 1, MAX-1, MAX, every +-2^k and its neighbours that
/// fit, random values of every magnitude} as map keys (five text routes + to_value) and as values
pub fn run_ikey(sink: &mut Sink, thorough: bool, seed: u64) {
    let mut r = Rng::new(seed ^ 0x696b_6579);
    let cfg = cfg_tag();
    let mut pool: Vec<String> = vec![];
    for k in [0u32, 1, 6, 7, 8, 15, 16, 31, 32, 53, 62, 63, 64, 65, 100, 126, 127] {
        let p: u128 = 1u128 << k;
        for d in [-2i32, -1, 0, 1, 2] {
            let v = if d < 0 { p.checked_sub((-d) as u128) } else { p.checked_add(d as u128) };
            if let Some(v) = v { pool.push(v.to_string()); if v != 0 { pool.push(format!("-{}", v)); } }
        }
    }
    for d in 0..3u128 { pool.push((u128::MAX - d).to_string()); }
    for s in ["9", "10", "99", "100", "-9", "-10", "-99", "-100", "1000000000000000000", "9999999999999999999", "10000000000000000000", "-1000000000000000000",
              "99999999999999999999999999999999999999", "100000000000000000000000000000000000000", "-99999999999999999999999999999999999999"] { pool.push(s.to_string()); }
    pool.sort(); pool.dedup();
    for ty in TYS {
        for dec in pool.iter() { emit_ikey(sink, &cfg, ty, dec, "bound"); }
        let bits = bits_of(ty);
        for _ in 0..(if thorough { 3000 } else { 60 }) {
            let wide = ((r.next() as u128) << 64) | r.next() as u128;
            let mag = wide >> (127 - r.below(bits as usize) as u32);
            let dec = if ty.starts_with('i') && r.chance(1, 2) { format!("-{}", mag) } else { mag.to_string() };
            emit_ikey(sink, &cfg, ty, &dec, "rand");
        }
    }
}

// ------------------------------------------------------------------ bytes-typed keys

fn obs_rsk(doc: &[u8], sizes: Vec<usize>) -> String {
    fn fin(r: Result<BTreeMap<ByteBuf, u8>, serde_json::Error>) -> String {
        match r {
            Ok(m) => if m.len() == 1 { format!("OK:{}", hexf(m.keys().next().unwrap())) } else { format!("OK:?{}", m.len()) },
            Err(e) => show_err(&e),
        }
    }
    let g = |x: Result<String, Box<dyn std::any::Any + Send>>| x.unwrap_or_else(|_| "PANIC".to_string());
    let s = match std::str::from_utf8(doc) {
        Ok(t) => g(catch_unwind(AssertUnwindSafe(|| fin(serde_json::from_str(t))))),
        Err(_) => "-".to_string(),
    };
    let b = g(catch_unwind(AssertUnwindSafe(|| fin(serde_json::from_slice(doc)))));
    let r = g(catch_unwind(AssertUnwindSafe(|| fin(serde_json::from_reader(Chunked::new(doc, sizes))))));
    format!("{}|{}|{}", s, b, r)
}

/// the literal `lit` (`lit[0] == '"'`) as the key of `{<lit>:7}`
pub fn emit_rsk(sink: &mut Sink, r: &mut Rng, cfg: &str, lit: &[u8], tag: &str) {
    if lit.first() != Some(&b'"') { return; }
    let doc = [&b"{"[..], lit, b":7}"].concat();
    let o = obs_rsk(&doc, crate::gen::chunk_sizes(r));
    let m = o.split('|').nth(1).unwrap_or("");
    let cls = if m.starts_with("OK") { "ok" } else if m == "PANIC" { "panic" } else { "err" };
    let plain = |b: u8| b >= 0x20 && b < 0x80 && b != b'\\';
    sink.case("rsk", &[cfg, &hexf(&doc), "2"], &o, &format!("rsk:{}:{}", tag, cls), lit.iter().any(|&b| !plain(b)));
}

pub fn replay(sink: &mut Sink, toks: &[&str]) {
    match toks[0] {
        "esck" if toks.len() >= 3 => match String::from_utf8(unhex(toks[2])) {
            Ok(s) => { let o = obs_esck(toks[1], &s); sink.case("esck", &[toks[1], toks[2]], &o, "replay", true) }
            Err(_) => eprintln!("esck replay: argument is not UTF-8"),
        },
        "ikey" if toks.len() >= 4 => emit_ikey(sink, &cfg_tag(), toks[2], toks[3], "replay"),
        "rsk" if toks.len() >= 4 => { let doc = unhex(toks[2]); let o = obs_rsk(&doc, vec![1]); sink.case("rsk", &[&cfg_tag(), toks[2], toks[3]], &o, "replay", true) }
        _ => eprintln!("cannot replay {:?}", toks),
    }
}
