//! C10: every proper prefix of an accepted text is accepted or fails with an Eof error at its end.
use crate::common::*;
use crate::gen::*;
use crate::obs::*;

fn proj(o: &str) -> String {
    if o.starts_with('V') || o == "U" { return "A".into(); }
    let p: Vec<&str> = o.split(':').collect();
    if p.len() == 5 && p[0] == "E" { format!("{}:{}:{}", p[2], p[3], p[4]) } else { o.to_string() }
}

fn one(tgt: &str, src: &str, b: &[u8]) -> String {
    match (tgt, src) {
        ("value", "str") => value_str(std::str::from_utf8(b).unwrap()),
        ("value", "slice") => value_slice(b),
        ("value", _) => value_reader(b, vec![3]),
        (_, "str") => ignored_str(std::str::from_utf8(b).unwrap()),
        (_, "slice") => ignored_slice(b),
        _ => ignored_reader(b, vec![3]),
    }
}

/// outcomes of all prefixes (length 0..=n), comma separated; only emitted when the full text is accepted
pub fn emit(sink: &mut Sink, cfg: &str, tgt: &str, src: &str, doc: &[u8], tag: &str) {
    if src == "str" && std::str::from_utf8(doc).is_err() { return; }
    let full = proj(&one(tgt, src, doc));
    if full != "A" { return; }
    let mut obs = Vec::with_capacity(doc.len() + 1);
    let mut worst = "ok";
    for k in 0..doc.len() {
        // a prefix of a UTF-8 string may cut a character: the str source is only given valid prefixes
        if src == "str" && std::str::from_utf8(&doc[..k]).is_err() { obs.push("-".to_string()); continue; }
        let o = proj(&one(tgt, src, &doc[..k]));
        if o.starts_with("syntax") || o.starts_with("data") { worst = "non-eof"; }
        obs.push(o);
    }
    obs.push(full);
    sink.case("pfx", &[cfg, tgt, src, &hexf(doc)], &obs.join(","), &format!("{}:{}:{}:{}", tag, tgt, src, worst), doc.len() > 1);
}

// ---------------------------------------------------------------- typed targets (no model: the property's predicate only)
use serde::Deserialize;
use std::collections::BTreeMap;

#[derive(Deserialize, Debug)]
#[allow(dead_code)]
struct Rec { a: i32, #[serde(default)] b: Option<String>, c: Vec<u8> }
#[derive(Deserialize, Debug)]
#[allow(dead_code)]
enum En { U, N(i64), T(i8, bool), S { x: u16 } }

fn typed_outcome(name: &str, src: &str, b: &[u8]) -> String {
    macro_rules! go { ($t:ty) => {{
        let r: Result<$t, serde_json::Error> = match src {
            "str" => serde_json::from_str(std::str::from_utf8(b).unwrap()),
            "slice" => serde_json::from_slice(b),
            _ => serde_json::from_reader(Chunked::new(b, vec![2, 5])),
        };
        match r { Ok(_) => "T".to_string(), Err(e) => show_err(&e) }
    }}; }
    let name = name.to_string(); let src = src.to_string(); let b = b.to_vec();
    let (b, name2, src2) = (b, name, src);
    let b = &b[..]; let src = src2.as_str();
    let f = || -> String { match name2.as_str() {
        "i128" => go!(i128), "u128" => go!(u128), "i64" => go!(i64), "u8" => go!(u8), "f64" => go!(f64), "bool" => go!(bool), "string" => go!(String), "unit" => go!(()),
        "opt" => go!(Option<Vec<Option<bool>>>), "pair" => go!((i32, String)), "bytes" => go!(Vec<u8>),
        "mapi32" => go!(BTreeMap<i32, bool>), "mapu128" => go!(BTreeMap<u128, ()>), "mapi128" => go!(BTreeMap<i128, u8>), "mapbool" => go!(BTreeMap<bool, i8>),
        "mapf64" => go!(BTreeMap<String, f64>), "mapu64" => go!(BTreeMap<u64, Vec<i8>>), "mapchar" => go!(BTreeMap<char, char>),
        "rec" => go!(Rec), "enum" => go!(Vec<En>), "ignored-field" => go!(BTreeMap<String, serde::de::IgnoredAny>),
        _ => "?".into() } };
    std::panic::catch_unwind(std::panic::AssertUnwindSafe(f)).unwrap_or("PANIC".into())
}

/// sample documents accepted by each typed target
fn typed_docs(r: &mut Rng) -> Vec<(&'static str, Vec<u8>)> {
    let mut v: Vec<(&'static str, String)> = vec![];
    v.push(("i128", format!("{}", -(r.next() as i128) * (r.next() as i128 >> 1))));
    v.push(("i128", "-170141183460469231731687303715884105728".into()));
    v.push(("i128", "-0".into())); v.push(("i128", "0".into()));
    v.push(("u128", format!("{}", (r.next() as u128) << 40))); v.push(("u128", "340282366920938463463374607431768211455".into()));
    v.push(("i64", format!("{}", r.next() as i64))); v.push(("u8", format!("{}", r.next() as u8)));
    v.push(("f64", gen_number_text(r))); v.push(("bool", "true".into())); v.push(("string", String::from_utf8_lossy(&gen_string_text(r)).into_owned())); v.push(("unit", "null".into()));
    v.push(("opt", "[null, true,false ]".into())); v.push(("opt", "null".into()));
    v.push(("pair", format!("[{}, {}]", r.next() as i32, String::from_utf8_lossy(&gen_string_text(r)))));
    v.push(("bytes", "[1,2, 255 ]".into()));
    v.push(("mapi32", format!("{{\"{}\":true, \"-7\" : false}}", r.next() as i32)));
    v.push(("mapu128", "{\"340282366920938463463374607431768211455\":null,\"0\":null}".into()));
    v.push(("mapi128", format!("{{\"-{}\":3}}", r.next())));
    v.push(("mapbool", "{\"true\":1,\"false\":-1}".into()));
    v.push(("mapf64", "{\"a\":1.5e3,\"b\":-0.0}".into()));
    v.push(("mapu64", format!("{{\"{}\":[1,-1]}}", r.next())));
    v.push(("mapchar", "{\"a\":\"\\u00e9\"}".into()));
    v.push(("rec", "{\"a\": -5, \"zzz\": [1.5e3, {\"q\": null}, \"x\\\"y\"], \"c\":[0,9]}".into()));
    v.push(("rec", "[1, \"s\", []]".into()));
    v.push(("enum", "[\"U\",{\"N\":-3},{\"T\":[1,true]},{\"S\":{\"x\":7}}, {\"S\":[8]}]".into()));
    v.push(("ignored-field", "{\"k\": -1.5e-3, \"l\": [1e5, 0.1, -0, {\"z\":2E+2}]}".into()));
    v.into_iter().map(|(n, s)| (n, s.into_bytes())).collect()
}

pub fn emit_typed(sink: &mut Sink, cfg: &str, name: &str, src: &str, doc: &[u8]) {
    if src == "str" && std::str::from_utf8(doc).is_err() { return; }
    if typed_outcome(name, src, doc) != "T" { return; }
    let mut obs = Vec::with_capacity(doc.len() + 1);
    let mut worst = "ok";
    for k in 0..doc.len() {
        if src == "str" && std::str::from_utf8(&doc[..k]).is_err() { obs.push("-".to_string()); continue; }
        let o = typed_outcome(name, src, &doc[..k]);
        let o = if o == "T" { "A".to_string() } else { proj(&o) };
        if o.starts_with("syntax") || o.starts_with("data") { worst = "non-eof"; }
        obs.push(o);
    }
    obs.push("A".into());
    sink.case("pfxt", &[cfg, name, src, &hexf(doc)], &obs.join(","), &format!("typed:{}:{}:{}", name, src, worst), doc.len() > 1);
}

pub fn replay(sink: &mut Sink, toks: &[&str]) {
    if toks.len() >= 5 && toks[0] == "pfxt" { let cfg = cfg_tag(); emit_typed(sink, &cfg, toks[2], toks[3], &unhex(toks[4])); return; }
    if toks.len() < 5 { return; }
    let cfg = cfg_tag();
    emit(sink, &cfg, toks[2], toks[3], &unhex(toks[4]), "replay");
}

pub fn run(sink: &mut Sink, thorough: bool, seed: u64) {
    let mut r = Rng::new(seed);
    let cfg = cfg_tag();
    let mut docs: Vec<Vec<u8>> = vec![];
    // fixed corpus: every number shape and escape shape nested in both container kinds
    for d in ["1.5e+3", "-0.0E-2", "[1.5,-2e5,0.25E+1]", "{\"a\":-1.5e-3,\"b\":[true,false,null]}", "\"\\ud83d\\ude00\\u00e9\\n\"",
              "[\"\\uD834\\uDD1E\", {\"k\\\"\":\"\\\\\"}]", " [ 1 , { \"a\" : [ ] } ] ", "[[[[[[]]]]]]", "{\"a\":{\"b\":{\"c\":{}}}}", "-0", "0", "[-1]", "123456789012345678901234567890",
              "[0.1e1,1E1,1e-1]", "{\"\":0}", "\"a\\tb\""] {
        docs.push(d.as_bytes().to_vec());
    }
    // the inherent out-of-range-number prefix (known finding): `1` followed by 400 zeros then `e-395`
    let mut big = b"[1".to_vec(); big.extend(std::iter::repeat(b'0').take(400)); big.extend_from_slice(b"e-395]");
    docs.push(big);
    let n = if thorough { 4000 } else { 400 };
    for _ in 0..n { docs.push(gen_doc(&mut r, 3)); }
    // exhaustive short token sequences that are accepted
    let toks = tokens();
    for len in 1..=(if thorough { 4 } else { 3 }) {
        let (shard, nshards) = if len == 4 { ((seed % 8) as usize, 8) } else { (0, 1) };
        exhaustive(&toks, len, shard, nshards, |b| { if serde_json::from_slice::<serde::de::IgnoredAny>(b).is_ok() { docs.push(b.to_vec()); } });
    }
    for d in &docs {
        for tgt in ["value", "ignored"] {
            for src in ["str", "slice", "reader"] { emit(sink, &cfg, tgt, src, d, "doc"); }
        }
    }
    for _ in 0..(if thorough { 40 } else { 6 }) {
        for (name, d) in typed_docs(&mut r) {
            for src in ["str", "slice", "reader"] { emit_typed(sink, &cfg, name, src, &d); }
        }
    }
}
