//! C10: every proper prefix of an accepted text is accepted or fails with an Eof error at its end.
use crate::common::*;
use crate::gen::*;
use crate::obs::*;

fn proj(o: &str) -> String {
    if o.starts_with('V') || o == "U" { return "A".into(); }
    let p: Vec<&str> = o.split(':').collect();
    if p.len() == 5 && p[0] == "E" { format!("{}:{}:{}", p[2], p[3], p[4]) } else { o.to_string() }
}

fn one(tgt: &str, src: &str, b: &[u8]) -> String {
    match (tgt, src) {
        ("value", "str") => value_str(std::str::from_utf8(b).unwrap()),
        ("value", "slice") => value_slice(b),
        ("value", _) => value_reader(b, vec![3]),
        (_, "str") => ignored_str(std::str::from_utf8(b).unwrap()),
        (_, "slice") => ignored_slice(b),
        _ => ignored_reader(b, vec![3]),
    }
}

/// outcomes of all prefixes (length 0..=n), comma separated; only emitted when the full text is accepted
pub fn emit(sink: &mut Sink, cfg: &str, tgt: &str, src: &str, doc: &[u8], tag: &str) {
    if src == "str" && std::str::from_utf8(doc).is_err() { return; }
    let full = proj(&one(tgt, src, doc));
    if full != "A" { return; }
    let mut obs = Vec::with_capacity(doc.len() + 1);
    let mut worst = "ok";
    for k in 0..doc.len() {
        // a prefix of a UTF-8 string may cut a character: the str source is only given valid prefixes
        if src == "str" && std::str::from_utf8(&doc[..k]).is_err() { obs.push("-".to_string()); continue; }
        let o = proj(&one(tgt, src, &doc[..k]));
        if o.starts_with("syntax") || o.starts_with("data") { worst = "non-eof"; }
        obs.push(o);
    }
    obs.push(full);
    sink.case("pfx", &[cfg, tgt, src, &hexf(doc)], &obs.join(","), &format!("{}:{}:{}:{}", tag, tgt, src, worst), doc.len() > 1);
}

pub fn replay(sink: &mut Sink, toks: &[&str]) {
    if toks.len() < 5 { return; }
    let cfg = cfg_tag();
    emit(sink, &cfg, toks[2], toks[3], &unhex(toks[4]), "replay");
}

pub fn run(sink: &mut Sink, thorough: bool, seed: u64) {
    let mut r = Rng::new(seed);
    let cfg = cfg_tag();
    let mut docs: Vec<Vec<u8>> = vec![];
    // fixed corpus: every number shape and escape shape nested in both container kinds
    for d in ["1.5e+3", "-0.0E-2", "[1.5,-2e5,0.25E+1]", "{\"a\":-1.5e-3,\"b\":[true,false,null]}", "\"\\ud83d\\ude00\\u00e9\\n\"",
              "[\"\\uD834\\uDD1E\", {\"k\\\"\":\"\\\\\"}]", " [ 1 , { \"a\" : [ ] } ] ", "[[[[[[]]]]]]", "{\"a\":{\"b\":{\"c\":{}}}}", "-0", "0", "[-1]", "123456789012345678901234567890",
              "[0.1e1,1E1,1e-1]", "{\"\":0}", "\"a\\tb\""] {
        docs.push(d.as_bytes().to_vec());
    }
    // the inherent out-of-range-number prefix (known finding): `1` followed by 400 zeros then `e-395`
    let mut big = b"[1".to_vec(); big.extend(std::iter::repeat(b'0').take(400)); big.extend_from_slice(b"e-395]");
    docs.push(big);
    let n = if thorough { 4000 } else { 400 };
    for _ in 0..n { docs.push(gen_doc(&mut r, 3)); }
    // exhaustive short token sequences that are accepted
    let toks = tokens();
    for len in 1..=(if thorough { 4 } else { 3 }) {
        let (shard, nshards) = if len == 4 { ((seed % 8) as usize, 8) } else { (0, 1) };
        exhaustive(&toks, len, shard, nshards, |b| { if serde_json::from_slice::<serde::de::IgnoredAny>(b).is_ok() { docs.push(b.to_vec()); } });
    }
    for d in &docs {
        for tgt in ["value", "ignored"] {
            for src in ["str", "slice", "reader"] { emit(sink, &cfg, tgt, src, d, "doc"); }
        }
    }
}
