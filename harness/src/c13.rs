//! C13: I/O faults. Readers that fail at byte k (with interleaved Interrupted and short reads),
//! writers that accept m bytes (with short writes and Interrupted) and then fail.
use crate::common::*;
use crate::gen::*;
use crate::obs::*;
use crate::prog::*;
use serde::de::IgnoredAny;
use serde_json::Value;
use std::io::{self, ErrorKind, Read, Write};

const KINDS: &[(&str, ErrorKind)] = &[("BrokenPipe", ErrorKind::BrokenPipe), ("TimedOut", ErrorKind::TimedOut),
    ("UnexpectedEof", ErrorKind::UnexpectedEof), ("Other", ErrorKind::Other), ("InvalidData", ErrorKind::InvalidData)];

fn kind_name(k: ErrorKind) -> String { KINDS.iter().find(|x| x.1 == k).map(|x| x.0.to_string()).unwrap_or(format!("{:?}", k)) }

/// delivers data[..k] in chunks (sizes cycled), interleaving Interrupted, then fails with `kind` forever
struct FaultReader<'a> { data: &'a [u8], k: usize, pos: usize, sizes: Vec<usize>, i: usize, kind: ErrorKind, intr: u64, clean: bool, delivered: &'a std::cell::Cell<bool> }
impl<'a> Read for FaultReader<'a> {
    fn read(&mut self, buf: &mut [u8]) -> io::Result<usize> {
        if self.intr % 3 == 1 { self.intr /= 3; return Err(io::Error::new(ErrorKind::Interrupted, "interrupted")); }
        self.intr = self.intr / 3 + 7;
        if self.pos >= self.k && self.clean { return Ok(0); }
        if self.pos >= self.k { self.delivered.set(true); return Err(io::Error::new(self.kind, "injected fault")); }
        if buf.is_empty() { return Ok(0); }
        let want = self.sizes[self.i % self.sizes.len()].max(1); self.i += 1;
        let n = want.min(buf.len()).min(self.k - self.pos);
        buf[..n].copy_from_slice(&self.data[self.pos..self.pos + n]);
        self.pos += n;
        Ok(n)
    }
}

/// delivers data[..k], then fails ONCE with `kind`, then goes on delivering data[k..] and a clean end: an error swallowed by the
/// deserializer is not rediscovered by a later read
struct OneShotReader<'a> { data: &'a [u8], k: usize, pos: usize, fired: bool, kind: ErrorKind, chunk: usize }
impl<'a> Read for OneShotReader<'a> {
    fn read(&mut self, buf: &mut [u8]) -> io::Result<usize> {
        if self.pos == self.k && !self.fired { self.fired = true; return Err(io::Error::new(self.kind, "injected one-shot fault")); }
        if buf.is_empty() || self.pos >= self.data.len() { return Ok(0); }
        let lim = if self.fired { self.data.len() } else { self.k };
        let n = self.chunk.max(1).min(buf.len()).min(lim - self.pos);
        buf[..n].copy_from_slice(&self.data[self.pos..self.pos + n]);
        self.pos += n;
        Ok(n)
    }
}

fn read_oneshot(tgt: &str, data: &[u8], k: usize, kind: ErrorKind, chunk: usize) -> String {
    let rd = OneShotReader { data, k, pos: 0, fired: false, kind, chunk };
    std::panic::catch_unwind(std::panic::AssertUnwindSafe(|| match tgt {
        "value" => match serde_json::from_reader::<_, Value>(rd) { Ok(v) => format!("V{}", enc(&v)), Err(e) => show_io(&e) },
        "ignored" => match serde_json::from_reader::<_, IgnoredAny>(rd) { Ok(_) => "U".into(), Err(e) => show_io(&e) },
        "pair" => match serde_json::from_reader::<_, (i32, i32)>(rd) { Ok(_) => "T".into(), Err(e) => show_io(&e) },
        "map" => match serde_json::from_reader::<_, std::collections::BTreeMap<String, Vec<i64>>>(rd) { Ok(_) => "T".into(), Err(e) => show_io(&e) },
        "skip" => match serde_json::from_reader::<_, OnlyA>(rd) { Ok(_) => "T".into(), Err(e) => show_io(&e) },
        #[cfg(feature = "rv")]
        "raw" => match serde_json::from_reader::<_, Box<serde_json::value::RawValue>>(rd) { Ok(v) => format!("R{}", hexf(v.get().as_bytes())), Err(e) => show_io(&e) },
        _ => "?".into(),
    })).unwrap_or("PANIC".into())
}
/// a struct with one known field: everything else in the object is skipped (ignore_value)
#[derive(serde::Deserialize)]
struct OnlyA { #[allow(dead_code)] #[serde(default)] a: Option<i32> }

fn show_io(e: &serde_json::Error) -> String {
    if e.classify() == serde_json::error::Category::Io { format!("IO:{}", e.io_error_kind().map(kind_name).unwrap_or("?".into())) } else { show_err(e) }
}

fn read_fault(tgt: &str, data: &[u8], k: usize, kind: ErrorKind, sizes: Vec<usize>, intr: u64, clean: bool) -> (String, bool) {
    let delivered = std::cell::Cell::new(false);
    let rd = FaultReader { data, k, pos: 0, sizes, i: 0, kind, intr, clean, delivered: &delivered };
    let o = std::panic::catch_unwind(std::panic::AssertUnwindSafe(|| match tgt {
        "value" => match serde_json::from_reader::<_, Value>(rd) { Ok(v) => format!("V{}", enc(&v)), Err(e) => show_io(&e) },
        "ignored" => match serde_json::from_reader::<_, IgnoredAny>(rd) { Ok(_) => "U".into(), Err(e) => show_io(&e) },
        "pair" => match serde_json::from_reader::<_, (i32, i32)>(rd) { Ok(_) => "T".into(), Err(e) => show_io(&e) },
        "vec" => match serde_json::from_reader::<_, Vec<u8>>(rd) { Ok(_) => "T".into(), Err(e) => show_io(&e) },
        "map" => match serde_json::from_reader::<_, std::collections::BTreeMap<String, Vec<i64>>>(rd) { Ok(_) => "T".into(), Err(e) => show_io(&e) },
        "opt" => match serde_json::from_reader::<_, Option<(String, bool)>>(rd) { Ok(_) => "T".into(), Err(e) => show_io(&e) },
        "unit3" => match serde_json::from_reader::<_, [(); 3]>(rd) { Ok(_) => "T".into(), Err(e) => show_io(&e) },
        #[cfg(feature = "rv")]
        "raw" => match serde_json::from_reader::<_, Box<serde_json::value::RawValue>>(rd) { Ok(v) => format!("R{}", hexf(v.get().as_bytes())), Err(e) => show_io(&e) },
        #[cfg(feature = "rv")]
        "rawvec" => match serde_json::from_reader::<_, Vec<Box<serde_json::value::RawValue>>>(rd) { Ok(_) => "T".into(), Err(e) => show_io(&e) },
        #[cfg(feature = "rv")]
        "rawmap" => match serde_json::from_reader::<_, std::collections::BTreeMap<String, Box<serde_json::value::RawValue>>>(rd) { Ok(_) => "T".into(), Err(e) => show_io(&e) },
        _ => "?".into(),
    })).unwrap_or("PANIC".into());
    (o, delivered.get())
}

fn read_fault_skip(data: &[u8], k: usize, _kind: ErrorKind) -> (String, bool) {
    // the same k bytes followed by a clean end of input
    let o = std::panic::catch_unwind(std::panic::AssertUnwindSafe(|| match serde_json::from_reader::<_, OnlyA>(&data[..k]) { Ok(_) => "T".to_string(), Err(e) => show_io(&e) })).unwrap_or("PANIC".into());
    (o, false)
}

pub fn emit_read(sink: &mut Sink, cfg: &str, doc: &[u8], r: &mut Rng, tag: &str, typed: bool) {
    for k in 0..=doc.len() {
        let (kn, kind) = *r.pick(KINDS);
        let sizes = chunk_sizes(r); let sizes = if sizes.is_empty() { vec![4096] } else { sizes };
        let intr = r.next() % 729;
        // raw-value buffering (raw_value builds): the fault can arrive while IoRead holds a raw buffer
        let tgts: &[&str] = if typed { if cfg!(feature = "rv") { &["pair", "vec", "map", "opt", "unit3", "rawvec", "rawmap"] } else { &["pair", "vec", "map", "opt", "unit3"] } }
                            else if cfg!(feature = "rv") { &["value", "ignored", "raw"] } else { &["value", "ignored"] };
        for tgt in tgts {
            let (o, d) = read_fault(tgt, doc, k, kind, sizes.clone(), intr, false);
            // the same prefix followed by a clean end of input (UnexpectedEof is never injected here, so kinds differ)
            let (oe, _) = read_fault(tgt, doc, k, kind, sizes.clone(), intr, true);
            let op = if typed { "rfaultt" } else { "rfault" };
            let class = if o.starts_with("IO:") { "io" } else if o.starts_with("E:") { "error-before-fault" } else { "other" };
            sink.case(op, &[cfg, tgt, kn, &k.to_string(), &hexf(doc)], &format!("{}|{}|{}", o, oe, d as u8), &format!("{}:{}:{}", tag, tgt, class), k > 0);
            // the same fault delivered ONCE (the reader recovers afterwards): it must not be swallowed
            if k < doc.len() && matches!(*tgt, "value" | "ignored" | "pair" | "map" | "raw") {
                let o1 = read_oneshot(tgt, doc, k, kind, 1 + (intr as usize % 5));
                let class1 = if o1.starts_with("IO:") { "io" } else if o1.starts_with("E:") { "error-before-fault" } else { "other" };
                sink.case(if typed { "rfaultt1" } else { "rfault1" }, &[cfg, tgt, kn, &k.to_string(), &hexf(doc)], &format!("{}|{}|1", o1, oe), &format!("{}:oneshot:{}:{}", tag, tgt, class1), k > 0);
            }
        }
        if typed && k < doc.len() {
            // skipped content under a one-shot fault: an object with unknown fields read into a struct with one known field
            let (oe, _) = read_fault_skip(doc, k, kind);
            let o1 = read_oneshot("skip", doc, k, kind, 1 + (intr as usize % 5));
            sink.case("rfaultt1", &[cfg, "skip", kn, &k.to_string(), &hexf(doc)], &format!("{}|{}|1", o1, oe), &format!("{}:oneshot:skip", tag), k > 0);
        }
    }
}

/// `impl From<serde_json::Error> for io::Error`: an Io error gives back the injected kind, Syntax/Data become InvalidData,
/// Eof becomes UnexpectedEof (error.rs); observed for errors of every category
pub fn emit_ioconv(sink: &mut Sink, cfg: &str, doc: &[u8], r: &mut Rng) {
    let (kn, kind) = *r.pick(KINDS);
    let k = r.below(doc.len() + 1);
    let cat = |e: &serde_json::Error| crate::obs::cat_name(e).to_string();
    let conv = |e: serde_json::Error| { let c = cat(&e); let io: io::Error = e.into(); format!("{}:{}", c, kind_name(io.kind())) };
    let delivered = std::cell::Cell::new(false);
    let rd = FaultReader { data: doc, k, pos: 0, sizes: vec![5], i: 0, kind, intr: 0, clean: false, delivered: &delivered };
    let a = match serde_json::from_reader::<_, Value>(rd) { Ok(_) => "OK".to_string(), Err(e) => conv(e) };
    let b = match serde_json::from_slice::<Value>(&doc[..k]) { Ok(_) => "OK".to_string(), Err(e) => conv(e) };
    let c = match serde_json::from_slice::<(i8, bool)>(doc) { Ok(_) => "OK".to_string(), Err(e) => conv(e) };
    sink.case("ioconv", &[cfg, kn, &k.to_string(), &hexf(doc)], &format!("{}|{}|{}", a, b, c), "ioconv", true);
}

/// the ways a `StreamDeserializer` over an `io::Read` can be built (public API): `own` = `Deserializer::from_reader(rd).into_iter()`,
/// `ownnew` = `StreamDeserializer::new(IoRead::new(rd))`, `new` = `StreamDeserializer::new(&mut io_read)` (the stream BORROWS its
/// input source: the `impl Read for &mut R` forwarding impl of read.rs), `iter` = `Deserializer::new(&mut io_read).into_iter()`
pub const SCTORS: &[&str] = &["own", "ownnew", "new", "iter"];

/// `n` calls of `next()` (stopping after two `None` in a row once four items are there)
fn drive_stream<'de, R: serde_json::de::Read<'de>>(it: &mut serde_json::StreamDeserializer<'de, R, Value>, n: usize) -> String {
    let mut out: Vec<String> = vec![];
    for _ in 0..n {
        match it.next() { None => { out.push("N".to_string()); if out.len() > 3 && out[out.len() - 2] == "N" { break; } }
                          Some(Ok(_)) => out.push("V".into()), Some(Err(e)) => out.push(show_io(&e)) }
    }
    out.join(",")
}

fn stream_over<Rd: Read>(ctor: &str, rd: Rd, n: usize) -> String {
    use serde_json::de::{IoRead, StreamDeserializer};
    std::panic::catch_unwind(std::panic::AssertUnwindSafe(|| match ctor {
        "own" => { let mut it = serde_json::Deserializer::from_reader(rd).into_iter::<Value>(); drive_stream(&mut it, n) }
        "ownnew" => { let mut it = StreamDeserializer::<_, Value>::new(IoRead::new(rd)); drive_stream(&mut it, n) }
        "new" => { let mut read = IoRead::new(rd); let mut it = StreamDeserializer::<_, Value>::new(&mut read); drive_stream(&mut it, n) }
        "iter" => { let mut read = IoRead::new(rd); let mut it = serde_json::Deserializer::new(&mut read).into_iter::<Value>(); drive_stream(&mut it, n) }
        _ => "?".into(),
    })).unwrap_or("PANIC".into())
}

/// `sfault <cfg> <ctor> <p|o> <kind> <k> <intr> <hex doc> => item,item,…` — a stream of `Value`s over a reader that delivers
/// `doc[..k]` and then fails: for ever (`p`: chunks of 3 bytes, `Interrupted` results from the pattern `intr`) or once (`o`: the
/// reader then goes on with `doc[k..]` and a clean end, so that a stream which reads on after its error yields more items)
fn sfault_case(sink: &mut Sink, cfg: &str, ctor: &str, mode: &str, kn: &str, kind: ErrorKind, k: usize, intr: u64, doc: &[u8], tag: &str) {
    let n = doc.len() + 4;
    let o = if mode == "o" { stream_over(ctor, OneShotReader { data: doc, k, pos: 0, fired: false, kind, chunk: 1 + (intr as usize % 5) }, n) }
            else { let delivered = std::cell::Cell::new(false);
                   stream_over(ctor, FaultReader { data: doc, k, pos: 0, sizes: vec![3], i: 0, kind, intr, clean: false, delivered: &delivered }, n) };
    let term = if o.contains("IO:") { "io" } else if o.contains("E:") { "error-before-fault" } else { "other" };
    sink.case("sfault", &[cfg, ctor, mode, kn, &k.to_string(), &intr.to_string(), &hexf(doc)], &o,
              &format!("stream-fault:{}:{}:{}:{}", tag, ctor, if mode == "o" { "oneshot" } else { "persistent" }, term), true);
}

/// stream iterator over a faulty reader: the error is yielded once, then None — for every construction of the stream
pub fn emit_stream(sink: &mut Sink, cfg: &str, doc: &[u8], k: usize, r: &mut Rng, tag: &str) {
    let (kn, kind) = *r.pick(KINDS);
    let intr = r.next() % 729;
    for ctor in SCTORS { for mode in ["p", "o"] { sfault_case(sink, cfg, ctor, mode, kn, kind, k, intr, doc, tag); } }
}

// ---------------------------------------------------------------------------------------------------------------
// writer side. The policy of the writer is a *script*: the answer to `write` call number j is item j of the script,
// after the script `tail` for ever (never Interrupted, so every run ends). It is printed in the case line, and the
// driver runs `Model.Write.toWriter` against `Model.Write.Writer.script` with the same script.

/// kinds a script may fail with (`WriteZero`: a writer may return that kind itself, not only `write_all`)
const WKINDS: &[(&str, ErrorKind)] = &[("BrokenPipe", ErrorKind::BrokenPipe), ("TimedOut", ErrorKind::TimedOut),
    ("UnexpectedEof", ErrorKind::UnexpectedEof), ("Other", ErrorKind::Other), ("InvalidData", ErrorKind::InvalidData),
    ("WriteZero", ErrorKind::WriteZero)];

/// one answer: `s<n>` = `Ok(min(n, buf.len()))` (n >= 1), `z` = `Ok(0)`, `i` = `Err(Interrupted)`, `e<Kind>` = `Err(kind)`
#[derive(Clone, Copy, Debug, PartialEq)]
pub enum Resp { Short(usize), Zero, Intr, Fail(ErrorKind) }

fn resp_str(r: &Resp) -> String {
    match r { Resp::Short(n) => format!("s{}", n), Resp::Zero => "z".into(), Resp::Intr => "i".into(),
              Resp::Fail(k) => format!("e{}", WKINDS.iter().find(|x| x.1 == *k).map(|x| x.0).unwrap_or("Other")) }
}
fn script_str(s: &[Resp]) -> String { if s.is_empty() { "-".into() } else { s.iter().map(resp_str).collect::<Vec<_>>().join(".") } }
fn parse_resp(t: &str) -> Resp {
    match t.as_bytes()[0] {
        b's' => Resp::Short(t[1..].parse().expect("short-write size")),
        b'z' => Resp::Zero, b'i' => Resp::Intr,
        b'e' => Resp::Fail(WKINDS.iter().find(|x| x.0 == &t[1..]).map(|x| x.1).expect("error kind")),
        _ => panic!("bad script item {:?}", t),
    }
}
fn parse_script(t: &str) -> Vec<Resp> { if t == "-" { vec![] } else { t.split('.').map(parse_resp).collect() } }

/// the state shared by the two writers below
struct ScriptCore { script: Vec<Resp>, tail: Resp, calls: usize, acc: Vec<u8> }
impl ScriptCore {
    fn new(script: &[Resp], tail: Resp) -> Self { ScriptCore { script: script.to_vec(), tail, calls: 0, acc: vec![] } }
    fn write(&mut self, buf: &[u8]) -> io::Result<usize> {
        let r = *self.script.get(self.calls).unwrap_or(&self.tail);
        self.calls += 1;
        assert!(self.calls < 10_000_000, "runaway writer");
        match r {
            Resp::Short(n) => { let n = n.max(1).min(buf.len()); self.acc.extend_from_slice(&buf[..n]); Ok(n) }
            Resp::Zero => Ok(0),
            Resp::Intr => Err(io::Error::new(ErrorKind::Interrupted, "interrupted")),
            Resp::Fail(k) => Err(io::Error::new(k, "injected fault")),
        }
    }
}

/// the writer as an application would write it: `write` only — `write_all` is std's provided method
struct PlainWriter(ScriptCore);
impl Write for PlainWriter {
    fn write(&mut self, buf: &[u8]) -> io::Result<usize> { self.0.write(buf) }
    fn flush(&mut self) -> io::Result<()> { panic!("to_writer must not flush") }
}

/// the same writer, additionally recording every buffer handed to `write_all` (which therefore has to be overridden:
/// std's loop, verbatim; `PlainWriter` checks that the two behave alike)
struct RecWriter { core: ScriptCore, bufs: Vec<Vec<u8>> }
impl Write for RecWriter {
    fn write(&mut self, buf: &[u8]) -> io::Result<usize> { self.core.write(buf) }
    fn write_all(&mut self, mut buf: &[u8]) -> io::Result<()> {
        self.bufs.push(buf.to_vec());
        while !buf.is_empty() {
            match self.write(buf) {
                Ok(0) => return Err(io::Error::new(ErrorKind::WriteZero, "failed to write whole buffer")),
                Ok(n) => buf = &buf[n..],
                Err(ref e) if e.kind() == ErrorKind::Interrupted => {}
                Err(e) => return Err(e),
            }
        }
        Ok(())
    }
    fn flush(&mut self) -> io::Result<()> { panic!("to_writer must not flush") }
}

fn wkind_name(k: ErrorKind) -> String { WKINDS.iter().find(|x| x.1 == k).map(|x| x.0.to_string()).unwrap_or(format!("{:?}", k)) }
fn show_wio(e: &serde_json::Error) -> String {
    if e.classify() == serde_json::error::Category::Io {
        format!("IO:{}", e.io_error_kind().map(wkind_name).unwrap_or("?".into()))
    } else {
        // the serializer's own errors (as `class` in c03.rs)
        let m = e.to_string();
        if m.starts_with("key must be a string") { "ERR:KeyMustBeAString".into() }
        else if m.starts_with("float key must be finite") { "ERR:FloatKeyMustBeFinite".into() }
        else { format!("ERR:Other:{}", m.replace(' ', "_")) }
    }
}

fn ser_into<W: Write>(w: &mut W, p: &Prog, pretty: bool) -> String {
    std::panic::catch_unwind(std::panic::AssertUnwindSafe(|| {
        let rr = if pretty { serde_json::to_writer_pretty(&mut *w, p) } else { serde_json::to_writer(&mut *w, p) };
        match rr {
            Ok(()) => "OK".to_string(),
            // `io::Error::from(err)` must give the writer's error back (same kind), else the observation says so
            Err(e) => { let s = show_wio(&e); let back: io::Error = e.into(); if s.starts_with("IO:") && s != format!("IO:{}", wkind_name(back.kind())) { format!("{}/into:{}", s, wkind_name(back.kind())) } else { s } }
        }
    })).unwrap_or("PANIC".into())
}

/// one case: the program through both writers under the script
fn wfault_case(sink: &mut Sink, cfg: &str, p: &Prog, e: &str, pretty: bool, full: &[u8], clean: &str, script: &[Resp], tail: Resp, fam: &str) {
    let mut w = RecWriter { core: ScriptCore::new(script, tail), bufs: vec![] };
    let res = ser_into(&mut w, p, pretty);
    let mut w2 = PlainWriter(ScriptCore::new(script, tail));
    let res2 = ser_into(&mut w2, p, pretty);
    let same = res2 == res && w2.0.acc == w.core.acc && w2.0.calls == w.core.calls;
    let std = if same { "=".to_string() } else { format!("{}/{}/{}", res2, hexf(&w2.0.acc), w2.0.calls) };
    let bufs: Vec<String> = w.bufs.iter().map(|b| hexf(b)).collect();
    let class = if res == "OK" { "ok" } else if res == "IO:WriteZero" { "writezero" } else if res.starts_with("IO:") { "io" } else if res.starts_with("ERR:") { "sererr" } else { "other" };
    let shape = if script.contains(&Resp::Intr) { "intr" } else { "nointr" };
    sink.case("wfault", &[cfg, if pretty { "p" } else { "c" }, &script_str(script), &resp_str(&tail), e, &hexf(full), clean],
              &format!("{}|{}|{}|{}|{}", res, hexf(&w.core.acc), w.core.calls, if bufs.is_empty() { "-".to_string() } else { bufs.join(".") }, std),
              &format!("write:{}:{}{}:{}:{}", if pretty { "pretty" } else { "compact" }, fam, if clean == "OK" { "" } else { "-failing-prog" }, class, shape), !script.is_empty());
}

/// a script under which the writer accepts exactly `m` bytes of the buffers `bufs0` (the fault-free run) — in short
/// writes of the cycled `sizes`, with `Interrupted` answers in between — and then answers `term`; `term` is either the
/// tail (a writer that stays broken) or the last script item before an accept-everything tail (a transient failure:
/// a serializer that went on writing would leave the writer with something that is not a prefix)
fn budget_script(bufs0: &[Vec<u8>], m: usize, term: Resp, transient: bool, r: &mut Rng) -> (Vec<Resp>, Resp) {
    let sizes = { let s = chunk_sizes(r); if s.is_empty() { vec![4096] } else { s } };
    let intr = r.below(4);   // 0: never Interrupted
    let (mut script, mut acc, mut si) = (vec![], 0usize, 0usize);
    'outer: for b in bufs0 {
        let mut rest = b.len();
        while rest > 0 {
            let mut k = 0; while intr > 0 && k < 3 && r.chance(1, 2 + 2 * intr as u64) { script.push(Resp::Intr); k += 1; }
            if acc == m { break 'outer; }
            let want = sizes[si % sizes.len()].max(1); si += 1;
            let n = want.min(m - acc);
            script.push(Resp::Short(n));
            let real = n.min(rest); acc += real; rest -= real;
        }
    }
    if transient { script.push(term); (script, Resp::Short(4096)) } else { (script, term) }
}

pub fn emit_write(sink: &mut Sink, cfg: &str, p: &Prog, pretty: bool, r: &mut Rng) {
    let e = enc_prog(p);
    // the fault-free run: the buffers as handed to write_all, the bytes a writer that takes everything ends up with
    // (for a program whose serialisation fails by itself: what was written before that error) and the result
    let mut w0 = RecWriter { core: ScriptCore::new(&[], Resp::Short(usize::MAX)), bufs: vec![] };
    let clean = ser_into(&mut w0, p, pretty);
    if clean != "OK" && !clean.starts_with("ERR:") { return; }
    let (bufs0, full) = (w0.bufs, w0.core.acc);
    if clean == "OK" { assert_eq!(Some(&full), (if pretty { serde_json::to_vec_pretty(p) } else { serde_json::to_vec(p) }).ok().as_ref()); }
    let clean = clean.as_str();
    for m in 0..=full.len() + 1 {
        if full.len() > 40 && !r.chance(1, 4) && m != full.len() { continue; }
        let term = if r.chance(1, 5) { Resp::Zero } else { Resp::Fail(r.pick(WKINDS).1) };
        let transient = r.chance(1, 3);
        let (script, tail) = budget_script(&bufs0, m, term, transient, r);
        wfault_case(sink, cfg, p, &e, pretty, &full, clean, &script, tail, if transient { "budget-transient" } else { "budget" });
    }
    // scripts that know nothing about the output
    for _ in 0..3 {
        let n = r.below(13);
        let script: Vec<Resp> = (0..n).map(|_| match r.below(12) {
            0..=5 => Resp::Short(1 + r.below(9)), 6 | 7 => Resp::Short(4096), 8 | 9 => Resp::Intr,
            10 => Resp::Zero, _ => Resp::Fail(r.pick(WKINDS).1) }).collect();
        let tail = match r.below(5) { 0 => Resp::Short(1), 1 | 2 => Resp::Short(4096), 3 => Resp::Zero, _ => Resp::Fail(r.pick(WKINDS).1) };
        wfault_case(sink, cfg, p, &e, pretty, &full, clean, &script, tail, "random");
    }
}

pub fn replay(sink: &mut Sink, toks: &[&str]) {
    if toks[0] == "wfault" && toks.len() == 8 {
        // wfault <cfg> <c|p> <script> <tail> <prog> <hex full> <clean result>
        let p = dec_prog(toks[5]);
        let pretty = toks[2] == "p";
        let full = unhex(toks[6]);
        wfault_case(sink, toks[1], &p, toks[5], pretty, &full, toks[7], &parse_script(toks[3]), parse_resp(toks[4]), "replay");
        return;
    }
    if toks[0] == "sfault" && toks.len() == 8 {
        // sfault <cfg> <ctor> <p|o> <kind> <k> <intr> <hex doc>
        let kind = KINDS.iter().find(|x| x.0 == toks[4]).map(|x| x.1).unwrap_or(ErrorKind::Other);
        sfault_case(sink, &cfg_tag(), toks[2], toks[3], toks[4], kind, toks[5].parse().unwrap_or(0), toks[6].parse().unwrap_or(0), &unhex(toks[7]), "replay");
        return;
    }
    eprintln!("C13 reader cases depend on the PRNG-chosen chunking; replay by re-running ./check C13 with the same VERIF_SEED ({})", toks[0]);
}

pub fn run(sink: &mut Sink, thorough: bool, seed: u64) {
    let mut r = Rng::new(seed);
    let cfg = cfg_tag();
    let mut docs: Vec<Vec<u8>> = vec![];
    for d in ["[1,2]", "[1,2,]", "[1,2,3]", " [ 1 , 2 ] ", "{\"a\":[1,2],\"b\":[]}", "\"\\u00e9\\ud83d\\ude00\"", "[1,]", "01", "null", "[[[[1]]]]x", "1.5e3", "{\"a\" 1}", "[\"a\",true]", "[[],[],[]]", "[[] ,[] , [] ]", "{\"a\":1,\"x\":2.5e+3,\"y\":[1e5,-1E-2]}", "1e5", "-2.5E+10", "{\"z\":{\"q\":1e-7}}", "[1,true]", "[300,true]", "[1,2]", "[1]"] {
        docs.push(d.as_bytes().to_vec());
    }
    for _ in 0..(if thorough { 1500 } else { 150 }) { let d = gen_doc(&mut r, 3); docs.push(if r.chance(1, 4) { mutate(&d, &mut r) } else { d }); }
    for d in &docs {
        emit_read(sink, &cfg, d, &mut r, "doc", false);
        emit_read(sink, &cfg, d, &mut r, "doc", true);
        let k = r.below(d.len() + 1); emit_stream(sink, &cfg, d, k, &mut r, "doc");
        emit_ioconv(sink, &cfg, d, &mut r);
    }
    // streams of several values (bare scalars, self-delineated values, whitespace variety), the fault after every k
    for d in ["", " ", "1 2 ", "1 2", "[1,2] {\"a\":", "\"x\" \"y", "true fal", "{\"k\":[1,2,3]}\n[", "null null", "1x 2", "[] [] 3", "10 20 [30", "true\tfalse\r\n-1.5e2 \"s\""] {
        for k in 0..=d.len() { emit_stream(sink, &cfg, d.as_bytes(), k, &mut r, "stream"); }
    }
    for _ in 0..(if thorough { 400 } else { 40 }) {
        let mut d: Vec<u8> = vec![];
        for _ in 0..(1 + r.below(3)) { gen_doc_into(&mut r, 2, &mut d); for _ in 0..r.below(3) { d.push(*r.pick(&[b' ', b'\n', b'\t', b'\r'])); } }
        for _ in 0..3 { let k = r.below(d.len() + 1); emit_stream(sink, &cfg, &d, k, &mut r, "concat"); }
    }
    // writer side: programs from the C03 generator
    for _ in 0..(if thorough { 3000 } else { 300 }) {
        let p = gen_prog(&mut r, 3);
        emit_write(sink, &cfg, &p, false, &mut r);
        emit_write(sink, &cfg, &p, true, &mut r);
    }
}
