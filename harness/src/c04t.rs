//! C04 typed clause: the zoo of derived types (stub).
use crate::common::*;
pub fn run(_sink: &mut Sink, _thorough: bool, _r: &mut Rng, _cfg: &str) {}
pub fn replay(_sink: &mut Sink, _cfg: &str, _ty: &str, _seed: u64) {}
