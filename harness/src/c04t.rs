//! C04 typed clause: the zoo of derived types.
//!
//! `rtt <cfg> <type> <seed> => o1|o2|o3|o4|o5|o6` — the instance of `<type>` generated from `Rng::new(seed)` is
//! written with to_string / to_vec / to_writer (then the three pretty printers) and read back with
//! from_str / from_slice / from_reader; each field is `=` when the value read back equals the normalised original.
//! Normalisation is the documented exception only: `Some(x)` where `x` serialises as JSON `null` reads back as `None`.
#![allow(dead_code, unused_variables, unused_imports, unused_mut, non_snake_case)]
use crate::c04::{gen_adv_string, gen_f64_typed, guard};
use crate::common::*;
use crate::obs::Chunked;
use crate::prog::{gen_bytes, gen_char, gen_f32_finite};
use serde::de::DeserializeOwned;
use serde::{Deserialize, Serialize};
use serde_bytes::ByteBuf;
use std::cmp::Reverse;
use std::collections::{BTreeMap, BTreeSet, HashMap, VecDeque};
use std::fmt::Debug;
use std::hash::{BuildHasherDefault, Hash};
use std::marker::PhantomData;
use std::net::{IpAddr, Ipv4Addr, Ipv6Addr, SocketAddr};
use std::num::{NonZeroI64, NonZeroU8, Wrapping};
use std::ops::{Bound, Range, RangeInclusive};
use std::time::Duration;

/// deterministic iteration order: fixed-key SipHash instead of RandomState
type DHash<K, V> = HashMap<K, V, BuildHasherDefault<std::collections::hash_map::DefaultHasher>>;

// ------------------------------------------------------------------ observation

fn ser_err(e: serde_json::Error) -> String { format!("SERERR:{}", hex(e.to_string().as_bytes())) }

fn cmp<T: PartialEq + Debug>(text: &[u8], expect: &T, got: Result<T, serde_json::Error>) -> String {
    match got {
        Ok(g) => if g == *expect { "=".into() } else { format!("NE:{}:{}", hex(text), hex(format!("{:?}", g).as_bytes())) },
        Err(e) => format!("DEERR:{}:{}", hex(text), hex(e.to_string().as_bytes())),
    }
}

/// the six combinations: to_string/from_str, to_vec/from_slice, to_writer/from_reader (chunked), then the same pretty;
/// `expect` is the normalised original
fn roundtrip<T: Serialize + DeserializeOwned + PartialEq + Debug>(x: &T, expect: &T, sizes: &[usize]) -> String {
    let mut out: Vec<String> = Vec::with_capacity(6);
    for pretty in [false, true] {
        out.push(guard(|| {
            let t = if pretty { serde_json::to_string_pretty(x) } else { serde_json::to_string(x) };
            match t { Ok(t) => cmp(t.as_bytes(), expect, serde_json::from_str::<T>(&t)), Err(e) => ser_err(e) }
        }));
        out.push(guard(|| {
            let t = if pretty { serde_json::to_vec_pretty(x) } else { serde_json::to_vec(x) };
            match t { Ok(t) => cmp(&t, expect, serde_json::from_slice::<T>(&t)), Err(e) => ser_err(e) }
        }));
        out.push(guard(|| {
            let mut buf: Vec<u8> = vec![];
            let t = if pretty { serde_json::to_writer_pretty(&mut buf, x) } else { serde_json::to_writer(&mut buf, x) };
            match t { Ok(()) => cmp(&buf, expect, serde_json::from_reader::<_, T>(Chunked::new(&buf, sizes.to_vec()))), Err(e) => ser_err(e) }
        }));
    }
    out.join("|")
}

// ------------------------------------------------------------------ generation and normalisation traits

/// `depth` bounds collection nesting: every collection level passes `depth - 1` to its elements, and at 0 collections
/// have at most one element
trait Arb: Sized { fn arb(r: &mut Rng, depth: usize) -> Self; }

/// `norm` maps a value to what the property says is read back: identity except that `Some(x)` with `x` serialising as
/// JSON null becomes `None`. `is_null` = "serialises as JSON null".
trait Norm: Clone {
    fn norm(&self) -> Self { self.clone() }
    fn is_null(&self) -> bool { false }
}

macro_rules! norm_id { ($($t:ty),* $(,)?) => { $(impl Norm for $t {})* } }

fn size(r: &mut Rng, d: usize) -> usize {
    if d == 0 { r.below(2) } else if r.chance(1, 16) { 8 + r.below(5) } else { r.below(5) }
}
fn sub(d: usize) -> usize { d.saturating_sub(1) }

// ---- integers

fn raw128(r: &mut Rng) -> u128 { (r.next() as u128) | ((r.next() as u128) << 64) }

macro_rules! arb_int { ($($t:ident [$($x:expr),*]);* $(;)?) => { $(
    impl Arb for $t {
        fn arb(r: &mut Rng, _d: usize) -> $t {
            const EXTRA: &[$t] = &[$t::MIN + 1, $t::MAX - 1, 9, 10, 99, 100, $t::MAX / 2, $t::MAX / 2 + 1, $t::MAX / 10, $t::MIN / 10 $(, $x)*];
            match r.below(12) {
                0 | 1 => $t::MIN,
                2 | 3 => $t::MAX,
                4 => 0,
                5 => 1,
                6 => (0 as $t).wrapping_sub(1),
                7 => *r.pick(EXTRA),
                _ => {
                    // random value of random magnitude (bit length uniform in 0..=BITS), either sign for the signed types
                    let bits = r.below($t::BITS as usize + 1) as u32;
                    let x = raw128(r);
                    let m = if bits == 0 { 0 } else if bits >= 128 { x } else { (x & ((1u128 << bits) - 1)) | (1u128 << (bits - 1)) };
                    let v = m as $t;
                    if r.chance(1, 2) { v.wrapping_neg() } else { v }
                }
            }
        }
    }
    impl Norm for $t {}
)* } }
arb_int! {
    i8 []; i16 [i8::MIN as i16 - 1, i8::MAX as i16 + 1, 255, 256];
    i32 [i16::MIN as i32 - 1, i16::MAX as i32 + 1, 65535, 65536];
    i64 [i32::MIN as i64 - 1, i32::MAX as i64 + 1, u32::MAX as i64, u32::MAX as i64 + 1, (1 << 53) - 1, 1 << 53, (1 << 53) + 1, -(1 << 53) - 1,
         999_999_999_999_999_999, 1_000_000_000_000_000_000, -1_000_000_000_000_000_000];
    i128 [i64::MIN as i128 - 1, i64::MIN as i128, i64::MAX as i128, i64::MAX as i128 + 1, u64::MAX as i128, u64::MAX as i128 + 1, -(u64::MAX as i128),
          -(u64::MAX as i128) - 1, 10_000_000_000_000_000_000, 9_999_999_999_999_999_999, -9_999_999_999_999_999_999, -10_000_000_000_000_000_000,
          100_000_000_000_000_000_000_000_000_000_000_000_000, -100_000_000_000_000_000_000_000_000_000_000_000_000, (1 << 53) + 1];
    isize [i32::MIN as isize - 1, i32::MAX as isize + 1];
    u8 [127, 128]; u16 [255, 256, 32767, 32768];
    u32 [65535, 65536, i32::MAX as u32, i32::MAX as u32 + 1];
    u64 [u32::MAX as u64, u32::MAX as u64 + 1, i64::MAX as u64, i64::MAX as u64 + 1, (1 << 53) - 1, 1 << 53, (1 << 53) + 1,
         9_999_999_999_999_999_999, 10_000_000_000_000_000_000, 1_000_000_000_000_000_000];
    u128 [u64::MAX as u128, u64::MAX as u128 + 1, i64::MAX as u128, i64::MAX as u128 + 1, i128::MAX as u128, i128::MAX as u128 + 1,
          10_000_000_000_000_000_000, 9_999_999_999_999_999_999, 100_000_000_000_000_000_000_000_000_000_000_000_000,
          99_999_999_999_999_999_999_999_999_999_999_999_999, 340_282_366_920_938_463_463_374_607_431_768_211_450];
    usize [u32::MAX as usize, u32::MAX as usize + 1];
}

// ---- other scalars

impl Arb for bool { fn arb(r: &mut Rng, _d: usize) -> bool { r.chance(1, 2) } }
impl Norm for bool {}

impl Arb for () { fn arb(_r: &mut Rng, _d: usize) {} }
impl Norm for () { fn is_null(&self) -> bool { true } }

const XCHARS: &[char] = &['"', '\\', '\u{0}', '\u{1a}', '\u{1f}', '\u{7f}', '\u{10348}', '\u{10ffff}', '\u{2028}', '\u{2029}', '/', '\u{80}', '\u{9f}',
                          '\u{feff}', '\u{fffd}', '\u{fffe}', '\u{ffff}', '\u{10000}', '\u{d7ff}', '\u{e000}', '\u{7ff}', '\u{800}', '\'', '\u{20}', '\u{1b}',
                          '\u{8}', '\u{c}', '\n', '\r', '\t', 'u', 'n', '0'];
impl Arb for char { fn arb(r: &mut Rng, _d: usize) -> char { if r.chance(2, 5) { *r.pick(XCHARS) } else { gen_char(r) } } }
impl Norm for char {}

impl Arb for String { fn arb(r: &mut Rng, _d: usize) -> String { gen_adv_string(r) } }
impl Norm for String {}

/// floats compared by bit pattern (so that -0.0 ≠ 0.0); Debug shows the bits as well
#[derive(Serialize, Deserialize, Clone, Copy)]
#[serde(transparent)]
struct F32B(f32);
impl PartialEq for F32B { fn eq(&self, o: &F32B) -> bool { self.0.to_bits() == o.0.to_bits() } }
impl Debug for F32B { fn fmt(&self, f: &mut std::fmt::Formatter) -> std::fmt::Result { write!(f, "{:?}#{:08x}", self.0, self.0.to_bits()) } }
impl Arb for F32B { fn arb(r: &mut Rng, _d: usize) -> F32B { F32B(gen_f32_finite(r)) } }
impl Norm for F32B {}

#[derive(Serialize, Deserialize, Clone, Copy)]
#[serde(transparent)]
struct F64B(f64);
impl PartialEq for F64B { fn eq(&self, o: &F64B) -> bool { self.0.to_bits() == o.0.to_bits() } }
impl Debug for F64B { fn fmt(&self, f: &mut std::fmt::Formatter) -> std::fmt::Result { write!(f, "{:?}#{:016x}", self.0, self.0.to_bits()) } }
/// the only source of f64 values: the per-configuration restriction lives in `gen_f64_typed`
impl Arb for F64B { fn arb(r: &mut Rng, _d: usize) -> F64B { F64B(gen_f64_typed(r)) } }
impl Norm for F64B {}

impl Arb for ByteBuf {
    fn arb(r: &mut Rng, _d: usize) -> ByteBuf {
        ByteBuf::from(match r.below(8) {
            0 => vec![],
            1 => (0u16..256).map(|b| b as u8).collect::<Vec<u8>>(),
            2 => (0u16..256).rev().map(|b| b as u8).collect::<Vec<u8>>(),
            3 => { let n = r.below(40); (0..n).map(|_| r.next() as u8).collect() }
            _ => gen_bytes(r),
        })
    }
}
impl Norm for ByteBuf {}

// ---- containers

impl<T: Arb> Arb for Option<T> { fn arb(r: &mut Rng, d: usize) -> Self { if r.chance(1, 3) { None } else { Some(T::arb(r, d)) } } }
impl<T: Norm> Norm for Option<T> {
    fn norm(&self) -> Self {
        match self { None => None, Some(x) => if x.is_null() { None } else { Some(x.norm()) } }
    }
    fn is_null(&self) -> bool { match self { None => true, Some(x) => x.is_null() } }
}

impl<T: Arb> Arb for Box<T> { fn arb(r: &mut Rng, d: usize) -> Self { Box::new(T::arb(r, d)) } }
impl<T: Norm> Norm for Box<T> {
    fn norm(&self) -> Self { Box::new((**self).norm()) }
    fn is_null(&self) -> bool { (**self).is_null() }
}

impl<T: Arb> Arb for Vec<T> { fn arb(r: &mut Rng, d: usize) -> Self { let n = size(r, d); (0..n).map(|_| T::arb(r, sub(d))).collect() } }
impl<T: Norm> Norm for Vec<T> { fn norm(&self) -> Self { self.iter().map(|x| x.norm()).collect() } }

impl<T: Arb> Arb for VecDeque<T> {
    fn arb(r: &mut Rng, d: usize) -> Self {
        let n = size(r, d);
        let mut q = VecDeque::new();
        // push at both ends so that the ring buffer is not always contiguous
        for _ in 0..n { let x = T::arb(r, sub(d)); if r.chance(1, 2) { q.push_back(x) } else { q.push_front(x) } }
        q
    }
}
impl<T: Norm> Norm for VecDeque<T> { fn norm(&self) -> Self { self.iter().map(|x| x.norm()).collect() } }

impl<T: Arb + Ord> Arb for BTreeSet<T> { fn arb(r: &mut Rng, d: usize) -> Self { let n = size(r, d); (0..n).map(|_| T::arb(r, sub(d))).collect() } }
impl<T: Clone + Ord> Norm for BTreeSet<T> {}

impl<K: Arb + Ord, V: Arb> Arb for BTreeMap<K, V> {
    fn arb(r: &mut Rng, d: usize) -> Self {
        let n = size(r, d);
        let mut m = BTreeMap::new();
        for _ in 0..n { let k = K::arb(r, sub(d)); let v = V::arb(r, sub(d)); m.insert(k, v); }
        m
    }
}
impl<K: Clone + Ord, V: Norm> Norm for BTreeMap<K, V> { fn norm(&self) -> Self { self.iter().map(|(k, v)| (k.clone(), v.norm())).collect() } }

impl<K: Arb + Eq + Hash, V: Arb> Arb for DHash<K, V> {
    fn arb(r: &mut Rng, d: usize) -> Self {
        let n = size(r, d);
        let mut m = DHash::default();
        for _ in 0..n { let k = K::arb(r, sub(d)); let v = V::arb(r, sub(d)); m.insert(k, v); }
        m
    }
}
impl<K: Clone + Eq + Hash, V: Norm> Norm for DHash<K, V> { fn norm(&self) -> Self { self.iter().map(|(k, v)| (k.clone(), v.norm())).collect() } }

impl<T: Arb, const N: usize> Arb for [T; N] { fn arb(r: &mut Rng, d: usize) -> Self { std::array::from_fn(|_| T::arb(r, d)) } }
impl<T: Norm, const N: usize> Norm for [T; N] { fn norm(&self) -> Self { std::array::from_fn(|i| self[i].norm()) } }

macro_rules! arb_tuple { ($($T:ident $i:tt),+) => {
    impl<$($T: Arb),+> Arb for ($($T,)+) { fn arb(r: &mut Rng, d: usize) -> Self { ($($T::arb(r, d),)+) } }
    impl<$($T: Norm),+> Norm for ($($T,)+) { fn norm(&self) -> Self { ($(self.$i.norm(),)+) } }
} }
arb_tuple!(A 0);
arb_tuple!(A 0, B 1);
arb_tuple!(A 0, B 1, C 2);
arb_tuple!(A 0, B 1, C 2, D 3);
arb_tuple!(A 0, B 1, C 2, D 3, E 4);
arb_tuple!(A 0, B 1, C 2, D 3, E 4, F 5);
arb_tuple!(A 0, B 1, C 2, D 3, E 4, F 5, G 6);

// ---- std types with serde impls

impl Arb for NonZeroU8 { fn arb(r: &mut Rng, d: usize) -> Self { NonZeroU8::new(u8::arb(r, d)).unwrap_or(NonZeroU8::new(1).unwrap()) } }
impl Arb for NonZeroI64 { fn arb(r: &mut Rng, d: usize) -> Self { NonZeroI64::new(i64::arb(r, d)).unwrap_or(NonZeroI64::new(-1).unwrap()) } }
impl Arb for Duration {
    fn arb(r: &mut Rng, d: usize) -> Self {
        let nanos = match r.below(5) { 0 => 0, 1 => 999_999_999, 2 => 1, _ => r.below(1_000_000_000) as u32 };
        Duration::new(u64::arb(r, d), nanos)
    }
}
impl Arb for Ipv4Addr { fn arb(r: &mut Rng, d: usize) -> Self { Ipv4Addr::from(u32::arb(r, d)) } }
impl Arb for Ipv6Addr {
    fn arb(r: &mut Rng, d: usize) -> Self {
        match r.below(6) {
            0 => Ipv6Addr::from(Ipv4Addr::arb(r, d).to_ipv6_mapped().octets()),
            1 => Ipv6Addr::from(Ipv4Addr::arb(r, d).to_ipv6_compatible().octets()),
            2 => { let mut s = [0u16; 8]; for x in s.iter_mut() { if r.chance(1, 2) { *x = u16::arb(r, d); } } Ipv6Addr::from(s) }
            _ => Ipv6Addr::from(u128::arb(r, d)),
        }
    }
}
impl Arb for IpAddr { fn arb(r: &mut Rng, d: usize) -> Self { if r.chance(1, 2) { IpAddr::V4(Ipv4Addr::arb(r, d)) } else { IpAddr::V6(Ipv6Addr::arb(r, d)) } } }
impl Arb for SocketAddr { fn arb(r: &mut Rng, d: usize) -> Self { SocketAddr::new(IpAddr::arb(r, d), u16::arb(r, d)) } }
impl<T: Arb> Arb for Range<T> { fn arb(r: &mut Rng, d: usize) -> Self { let a = T::arb(r, d); let b = T::arb(r, d); a..b } }
impl<T: Arb> Arb for RangeInclusive<T> { fn arb(r: &mut Rng, d: usize) -> Self { let a = T::arb(r, d); let b = T::arb(r, d); a..=b } }
impl<T: Arb> Arb for Reverse<T> { fn arb(r: &mut Rng, d: usize) -> Self { Reverse(T::arb(r, d)) } }
impl<T: Arb> Arb for Wrapping<T> { fn arb(r: &mut Rng, d: usize) -> Self { Wrapping(T::arb(r, d)) } }
impl<T: Arb> Arb for Bound<T> {
    fn arb(r: &mut Rng, d: usize) -> Self { match r.below(3) { 0 => Bound::Unbounded, 1 => Bound::Included(T::arb(r, d)), _ => Bound::Excluded(T::arb(r, d)) } }
}
impl<T: Arb, E: Arb> Arb for Result<T, E> { fn arb(r: &mut Rng, d: usize) -> Self { if r.chance(1, 2) { Ok(T::arb(r, d)) } else { Err(E::arb(r, d)) } } }
impl<T> Arb for PhantomData<T> { fn arb(_r: &mut Rng, _d: usize) -> Self { PhantomData } }

norm_id!(NonZeroU8, NonZeroI64, Duration, Ipv4Addr, Ipv6Addr, IpAddr, SocketAddr);
impl<T: Norm> Norm for Range<T> { fn norm(&self) -> Self { self.start.norm()..self.end.norm() } }
impl<T: Norm> Norm for RangeInclusive<T> { fn norm(&self) -> Self { self.start().norm()..=self.end().norm() } }
impl<T: Norm> Norm for Reverse<T> { fn norm(&self) -> Self { Reverse(self.0.norm()) } fn is_null(&self) -> bool { self.0.is_null() } }
impl<T: Norm> Norm for Wrapping<T> { fn norm(&self) -> Self { Wrapping(self.0.norm()) } fn is_null(&self) -> bool { self.0.is_null() } }
impl<T: Norm> Norm for Bound<T> {
    fn norm(&self) -> Self { match self { Bound::Unbounded => Bound::Unbounded, Bound::Included(x) => Bound::Included(x.norm()), Bound::Excluded(x) => Bound::Excluded(x.norm()) } }
}
impl<T: Norm, E: Norm> Norm for Result<T, E> { fn norm(&self) -> Self { match self { Ok(x) => Ok(x.norm()), Err(e) => Err(e.norm()) } } }
/// PhantomData serialises as a unit struct, i.e. null
impl<T> Norm for PhantomData<T> { fn is_null(&self) -> bool { true } }

// ------------------------------------------------------------------ the zoo: structs

macro_rules! zstruct { ($(#[$m:meta])* struct $name:ident { $($(#[$fm:meta])* $f:ident : $t:ty),* $(,)? }) => {
    #[derive(Serialize, Deserialize, PartialEq, Debug, Clone)]
    $(#[$m])*
    struct $name { $($(#[$fm])* $f: $t),* }
    impl Arb for $name { fn arb(r: &mut Rng, d: usize) -> Self { $name { $($f: <$t as Arb>::arb(r, d)),* } } }
    impl Norm for $name { fn norm(&self) -> Self { $name { $($f: self.$f.norm()),* } } }
} }

/// tuple structs with any number of fields except one (`name: type` — the names are only pattern bindings)
macro_rules! ztuple { ($(#[$m:meta])* struct $name:ident ( $($b:ident : $t:ty),* $(,)? )) => {
    #[derive(Serialize, Deserialize, PartialEq, Debug, Clone)]
    $(#[$m])*
    struct $name($($t),*);
    impl Arb for $name { fn arb(r: &mut Rng, d: usize) -> Self { $name($(<$t as Arb>::arb(r, d)),*) } }
    impl Norm for $name { fn norm(&self) -> Self { let $name($($b),*) = self; $name($($b.norm()),*) } }
} }

/// newtype structs serialise as their content, hence `is_null` forwards
macro_rules! znewtype { ($(#[$m:meta])* struct $name:ident ( $t:ty )) => {
    #[derive(Serialize, Deserialize, PartialEq, Debug, Clone)]
    $(#[$m])*
    struct $name($t);
    impl Arb for $name { fn arb(r: &mut Rng, d: usize) -> Self { $name(<$t as Arb>::arb(r, d)) } }
    impl Norm for $name { fn norm(&self) -> Self { $name(self.0.norm()) } fn is_null(&self) -> bool { self.0.is_null() } }
} }

#[derive(Serialize, Deserialize, PartialEq, Debug, Clone)]
struct UnitS;
impl Arb for UnitS { fn arb(_r: &mut Rng, _d: usize) -> Self { UnitS } }
impl Norm for UnitS { fn is_null(&self) -> bool { true } }

znewtype!(struct NtI(i64));
znewtype!(struct NtS(String));
znewtype!(struct NtF(F64B));
znewtype!(struct NtOpt(Option<u8>));
znewtype!(struct NtUnit(()));
znewtype!(struct NtNt(NtOpt));
znewtype!(struct NtVec(Vec<NtI>));
znewtype!(#[derive(Eq, PartialOrd, Ord, Hash)] struct KeyI(i32));
znewtype!(#[derive(Eq, PartialOrd, Ord, Hash)] struct KeyS(String));
znewtype!(#[derive(Eq, PartialOrd, Ord, Hash)] struct KeyBig(u128));
znewtype!(#[derive(Eq, PartialOrd, Ord, Hash)] struct KeyNeg(i128));
znewtype!(#[derive(Eq, PartialOrd, Ord, Hash)] struct KeyC(char));
znewtype!(#[derive(Eq, PartialOrd, Ord, Hash)] struct KeyKey(KeyI));
znewtype!(#[derive(Eq, PartialOrd, Ord, Hash)] struct KeyE(Small));

ztuple!(struct E0());
ztuple!(struct T2(a: i8, b: String));
ztuple!(struct T3(a: u64, b: Option<bool>, c: char));
ztuple!(struct T5(a: E0, b: UnitS, c: (), d: Option<()>, e: Option<Option<u8>>));
// a one-field tuple struct IS a newtype struct
znewtype!(struct T1(i64));

zstruct!(struct Empty {});
zstruct!(struct Scalars {
    b: bool, i8_: i8, i16_: i16, i32_: i32, i64_: i64, i128_: i128, isize_: isize,
    u8_: u8, u16_: u16, u32_: u32, u64_: u64, u128_: u128, usize_: usize,
    f32_: F32B, f64_: F64B, c: char, s: String, u: (),
});
zstruct!(struct Named {
    a: i32,
    #[serde(rename = "b\"\\\n")] b: String,
    #[serde(rename = "é")] c: Option<bool>,
    #[serde(rename = "")] d: Vec<u8>,
    r#type: u8,
    #[serde(rename = "\u{10348}\u{0}")] e: char,
});
zstruct!(struct Inner { p: (i8, u8), q: Option<Small>, e: Empty, s: String });
zstruct!(struct Nested {
    id: u64, inner: Inner, list: Vec<Inner>, opt: Option<Inner>, boxed: Box<Inner>, unit: UnitS, nt: NtI, t0: E0, t1: T1, t3: T3,
    named: Named, deep: Option<Box<Nested2>>,
});
zstruct!(struct Nested2 { a: Vec<Vec<Inner>>, b: BTreeMap<String, Inner>, c: (Inner, Empty), d: Gen<u8, Inner> });
zstruct!(struct Opts {
    a: Option<i32>, b: Option<Option<i32>>, c: Option<()>, d: Option<UnitS>, e: Option<Vec<u8>>, f: Vec<Option<String>>, g: Option<Option<Option<bool>>>,
    h: Option<NtOpt>, i: Option<String>, j: Option<F64B>, k: Option<Empty>, l: Option<E0>, m: Option<NtUnit>, n: Option<Box<Option<u8>>>,
    o: Vec<Option<Option<u8>>>, p: Option<(Option<()>,)>, q: Option<PhantomData<u8>>, s: Option<Small>, t: Option<EnumAll>,
});
zstruct!(struct WithEnums { a: EnumAll, b: Vec<EnumAll>, c: Option<EnumAll>, d: BTreeMap<String, EnumAll>, e: (Small, Names), f: Box<Outer>, g: [Small; 2] });
zstruct!(struct WithBytes { a: ByteBuf, b: Option<ByteBuf>, c: Vec<ByteBuf>, d: BTreeMap<u8, ByteBuf>, e: (ByteBuf, u8) });
zstruct!(struct StdTypes {
    set: BTreeSet<i32>, dq: VecDeque<String>, nz: Option<NonZeroU8>, dur: Duration, ip4: Ipv4Addr, ip: IpAddr, range: Range<i32>, rev: Reverse<u8>,
    wrap: Wrapping<i16>, res: Result<i32, String>, bound: Bound<i64>, sock: SocketAddr, incl: RangeInclusive<u8>, ph: PhantomData<String>,
});

#[derive(Serialize, Deserialize, PartialEq, Debug, Clone)]
struct Gen<T, U> { a: T, b: Vec<U>, c: Option<T>, d: (U, T) }
impl<T: Arb, U: Arb> Arb for Gen<T, U> {
    fn arb(r: &mut Rng, d: usize) -> Self { Gen { a: T::arb(r, d), b: Arb::arb(r, d), c: Arb::arb(r, d), d: Arb::arb(r, d) } }
}
impl<T: Norm, U: Norm> Norm for Gen<T, U> {
    fn norm(&self) -> Self { Gen { a: self.a.norm(), b: self.b.norm(), c: self.c.norm(), d: self.d.norm() } }
}

// ------------------------------------------------------------------ the zoo: enums

/// unit variants only: usable as a map key
#[derive(Serialize, Deserialize, PartialEq, Eq, PartialOrd, Ord, Hash, Debug, Clone, Copy)]
enum Small {
    A,
    B,
    #[serde(rename = "a\"b\\c\n")] Esc,
    #[serde(rename = "é")] Acc,
    #[serde(rename = "c d")] Sp,
}
impl Arb for Small { fn arb(r: &mut Rng, _d: usize) -> Self { *r.pick(&[Small::A, Small::B, Small::Esc, Small::Acc, Small::Sp]) } }
impl Norm for Small {}

/// unit variants with awkward names (incl. the empty name): usable as a map key
#[derive(Serialize, Deserialize, PartialEq, Eq, PartialOrd, Ord, Hash, Debug, Clone, Copy)]
enum KNames {
    #[serde(rename = "")] Empty,
    #[serde(rename = "a\"b\\c\n")] Esc,
    #[serde(rename = "é")] Acc,
    #[serde(rename = "\u{0}")] Nul,
    #[serde(rename = " ")] Space,
    #[serde(rename = "null")] Null,
    #[serde(rename = "0")] Zero,
    #[serde(rename = "\u{10348}\u{7f}\u{1f}")] Astral,
    #[serde(rename = "\\u0041")] FakeEsc,
    Plain,
}
impl Arb for KNames {
    fn arb(r: &mut Rng, _d: usize) -> Self {
        *r.pick(&[KNames::Empty, KNames::Esc, KNames::Acc, KNames::Nul, KNames::Space, KNames::Null, KNames::Zero, KNames::Astral, KNames::FakeEsc, KNames::Plain])
    }
}
impl Norm for KNames {}

/// awkward variant and field names on all four variant kinds
#[derive(Serialize, Deserialize, PartialEq, Debug, Clone)]
enum Names {
    #[serde(rename = "")] Empty,
    #[serde(rename = "a\"b\\c\n")] Esc,
    #[serde(rename = "é")] Acc,
    #[serde(rename = "x\ty")] Nt(i8),
    #[serde(rename = "\u{0}")] NtOpt(Option<Option<u8>>),
    #[serde(rename = "[]")] Tup(u8, String),
    #[serde(rename = "\u{10348}")] St { #[serde(rename = "f\"\n")] f: u8, #[serde(rename = "")] g: Option<()>, #[serde(rename = "é")] h: KNames },
    #[serde(rename = "{}")] St0 {},
    #[serde(rename = "null")] T0(),
    Plain,
}
impl Arb for Names {
    fn arb(r: &mut Rng, d: usize) -> Self {
        match r.below(10) {
            0 => Names::Empty, 1 => Names::Esc, 2 => Names::Acc, 3 => Names::Nt(Arb::arb(r, d)), 4 => Names::NtOpt(Arb::arb(r, d)),
            5 => Names::Tup(Arb::arb(r, d), Arb::arb(r, d)), 6 => Names::St { f: Arb::arb(r, d), g: Arb::arb(r, d), h: Arb::arb(r, d) },
            7 => Names::St0 {}, 8 => Names::T0(), _ => Names::Plain,
        }
    }
}
impl Norm for Names {
    fn norm(&self) -> Self {
        match self {
            Names::NtOpt(x) => Names::NtOpt(x.norm()),
            Names::St { f, g, h } => Names::St { f: *f, g: g.norm(), h: *h },
            other => other.clone(),
        }
    }
}

#[derive(Serialize, Deserialize, PartialEq, Debug, Clone)]
enum EnumAll {
    // unit
    Unit,
    #[serde(rename = "a\"b\\c\n")] Esc,
    #[serde(rename = "é")] Acc,
    // newtype
    NtI(i64), NtU(u64), NtBig(i128), NtUBig(u128), NtF(F64B), NtF32(F32B), NtB(bool), NtC(char), NtS(String),
    NtOpt(Option<u8>), NtOptOpt(Option<Option<bool>>), NtVec(Vec<i16>), NtStruct(Inner), NtUnit(()), NtUnitS(UnitS), NtEnum(Small), NtTup1((u8,)),
    NtMap(BTreeMap<String, i8>), NtBytes(ByteBuf), NtEmpty(Empty), NtE0(E0), NtArr([i8; 2]), NtTup((i8, String)),
    #[serde(rename = "n\"t\\")] RenNt(u8),
    // tuple
    T0(), T2(i8, String), T3(char, Option<()>, Vec<Small>), T4(Option<Option<u8>>, UnitS, (), Empty),
    #[serde(rename = "t\u{1f}\u{7f}")] RenT(bool, bool),
    // struct
    S0 {}, S1 { x: i32 }, S3 { a: String, #[serde(rename = "k\"q")] b: Option<Small>, c: (u8, u8) },
    #[serde(rename = "s\n")] RenS { #[serde(rename = "")] x: Option<Option<i8>>, #[serde(rename = "\\")] y: F64B },
}
impl Arb for EnumAll {
    fn arb(r: &mut Rng, d: usize) -> Self {
        use EnumAll::*;
        match r.below(38) {
            0 => Unit, 1 => Esc, 2 => Acc,
            3 => NtI(Arb::arb(r, d)), 4 => NtU(Arb::arb(r, d)), 5 => NtBig(Arb::arb(r, d)), 6 => NtUBig(Arb::arb(r, d)), 7 => NtF(Arb::arb(r, d)),
            8 => NtF32(Arb::arb(r, d)), 9 => NtB(Arb::arb(r, d)), 10 => NtC(Arb::arb(r, d)), 11 => NtS(Arb::arb(r, d)), 12 => NtOpt(Arb::arb(r, d)),
            13 => NtOptOpt(Arb::arb(r, d)), 14 => NtVec(Arb::arb(r, d)), 15 => NtStruct(Arb::arb(r, d)), 16 => NtUnit(()), 17 => NtUnitS(UnitS),
            18 => NtEnum(Arb::arb(r, d)), 19 => NtTup1(Arb::arb(r, d)), 20 => NtMap(Arb::arb(r, d)), 21 => NtBytes(Arb::arb(r, d)), 22 => NtEmpty(Empty {}),
            23 => NtE0(E0()), 24 => NtArr(Arb::arb(r, d)), 25 => NtTup(Arb::arb(r, d)), 26 => RenNt(Arb::arb(r, d)),
            27 => T0(), 28 => T2(Arb::arb(r, d), Arb::arb(r, d)), 29 => T3(Arb::arb(r, d), Arb::arb(r, d), Arb::arb(r, d)),
            30 => T4(Arb::arb(r, d), UnitS, (), Empty {}), 31 => RenT(Arb::arb(r, d), Arb::arb(r, d)),
            32 => S0 {}, 33 => S1 { x: Arb::arb(r, d) }, 34 | 35 => S3 { a: Arb::arb(r, d), b: Arb::arb(r, d), c: Arb::arb(r, d) },
            _ => RenS { x: Arb::arb(r, d), y: Arb::arb(r, d) },
        }
    }
}
impl Norm for EnumAll {
    fn norm(&self) -> Self {
        use EnumAll::*;
        match self {
            NtOpt(x) => NtOpt(x.norm()),
            NtOptOpt(x) => NtOptOpt(x.norm()),
            NtStruct(x) => NtStruct(x.norm()),
            T3(a, b, c) => T3(*a, b.norm(), c.norm()),
            T4(a, b, c, e) => T4(a.norm(), b.norm(), c.norm(), e.norm()),
            S3 { a, b, c } => S3 { a: a.norm(), b: b.norm(), c: c.norm() },
            RenS { x, y } => RenS { x: x.norm(), y: y.norm() },
            other => other.clone(),
        }
    }
}

/// enums inside enums
#[derive(Serialize, Deserialize, PartialEq, Debug, Clone)]
enum Outer {
    Leaf,
    In(EnumAll),
    Pair(EnumAll, Small),
    Rec { inner: Box<EnumAll>, names: Names, list: Vec<EnumAll> },
    Opt(Option<EnumAll>),
    OptOpt(Option<Option<Small>>),
    Res(Result<Small, EnumAll>),
    Map(BTreeMap<Small, Names>),
    Again(Box<Outer>),
}
impl Arb for Outer {
    fn arb(r: &mut Rng, d: usize) -> Self {
        match r.below(if d == 0 { 8 } else { 9 }) {
            0 => Outer::Leaf, 1 => Outer::In(Arb::arb(r, d)), 2 => Outer::Pair(Arb::arb(r, d), Arb::arb(r, d)),
            3 => Outer::Rec { inner: Arb::arb(r, d), names: Arb::arb(r, d), list: Arb::arb(r, d) }, 4 => Outer::Opt(Arb::arb(r, d)),
            5 => Outer::OptOpt(Arb::arb(r, d)), 6 => Outer::Res(Arb::arb(r, d)), 7 => Outer::Map(Arb::arb(r, d)),
            _ => Outer::Again(Box::new(Outer::arb(r, sub(d)))),
        }
    }
}
impl Norm for Outer {
    fn norm(&self) -> Self {
        match self {
            Outer::Leaf => Outer::Leaf,
            Outer::In(x) => Outer::In(x.norm()),
            Outer::Pair(x, y) => Outer::Pair(x.norm(), y.norm()),
            Outer::Rec { inner, names, list } => Outer::Rec { inner: inner.norm(), names: names.norm(), list: list.norm() },
            Outer::Opt(x) => Outer::Opt(x.norm()),
            Outer::OptOpt(x) => Outer::OptOpt(x.norm()),
            Outer::Res(x) => Outer::Res(x.norm()),
            Outer::Map(x) => Outer::Map(x.norm()),
            Outer::Again(x) => Outer::Again(x.norm()),
        }
    }
}

// ------------------------------------------------------------------ the zoo: recursive types (depth ≤ 20)

#[derive(Serialize, Deserialize, PartialEq, Debug, Clone)]
enum Tree { Leaf(i32), Node(Vec<Tree>) }
fn tree(r: &mut Rng, k: usize) -> Tree {
    if k == 0 { return if r.chance(1, 4) { Tree::Node(vec![]) } else { Tree::Leaf(i32::arb(r, 0)) }; }
    let n = 1 + r.below(3);
    let deep = r.below(n);
    Tree::Node((0..n).map(|i| if i == deep { tree(r, k - 1) } else { let j = r.below(k.min(3)); tree(r, j) }).collect())
}
impl Arb for Tree { fn arb(r: &mut Rng, _d: usize) -> Self { let k = if r.chance(1, 3) { 8 + r.below(13) } else { r.below(5) }; tree(r, k) } }
impl Norm for Tree {}

#[derive(Serialize, Deserialize, PartialEq, Debug, Clone)]
struct Chain { v: i8, tag: Option<Option<Small>>, next: Option<Box<Chain>> }
impl Arb for Chain {
    fn arb(r: &mut Rng, _d: usize) -> Self {
        let k = if r.chance(1, 3) { 8 + r.below(13) } else { r.below(5) };
        let mut c = Chain { v: Arb::arb(r, 0), tag: Arb::arb(r, 0), next: None };
        for _ in 0..k { c = Chain { v: Arb::arb(r, 0), tag: Arb::arb(r, 0), next: Some(Box::new(c)) }; }
        c
    }
}
impl Norm for Chain { fn norm(&self) -> Self { Chain { v: self.v, tag: self.tag.norm(), next: self.next.norm() } } }

// ------------------------------------------------------------------ registry

fn go<T: Arb + Norm + Serialize + DeserializeOwned + PartialEq + Debug>(r: &mut Rng) -> String {
    let x = T::arb(r, 3);
    let sizes = crate::gen::chunk_sizes(r);
    let expect = x.norm();
    if dump_enabled() { eprintln!("rtt-dump {}", guard(|| serde_json::to_string(&x).unwrap_or_else(|e| format!("SERERR {}", e)))); }
    roundtrip(&x, &expect, &sizes)
}

/// debugging aid: with SJH_RTT_DUMP set, the compact JSON text of every instance goes to stderr
fn dump_enabled() -> bool {
    static ON: std::sync::OnceLock<bool> = std::sync::OnceLock::new();
    *ON.get_or_init(|| std::env::var_os("SJH_RTT_DUMP").is_some())
}

type Entry = (&'static str, fn(&mut Rng) -> String);

const REGISTRY: &[Entry] = &[
    // scalars
    ("Bool", go::<bool>), ("I8", go::<i8>), ("I16", go::<i16>), ("I32", go::<i32>), ("I64", go::<i64>), ("I128", go::<i128>), ("Isize", go::<isize>),
    ("U8", go::<u8>), ("U16", go::<u16>), ("U32", go::<u32>), ("U64", go::<u64>), ("U128", go::<u128>), ("Usize", go::<usize>),
    ("F32", go::<F32B>), ("F64", go::<F64B>), ("Char", go::<char>), ("Str", go::<String>), ("Unit", go::<()>),
    ("Scalars", go::<Scalars>),
    // options
    ("OptI32", go::<Option<i32>>), ("OptStr", go::<Option<String>>), ("OptF64", go::<Option<F64B>>), ("OptOpt", go::<Option<Option<i32>>>),
    ("OptOptStr", go::<Option<Option<String>>>), ("OptOptOpt", go::<Option<Option<Option<bool>>>>), ("OptUnit", go::<Option<()>>),
    ("OptUnitStruct", go::<Option<UnitS>>), ("OptOptUnit", go::<Option<Option<()>>>), ("OptVec", go::<Option<Vec<i16>>>), ("VecOpt", go::<Vec<Option<u8>>>),
    ("VecOptOpt", go::<Vec<Option<Option<u8>>>>), ("VecOptUnit", go::<Vec<Option<()>>>), ("OptNewtypeOpt", go::<Option<NtOpt>>),
    ("OptNtNt", go::<Option<NtNt>>), ("OptBoxOpt", go::<Option<Box<Option<i8>>>>), ("OptEmptyStruct", go::<Option<Empty>>), ("OptE0", go::<Option<E0>>),
    ("OptTuple", go::<Option<(Option<()>, Option<Option<u8>>)>>), ("OptPhantom", go::<Option<PhantomData<i32>>>), ("Opts", go::<Opts>),
    // structs
    ("UnitStruct", go::<UnitS>), ("Newtype", go::<NtI>), ("NewtypeStr", go::<NtS>), ("NewtypeF64", go::<NtF>), ("NewtypeOpt", go::<NtOpt>),
    ("NewtypeUnit", go::<NtUnit>), ("NewtypeVec", go::<NtVec>), ("TupleStruct0", go::<E0>), ("TupleStruct1", go::<T1>), ("TupleStruct2", go::<T2>),
    ("TupleStruct3", go::<T3>), ("TupleStruct5", go::<T5>), ("EmptyStruct", go::<Empty>), ("Named", go::<Named>), ("Inner", go::<Inner>),
    ("Nested", go::<Nested>), ("Generic", go::<Gen<i16, String>>), ("GenericOpt", go::<Gen<Option<Option<u8>>, F64B>>),
    ("GenericNested", go::<Gen<Gen<u8, ()>, Vec<Gen<bool, char>>>>),
    // sequences, tuples, arrays
    ("VecI32", go::<Vec<i32>>), ("VecU64", go::<Vec<u64>>), ("VecI128", go::<Vec<i128>>), ("VecStr", go::<Vec<String>>), ("VecVec", go::<Vec<Vec<Vec<i8>>>>),
    ("VecUnit", go::<Vec<()>>), ("VecStruct", go::<Vec<Named>>), ("VecF64", go::<Vec<F64B>>), ("VecF32", go::<Vec<F32B>>), ("VecChar", go::<Vec<char>>),
    ("VecBool", go::<Vec<bool>>), ("VecEmptyStruct", go::<Vec<Empty>>), ("VecTuple", go::<Vec<(u8, String)>>),
    ("Tup1", go::<(i32,)>), ("Tup2", go::<(i8, String)>), ("Tup3", go::<(bool, char, u128)>), ("Tup4", go::<(F32B, F64B, (), Option<u8>)>),
    ("Tup5", go::<(i16, u16, i32, u32, String)>), ("Tup6", go::<(i64, u64, i128, u128, isize, usize)>),
    ("Tup7", go::<(u8, Vec<u8>, Option<Option<u8>>, (u8,), [u8; 1], String, UnitS)>),
    ("TupNested", go::<((i8,), (String, (bool, (char,))), ((), ((),)), Vec<(u8, (u8, u8))>)>),
    ("Arr0", go::<[u8; 0]>), ("ArrI32x3", go::<[i32; 3]>), ("ArrStr2", go::<[String; 2]>), ("ArrArr", go::<[[u8; 2]; 2]>), ("ArrOpt", go::<[Option<Option<i8>>; 4]>),
    ("ArrStruct", go::<[Inner; 2]>), ("Arr32", go::<[u8; 32]>),
    // maps
    ("MapStr", go::<BTreeMap<String, Inner>>), ("MapStrStr", go::<BTreeMap<String, String>>), ("MapI8", go::<BTreeMap<i8, String>>),
    ("MapI16", go::<BTreeMap<i16, i16>>), ("MapI32", go::<BTreeMap<i32, Vec<u8>>>), ("MapI64", go::<BTreeMap<i64, Option<bool>>>),
    ("MapI128", go::<BTreeMap<i128, u128>>), ("MapIsize", go::<BTreeMap<isize, char>>), ("MapU8", go::<BTreeMap<u8, ()>>), ("MapU16", go::<BTreeMap<u16, (u8, u8)>>),
    ("MapU32", go::<BTreeMap<u32, Small>>), ("MapU64", go::<BTreeMap<u64, F64B>>), ("MapU128", go::<BTreeMap<u128, i128>>), ("MapUsize", go::<BTreeMap<usize, F32B>>),
    ("MapBool", go::<BTreeMap<bool, Small>>), ("MapChar", go::<BTreeMap<char, char>>), ("MapNewtypeInt", go::<BTreeMap<KeyI, EnumAll>>),
    ("MapNewtypeStr", go::<BTreeMap<KeyS, (i8, String)>>), ("MapNewtypeU128", go::<BTreeMap<KeyBig, bool>>), ("MapNewtypeI128", go::<BTreeMap<KeyNeg, u8>>),
    ("MapNewtypeChar", go::<BTreeMap<KeyC, u8>>), ("MapNewtypeNewtype", go::<BTreeMap<KeyKey, String>>), ("MapNewtypeEnum", go::<BTreeMap<KeyE, i8>>),
    ("MapEnumKey", go::<BTreeMap<Small, Vec<Small>>>), ("MapNamesKey", go::<BTreeMap<KNames, Option<KNames>>>),
    ("MapNested", go::<BTreeMap<String, BTreeMap<i8, BTreeMap<bool, Vec<Option<u8>>>>>>), ("MapOptOpt", go::<BTreeMap<String, Option<Option<i8>>>>),
    ("MapUnitVal", go::<BTreeMap<String, Option<()>>>), ("MapStructVal", go::<BTreeMap<u8, Named>>),
    ("HashStr", go::<DHash<String, Vec<i32>>>), ("HashU32", go::<DHash<u32, String>>), ("HashEnum", go::<DHash<Small, EnumAll>>),
    // enums
    ("EnumSmall", go::<Small>), ("EnumKNames", go::<KNames>), ("EnumNames", go::<Names>), ("EnumAll", go::<EnumAll>), ("EnumOuter", go::<Outer>),
    ("VecEnum", go::<Vec<EnumAll>>), ("OptEnum", go::<Option<EnumAll>>), ("OptOptEnum", go::<Option<Option<Small>>>), ("MapEnumVal", go::<BTreeMap<String, Outer>>),
    ("StructEnum", go::<WithEnums>), ("TupEnum", go::<(Small, EnumAll, Names)>), ("BoxEnum", go::<Box<Outer>>),
    // bytes
    ("Bytes", go::<ByteBuf>), ("VecBytes", go::<Vec<ByteBuf>>), ("OptBytes", go::<Option<ByteBuf>>), ("StructBytes", go::<WithBytes>),
    // boxes and recursive types
    ("BoxI32", go::<Box<i32>>), ("BoxStruct", go::<Box<Nested>>), ("BoxVecBox", go::<Box<Vec<Box<String>>>>), ("Tree", go::<Tree>), ("Chain", go::<Chain>),
    // std types with serde impls
    ("BTreeSetI32", go::<BTreeSet<i32>>), ("BTreeSetStr", go::<BTreeSet<String>>), ("VecDequeStr", go::<VecDeque<String>>), ("OptNonZeroU8", go::<Option<NonZeroU8>>),
    ("NonZeroI64", go::<NonZeroI64>), ("Duration", go::<Duration>), ("Ipv4", go::<Ipv4Addr>), ("Ipv6", go::<Ipv6Addr>), ("IpAddr", go::<IpAddr>), ("SocketAddr", go::<SocketAddr>),
    ("RangeI32", go::<Range<i32>>), ("RangeInclU8", go::<RangeInclusive<u8>>), ("ReverseU8", go::<Reverse<u8>>), ("WrappingI16", go::<Wrapping<i16>>),
    ("ResultI32Str", go::<Result<i32, String>>), ("ResultNested", go::<Result<Option<Option<u8>>, Result<(), EnumAll>>>), ("BoundI64", go::<Bound<i64>>),
    ("Phantom", go::<PhantomData<u64>>), ("MapIpKey", go::<BTreeMap<Ipv4Addr, IpAddr>>), ("StdTypes", go::<StdTypes>),
];

fn emit(sink: &mut Sink, cfg: &str, name: &str, f: fn(&mut Rng) -> String, seed: u64, tag: Option<&str>) {
    let mut ir = Rng::new(seed);
    let o = f(&mut ir);
    let ok = o == "=|=|=|=|=|=";
    let t = match tag { Some(t) => t.to_string(), None => format!("rtt:{}:{}", name, if ok { "same" } else { "DIFF" }) };
    sink.case("rtt", &[cfg, name, &seed.to_string()], &o, &t, true);
}

pub fn run(sink: &mut Sink, thorough: bool, r: &mut Rng, cfg: &str) {
    let n = if thorough { 1500 } else { 40 };
    for (name, f) in REGISTRY {
        for _ in 0..n {
            let seed = r.next();
            emit(sink, cfg, name, *f, seed, None);
        }
    }
}

pub fn replay(sink: &mut Sink, cfg: &str, ty: &str, seed: u64) {
    match REGISTRY.iter().find(|(name, _)| *name == ty) {
        Some((name, f)) => emit(sink, cfg, name, *f, seed, Some("replay")),
        None => eprintln!("cannot replay rtt: unknown type {:?}", ty),
    }
}
