//! C03: serialisation output (compact / pretty / per-write buffers) of arbitrary serializer programs,
//! and `Display` / `to_string` / `to_string_pretty` of `Value` (also into a failing `fmt::Write`), `Display` of `Number`.
use crate::common::*;
use crate::prog::*;
use serde::Serialize;
use serde_json::{Map, Number, Value};
use std::panic::{catch_unwind, AssertUnwindSafe};

pub const INDENTS: [&[u8]; 5] = [b"", b" ", b"\t", b"  ", b"ab"];

fn class(e: &serde_json::Error) -> String {
    let m = e.to_string();
    if m.starts_with("key must be a string") { "KeyMustBeAString".into() }
    else if m.starts_with("float key must be finite") { "FloatKeyMustBeFinite".into() }
    else { format!("Other:{}", m.replace(' ', "_")) }
}
fn res(r: Result<Vec<u8>, serde_json::Error>) -> String {
    match r { Ok(b) => format!("OK:{}", hexf(&b)), Err(e) => format!("ERR:{}", class(&e)) }
}
fn guard<F: FnOnce() -> String>(f: F) -> String { catch_unwind(AssertUnwindSafe(f)).unwrap_or_else(|_| "PANIC".into()) }

/// result class of an observation, for tags
fn oclass(o: &str) -> &str {
    if o.starts_with("OK:") { "ok" }
    else if o.starts_with("ERR:Other:") { "other" }
    else if let Some(c) = o.strip_prefix("ERR:") { c }
    else if o.starts_with("DIFF:") { "diff" }
    else { "panic" }
}

// ------------------------------------------------------------------ observations

fn obs_serc(p: &Prog) -> String {
    let a = guard(|| res(serde_json::to_vec(p)));
    let b = guard(|| res(serde_json::to_string(p).map(String::into_bytes)));
    let c = guard(|| { let mut out = Vec::new(); let r = serde_json::to_writer(&mut out, p); res(r.map(|_| out)) });
    if a == b && a == c { a } else { format!("DIFF:tovec={}/tostring={}/towriter={}", a, b, c) }
}

fn obs_serp(indent: &[u8], p: &Prog) -> String {
    let a = guard(|| {
        let mut out = Vec::new();
        let r = {
            let mut s = serde_json::Serializer::with_formatter(&mut out, serde_json::ser::PrettyFormatter::with_indent(indent));
            p.serialize(&mut s)
        };
        res(r.map(|_| out))
    });
    if indent == b"  " {
        let b = guard(|| res(serde_json::to_vec_pretty(p)));
        let c = guard(|| res(serde_json::to_string_pretty(p).map(String::into_bytes)));
        if a != b || a != c { return format!("DIFF:tovec={}/tostring={}/towriter={}", b, c, a); }
    }
    a
}

/// records every buffer handed to the writer, one entry per call (empty ones included)
struct Rec<'a>(&'a mut Vec<Vec<u8>>);
impl<'a> std::io::Write for Rec<'a> {
    fn write(&mut self, buf: &[u8]) -> std::io::Result<usize> { self.0.push(buf.to_vec()); Ok(buf.len()) }
    fn write_all(&mut self, buf: &[u8]) -> std::io::Result<()> { self.0.push(buf.to_vec()); Ok(()) }
    fn flush(&mut self) -> std::io::Result<()> { Ok(()) }
}

/// `fmt`: None = compact, Some(indent) = pretty
fn obs_serbufs(fmt: Option<&[u8]>, p: &Prog) -> String {
    guard(|| {
        let mut bufs: Vec<Vec<u8>> = Vec::new();
        let r = match fmt {
            None => { let mut s = serde_json::Serializer::new(Rec(&mut bufs)); p.serialize(&mut s) }
            Some(ind) => {
                let mut s = serde_json::Serializer::with_formatter(Rec(&mut bufs), serde_json::ser::PrettyFormatter::with_indent(ind));
                p.serialize(&mut s)
            }
        };
        match r {
            Ok(()) => if bufs.is_empty() { "OK:".to_string() } else { format!("OK:{}", bufs.iter().map(|b| hexf(b)).collect::<Vec<_>>().join(",")) },
            Err(e) => format!("ERR:{}", class(&e)),
        }
    })
}

fn fmt_tok(fmt: Option<&[u8]>) -> String { match fmt { None => "c".into(), Some(i) => format!("p{}", hexf(i)) } }

#[allow(unused_variables)]
fn float_table(v: &Value) -> String {
    #[cfg(feature = "ap")]
    { "-".to_string() }
    #[cfg(not(feature = "ap"))]
    {
        fn go(v: &Value, out: &mut Vec<String>) {
            match v {
                Value::Number(n) if n.is_f64() => {
                    let f = n.as_f64().unwrap();
                    let t = guard(|| serde_json::to_string(&f).unwrap_or_else(|_| "ERR".into()));
                    out.push(format!("{:016x}:{}", f.to_bits(), hex(t.as_bytes())));
                }
                Value::Array(xs) => for x in xs { go(x, out); },
                Value::Object(m) => for (_, x) in m { go(x, out); },
                _ => {}
            }
        }
        let mut out = vec![];
        go(v, &mut out);
        if out.is_empty() { "-".to_string() } else { out.join(",") }
    }
}

fn obs_disp(v: &Value) -> String {
    let a = guard(|| hexf(format!("{}", v).as_bytes()));
    let b = guard(|| hexf(format!("{:#}", v).as_bytes()));
    let c = guard(|| hexf(serde_json::to_string(v).unwrap().as_bytes()));
    let d = guard(|| hexf(serde_json::to_string_pretty(v).unwrap().as_bytes()));
    if [&a, &b, &c, &d].iter().any(|x| *x == "PANIC") { return "PANIC".into(); }
    format!("{}|{}|{}|{}", a, b, c, d)
}

/// a `fmt::Write` that records every `write_str` fragment and accepts whole fragments while their total length
/// stays within `budget` bytes (`None`: never fails)
struct FragSink { frags: Vec<Vec<u8>>, used: usize, budget: Option<usize> }
impl std::fmt::Write for FragSink {
    fn write_str(&mut self, s: &str) -> std::fmt::Result {
        if let Some(m) = self.budget { if self.used + s.len() > m { return Err(std::fmt::Error); } }
        self.used += s.len();
        self.frags.push(s.as_bytes().to_vec());
        Ok(())
    }
}
fn frag_list(frags: &[Vec<u8>]) -> String {
    format!("{}|{}", frags.len(), if frags.is_empty() { "-".to_string() } else { frags.iter().map(|b| hexf(b)).collect::<Vec<_>>().join(",") })
}
fn budget_tok(b: Option<usize>) -> String { match b { None => "-".into(), Some(m) => m.to_string() } }

/// `write!(sink, "{}" / "{:#}", v)` into the budget sink: result, accepted fragments, and the `to_string(_pretty)` text
fn obs_dispf(v: &Value, alt: bool, budget: Option<usize>) -> String {
    use std::fmt::Write;
    guard(|| {
        let mut sink = FragSink { frags: vec![], used: 0, budget };
        let r = if alt { write!(sink, "{:#}", v) } else { write!(sink, "{}", v) };
        let text = if alt { serde_json::to_string_pretty(v).unwrap() } else { serde_json::to_string(v).unwrap() };
        format!("{}|{}|{}", if r.is_ok() { "OK" } else { "ERR" }, frag_list(&sink.frags), hexf(text.as_bytes()))
    })
}

/// `write!(sink, "{}", n)` of a `Number`, and `to_string(&n)`
fn obs_dispn(n: &Number) -> String {
    use std::fmt::Write;
    guard(|| {
        let mut sink = FragSink { frags: vec![], used: 0, budget: None };
        let r = write!(sink, "{}", n);
        let text = serde_json::to_string(n).unwrap();
        format!("{}|{}|{}", if r.is_ok() { "OK" } else { "ERR" }, frag_list(&sink.frags), hexf(text.as_bytes()))
    })
}

// ------------------------------------------------------------------ tags / non-triviality

fn needs_escape(s: &str) -> bool { s.bytes().any(|b| b < 0x20 || b == b'"' || b == b'\\') }

/// at least one container node (seq / tuple / map / struct / variant with payload / bytes) or a string that needs an escape
fn nontrivial(p: &Prog) -> bool {
    match p {
        Prog::Seq(..) | Prog::Tuple(_) | Prog::TupleStruct(_) | Prog::TupleVariant(..) | Prog::Map(..) | Prog::Struct(_)
        | Prog::StructVariant(..) | Prog::NewtypeVariant(..) | Prog::Bytes(_) => true,
        Prog::Str(s) | Prog::CollectStr(s) => needs_escape(s),
        Prog::Char(c) => needs_escape(c.encode_utf8(&mut [0u8; 4])),
        Prog::UnitVariant(v) => needs_escape(v),
        Prog::Some(q) | Prog::NewtypeStruct(q) => nontrivial(q),
        _ => false,
    }
}

/// coarse constructor class for serp / serbufs tags
fn group(p: &Prog) -> &'static str {
    match p {
        Prog::Bool(_) | Prog::Int(_) | Prog::F32(_) | Prog::F64(_) | Prog::None | Prog::Unit | Prog::UnitStruct => "scalar",
        Prog::Char(_) | Prog::Str(_) | Prog::CollectStr(_) | Prog::UnitVariant(_) => "str",
        Prog::Bytes(_) => "bytes",
        Prog::Some(_) | Prog::NewtypeStruct(_) => "wrap",
        Prog::Seq(..) => "seq",
        Prog::Tuple(_) | Prog::TupleStruct(_) => "tuple",
        Prog::Map(..) => "map",
        Prog::Struct(_) => "struct",
        Prog::NewtypeVariant(..) => "nvariant",
        Prog::TupleVariant(..) => "tvariant",
        Prog::StructVariant(..) => "svariant",
    }
}

// ------------------------------------------------------------------ emission

struct Case<'a> { p: &'a Prog, e: String, nt: bool }
impl<'a> Case<'a> {
    fn new(p: &'a Prog) -> Case<'a> { Case { p, e: enc_prog(p), nt: nontrivial(p) } }
}

fn emit_serc(sink: &mut Sink, c: &Case) {
    let o = obs_serc(c.p);
    sink.case("serc", &[&c.e], &o, &format!("serc:{}:{}", c.p.ctor(), oclass(&o)), c.nt);
}
fn emit_serp(sink: &mut Sink, c: &Case, indent: &[u8]) {
    let o = obs_serp(indent, c.p);
    sink.case("serp", &[&hexf(indent), &c.e], &o, &format!("serp:{}:{}", group(c.p), oclass(&o)), c.nt);
}
fn emit_serbufs(sink: &mut Sink, c: &Case, fmt: Option<&[u8]>) {
    let o = obs_serbufs(fmt, c.p);
    sink.case("serbufs", &[&fmt_tok(fmt), &c.e], &o, &format!("serbufs:{}:{}", group(c.p), oclass(&o)), c.nt);
}
fn emit_serbufx(sink: &mut Sink, c: &Case, fmt: Option<&[u8]>) {
    let o = obs_serbufs(fmt, c.p);
    let f = if fmt.is_none() { "c" } else { "p" };
    sink.case("serbufx", &[&fmt_tok(fmt), &c.e], &o, &format!("serbufx:{}:{}", f, oclass(&o)), c.nt);
}
fn emit_disp(sink: &mut Sink, v: &Value, src: &str) {
    let o = obs_disp(v);
    let kind = match v { Value::Null => "null", Value::Bool(_) => "bool", Value::Number(_) => "number", Value::String(_) => "string",
                         Value::Array(_) => "array", Value::Object(_) => "object" };
    let nt = matches!(v, Value::Array(_) | Value::Object(_));
    let t = if o == "PANIC" { format!("disp:{}:{}:panic", src, kind) } else { format!("disp:{}:{}", src, kind) };
    sink.case("disp", &[&enc(v), &float_table(v)], &o, &t, nt);
}

fn vkind(v: &Value) -> &'static str {
    match v { Value::Null => "null", Value::Bool(_) => "bool", Value::Number(_) => "number", Value::String(_) => "string",
              Value::Array(_) => "array", Value::Object(_) => "object" }
}
fn emit_dispf(sink: &mut Sink, v: &Value, alt: bool, budget: Option<usize>, _src: &str) {
    let o = obs_dispf(v, alt, budget);
    let res = if o.starts_with("OK|") { "ok" } else if o.starts_with("ERR|") { "fmterror" } else { "panic" };
    let b = match budget { None => "unbounded", Some(0) => "zero", Some(_) => "bounded" };
    let nt = matches!(v, Value::Array(_) | Value::Object(_));
    sink.case("dispf", &[&enc(v), &float_table(v), if alt { "1" } else { "0" }, &budget_tok(budget)], &o,
              &format!("dispf:{}:{}:{}:{}", vkind(v), if alt { "alt" } else { "plain" }, b, res), nt);
}
fn emit_dispn(sink: &mut Sink, n: &Number, src: &str) {
    let o = obs_dispn(n);
    let v = Value::Number(n.clone());
    let k = if n.is_f64() { "float" } else if n.is_u64() { "posint" } else if n.is_i64() { "negint" } else { "big" };
    sink.case("dispn", &[&enc(&v), &float_table(&v)], &o, &format!("dispn:{}:{}", src, k), false);
}

pub fn replay(sink: &mut Sink, toks: &[&str]) {
    if toks.len() < 2 { return; }
    match toks[0] {
        "serc" => { let p = dec_prog(toks[1]); let o = obs_serc(&p); sink.case("serc", &[&enc_prog(&p)], &o, "replay", true) }
        "serp" if toks.len() >= 3 => {
            let ind = unhex(toks[1]); let p = dec_prog(toks[2]);
            let o = obs_serp(&ind, &p);
            sink.case("serp", &[&hexf(&ind), &enc_prog(&p)], &o, "replay", true)
        }
        "serbufs" | "serbufx" if toks.len() >= 3 => {
            let ind: Option<Vec<u8>> = if toks[1] == "c" { None } else { Some(unhex(&toks[1][1..])) };
            let p = dec_prog(toks[2]);
            let o = obs_serbufs(ind.as_deref(), &p);
            sink.case(toks[0], &[&fmt_tok(ind.as_deref()), &enc_prog(&p)], &o, "replay", true)
        }
        "disp" => { let v = dec_value(toks[1]); let o = obs_disp(&v); sink.case("disp", &[&enc(&v), &float_table(&v)], &o, "replay", true) }
        "dispf" if toks.len() >= 5 => {
            let v = dec_value(toks[1]); let alt = toks[3] == "1";
            let budget: Option<usize> = if toks[4] == "-" { None } else { toks[4].parse().ok() };
            let o = obs_dispf(&v, alt, budget);
            sink.case("dispf", &[&enc(&v), &float_table(&v), if alt { "1" } else { "0" }, &budget_tok(budget)], &o, "replay", true)
        }
        "dispn" => {
            let v = dec_value(toks[1]);
            if let Value::Number(n) = &v { let o = obs_dispn(n); sink.case("dispn", &[&enc(&v), &float_table(&v)], &o, "replay", true) }
            else { eprintln!("dispn: not a number {:?}", toks) }
        }
        _ => eprintln!("cannot replay {:?}", toks),
    }
}

// ------------------------------------------------------------------ fixed corpus

fn s(t: &str) -> Prog { Prog::Str(t.to_string()) }
fn i(n: i32) -> Prog { Prog::Int(IntV::I32(n)) }
fn bx(p: Prog) -> Box<Prog> { Box::new(p) }
fn seq(xs: Vec<Prog>) -> Prog { Prog::Seq(None, xs) }
fn map(es: Vec<(Prog, Prog)>) -> Prog { Prog::Map(None, es) }

fn corpus() -> Vec<Prog> {
    let mut c: Vec<Prog> = vec![];
    // every constructor alone at top level
    c.push(Prog::Bool(false)); c.push(Prog::Bool(true));
    for v in [IntV::I8(0), IntV::I8(i8::MIN), IntV::I8(i8::MAX), IntV::I16(i16::MIN), IntV::I16(i16::MAX), IntV::I32(i32::MIN), IntV::I32(i32::MAX),
              IntV::I64(-1), IntV::I64(i64::MIN), IntV::I64(i64::MAX), IntV::I128(0), IntV::I128(i128::MIN), IntV::I128(i128::MAX),
              IntV::U8(0), IntV::U8(u8::MAX), IntV::U16(u16::MAX), IntV::U32(u32::MAX), IntV::U64(0), IntV::U64(u64::MAX), IntV::U128(0), IntV::U128(u128::MAX),
              IntV::U128(u64::MAX as u128 + 1), IntV::I128(i64::MIN as i128 - 1)] {
        c.push(Prog::Int(v));
    }
    for x in [0.0f32, -0.0, 1.5, 0.1, 1e21, 1e-7, 16777217.0, f32::MAX, f32::MIN, f32::MIN_POSITIVE, f32::from_bits(1)] { c.push(Prog::F32(x)); }
    for x in nonfinite_f32() { c.push(Prog::F32(x)); }
    for x in [0.0f64, -0.0, 1.5, 0.1, 1.0, 1e21, 1e20, 1e-7, 1e300, 1e-300, 123456789.125, f64::MAX, f64::MIN, f64::MIN_POSITIVE, f64::MIN_POSITIVE / 2.0, f64::from_bits(1)] {
        c.push(Prog::F64(x));
    }
    for x in nonfinite_f64() { c.push(Prog::F64(x)); }
    for ch in CHARS { c.push(Prog::Char(*ch)); }
    c.push(s("")); c.push(s("hello")); c.push(s("Hello, World"));
    for t in FIXED_STRS { c.push(s(t)); }
    // every code point 0..=0x7f alone, as a char and inside a string (each of the 32 control characters has its own escape
    // spelling: two hex digits or a short escape), and all of them in one string
    for u in 0u32..=0x7f {
        let ch = char::from_u32(u).unwrap();
        c.push(Prog::Char(ch));
        c.push(s(&format!("a{}b", ch)));
    }
    c.push(s(&(0u32..=0x7f).map(|u| char::from_u32(u).unwrap()).collect::<String>()));
    c.push(map(vec![(s(&(0u32..0x20).map(|u| char::from_u32(u).unwrap()).collect::<String>()), i(1))]));
    c.push(s(&"x".repeat(300)));
    c.push(s(&format!("{}\n{}\"", "y".repeat(150), "z".repeat(150))));
    c.push(Prog::Bytes(vec![])); c.push(Prog::Bytes(vec![0, 255, 7])); c.push(Prog::Bytes(vec![42]));
    c.push(Prog::None); c.push(Prog::Some(bx(i(1)))); c.push(Prog::Some(bx(Prog::None))); c.push(Prog::Some(bx(Prog::Some(bx(s("x"))))));
    c.push(Prog::Unit); c.push(Prog::UnitStruct);
    for n in NAMES { c.push(Prog::UnitVariant(n)); }
    c.push(Prog::NewtypeStruct(bx(i(1)))); c.push(Prog::NewtypeStruct(bx(seq(vec![]))));
    for n in NAMES { c.push(Prog::NewtypeVariant(n, bx(Prog::Unit))); }
    c.push(Prog::NewtypeVariant("V", bx(i(1)))); c.push(Prog::NewtypeVariant("V", bx(seq(vec![])))); c.push(Prog::NewtypeVariant("V", bx(map(vec![]))));
    c.push(Prog::NewtypeVariant("V", bx(Prog::NewtypeVariant("a", bx(seq(vec![i(1)]))))));
    for t in ["", "plain", "a\"b", "\n", "\u{0}\\", "é€\u{10348}"] { c.push(Prog::CollectStr(t.to_string())); }
    // empty / small sequences and maps, with both hint forms
    c.push(Prog::Seq(None, vec![])); c.push(Prog::Seq(Some(0), vec![]));
    c.push(Prog::Seq(None, vec![i(1)])); c.push(Prog::Seq(Some(1), vec![i(1)])); c.push(Prog::Seq(Some(2), vec![i(1), i(2)])); c.push(Prog::Seq(None, vec![i(1), i(2), i(3)]));
    c.push(Prog::Map(None, vec![])); c.push(Prog::Map(Some(0), vec![]));
    c.push(Prog::Map(None, vec![(s("a"), i(1))])); c.push(Prog::Map(Some(1), vec![(s("a"), i(1))]));
    c.push(Prog::Map(Some(2), vec![(s("a"), i(1)), (s("b"), i(2))])); c.push(Prog::Map(None, vec![(s("a"), i(1)), (s("a"), i(2))]));
    c.push(Prog::Tuple(vec![])); c.push(Prog::TupleStruct(vec![])); c.push(Prog::Struct(vec![]));
    c.push(Prog::Tuple(vec![i(1), s("x")])); c.push(Prog::TupleStruct(vec![i(1)])); c.push(Prog::TupleStruct(vec![i(1), i(2)]));
    c.push(Prog::Struct(vec![("a", i(1))])); c.push(Prog::Struct(vec![("a", i(1)), ("b", i(2))])); c.push(Prog::Struct(vec![("a", i(1)), ("a", i(2))]));
    c.push(Prog::Struct(NAMES.iter().map(|n| (*n, Prog::Unit)).collect()));
    // empty and non-empty tuple / struct variants
    c.push(Prog::TupleVariant("V", vec![])); c.push(Prog::StructVariant("V", vec![]));
    c.push(Prog::TupleVariant("V", vec![i(1)])); c.push(Prog::TupleVariant("V", vec![i(1), i(2)]));
    c.push(Prog::StructVariant("V", vec![("a", i(1))])); c.push(Prog::StructVariant("V", vec![("a", i(1)), ("b", seq(vec![]))]));
    for n in NAMES { c.push(Prog::TupleVariant(n, vec![Prog::Unit])); c.push(Prog::StructVariant(n, vec![(*n, Prog::Unit)])); }
    // … nested inside a map inside a map (pretty bookkeeping: has_value / current_indent)
    for inner in [Prog::TupleVariant("V", vec![]), Prog::StructVariant("V", vec![]), Prog::TupleVariant("V", vec![i(1)]), Prog::StructVariant("V", vec![("a", i(1))]),
                  Prog::NewtypeVariant("V", bx(seq(vec![]))), Prog::NewtypeVariant("V", bx(i(1))), seq(vec![]), map(vec![]), Prog::Tuple(vec![]), Prog::Struct(vec![]), Prog::Bytes(vec![])] {
        c.push(map(vec![(s("a"), inner.clone())]));
        c.push(map(vec![(s("a"), map(vec![(s("b"), inner.clone())]))]));
        c.push(map(vec![(s("a"), map(vec![(s("b"), inner.clone()), (s("c"), i(1))])), (s("d"), i(2))]));
        c.push(seq(vec![inner.clone(), i(1)]));
        c.push(seq(vec![seq(vec![inner.clone()]), inner.clone()]));
        c.push(Prog::Struct(vec![("a", inner.clone()), ("b", i(1))]));
    }
    c.push(seq(vec![seq(vec![]), seq(vec![seq(vec![])]), map(vec![]), i(1)]));
    c.push(map(vec![(s("a"), seq(vec![])), (s("b"), map(vec![])), (s("c"), Prog::Tuple(vec![])), (s("d"), Prog::Struct(vec![])),
                    (s("e"), Prog::TupleVariant("V", vec![])), (s("f"), Prog::StructVariant("V", vec![])), (s("g"), i(1))]));
    c.push(Prog::NewtypeVariant("V", bx(seq(vec![Prog::StructVariant("a", vec![("key", i(1))])]))));
    c.push(seq(vec![Prog::Some(bx(seq(vec![]))), Prog::None, Prog::NewtypeStruct(bx(map(vec![(s("a"), Prog::Unit)])))]));
    c.push(seq((0..12).map(i).collect()));
    c.push(map((0..11).map(|k| (i(k), seq(vec![]))).collect()));
    // one map per key kind: valid ones
    let valid: Vec<Prog> = vec![
        s(""), s("a"), s("a\"b\n"), Prog::Char('c'), Prog::Char('"'), Prog::Char('\u{0}'), Prog::UnitVariant("V"), Prog::UnitVariant("a\"b"),
        Prog::CollectStr("k".into()), Prog::CollectStr("line\nbreak".into()), Prog::Bool(true), Prog::Bool(false),
        Prog::Int(IntV::I8(-8)), Prog::Int(IntV::I16(-16)), Prog::Int(IntV::I32(-32)), Prog::Int(IntV::I64(i64::MIN)), Prog::Int(IntV::I128(i128::MIN)), Prog::Int(IntV::I128(i128::MAX)),
        Prog::Int(IntV::U8(8)), Prog::Int(IntV::U16(16)), Prog::Int(IntV::U32(32)), Prog::Int(IntV::U64(u64::MAX)), Prog::Int(IntV::U128(u128::MAX)),
        Prog::F32(1.5), Prog::F32(0.1), Prog::F32(-0.0), Prog::F64(1.5), Prog::F64(-0.0), Prog::F64(1e300), Prog::F64(f64::from_bits(1)),
        Prog::Some(bx(s("k"))), Prog::Some(bx(i(1))), Prog::NewtypeStruct(bx(s("k"))), Prog::NewtypeStruct(bx(Prog::Bool(true))),
        Prog::Some(bx(Prog::NewtypeStruct(bx(Prog::Some(bx(s("k"))))))), Prog::Some(bx(Prog::NewtypeStruct(bx(Prog::Some(bx(Prog::F64(2.5))))))),
    ];
    let invalid: Vec<Prog> = vec![
        seq(vec![]), seq(vec![i(1)]), map(vec![]), map(vec![(s("a"), i(1))]), Prog::Tuple(vec![]), Prog::Tuple(vec![i(1)]), Prog::TupleStruct(vec![]),
        Prog::Unit, Prog::UnitStruct, Prog::None, Prog::Bytes(vec![]), Prog::Bytes(vec![97]), Prog::NewtypeVariant("V", bx(s("k"))),
        Prog::Struct(vec![]), Prog::Struct(vec![("a", i(1))]), Prog::TupleVariant("V", vec![]), Prog::StructVariant("V", vec![]),
        Prog::F32(f32::NAN), Prog::F32(f32::INFINITY), Prog::F32(f32::NEG_INFINITY), Prog::F64(f64::NAN), Prog::F64(f64::from_bits(0xfff8_0000_0000_0000)),
        Prog::F64(f64::INFINITY), Prog::F64(f64::NEG_INFINITY), Prog::Some(bx(Prog::None)), Prog::NewtypeStruct(bx(Prog::Unit)),
        Prog::Some(bx(Prog::NewtypeStruct(bx(Prog::F64(f64::NAN))))), Prog::Some(bx(seq(vec![]))),
    ];
    for k in valid.iter().chain(invalid.iter()) {
        c.push(map(vec![(k.clone(), i(1))]));
        c.push(Prog::Map(Some(2), vec![(s("z"), seq(vec![])), (k.clone(), map(vec![]))]));
    }
    // a valid key after an invalid one; two different invalid ones in both orders; invalid key nested deeper
    c.push(map(vec![(Prog::Unit, i(1)), (s("a"), i(2))]));
    c.push(map(vec![(s("a"), i(1)), (Prog::Unit, i(2))]));
    c.push(map(vec![(Prog::F64(f64::NAN), i(1)), (Prog::Unit, i(2))]));
    c.push(map(vec![(Prog::Unit, i(1)), (Prog::F64(f64::NAN), i(2))]));
    c.push(map(vec![(Prog::F32(f32::INFINITY), i(1)), (seq(vec![]), i(2))]));
    c.push(seq(vec![i(1), map(vec![(s("a"), map(vec![(Prog::None, i(1))]))]), i(2)]));
    c.push(Prog::StructVariant("V", vec![("a", map(vec![(Prog::F64(f64::INFINITY), i(1))]))]));
    // non-finite floats as values
    c.push(seq(vec![Prog::F64(f64::NAN), Prog::F32(f32::INFINITY), Prog::F64(f64::NEG_INFINITY)]));
    c.push(map(vec![(s("a"), Prog::F64(f64::NAN))]));
    c
}

// ------------------------------------------------------------------ disp values

fn gen_dvalue(r: &mut Rng, depth: usize) -> Value {
    let k = if depth == 0 { r.below(6) } else { r.below(10) };
    match k {
        0 => if r.chance(1, 2) { Value::Null } else { Value::Bool(r.chance(1, 2)) },
        1 => Value::Number(gen_number(r)),
        2 | 3 => { let f = gen_f64(r); Number::from_f64(f).map(Value::Number).unwrap_or(Value::Null) }
        4 | 5 => Value::String(gen_str(r)),
        6 | 7 => { let n = gen_size(r); Value::Array((0..n).map(|_| gen_dvalue(r, depth - 1)).collect()) }
        _ => {
            let n = gen_size(r);
            let mut m = Map::new();
            for _ in 0..n {
                let k = match r.below(3) { 0 => gen_name(r).to_string(), 1 => gen_string(r), _ => gen_str(r) };
                let v = gen_dvalue(r, depth - 1);
                m.insert(k, v);
            }
            Value::Object(m)
        }
    }
}

fn disp_corpus() -> Vec<Value> {
    let mut c: Vec<Value> = vec![];
    for t in ["null", "true", "false", "\"\"", "\"a\\\"b\\\\c\\n\\u0000\\u001f\\u007f/é\"", "[]", "{}", "[[]]", "[{}]", "{\"a\":{}}", "{\"a\":[]}", "[1]", "[1,2]",
              "{\"a\":1}", "{\"b\":1,\"a\":2}", "[[],[[]],{},1]", "{\"a\":{\"b\":{\"c\":[]}},\"d\":[{\"e\":null},[],{}]}", "{\"\":\"\"}", "{\"k\\\"q\\n\":[true,false,null]}",
              "0", "-1", "18446744073709551615", "-9223372036854775808", "9223372036854775807", "[0,-1,18446744073709551615,-9223372036854775808]"] {
        c.push(serde_json::from_str(t).unwrap());
    }
    for f in [0.0f64, -0.0, 1.0, 1.5, 0.1, 1e300, 1e-300, 1e21, 1e20, 1e-7, 123456789.125, f64::MAX, f64::MIN, f64::MIN_POSITIVE, f64::from_bits(1)] {
        let n = Value::Number(Number::from_f64(f).unwrap());
        c.push(n.clone());
        c.push(Value::Array(vec![n.clone(), Value::Null, n.clone()]));
        let mut m = Map::new(); m.insert("x".to_string(), n); c.push(Value::Object(m));
    }
    c.push(Value::from(u64::MAX)); c.push(Value::from(i64::MIN));
    c
}

// ------------------------------------------------------------------ deep nests (depth x indent)

/// indents of the deep family besides `INDENTS`: runs of blanks longer than one level's worth of any chunked fast path, and a two-byte non-blank one
pub const DEEP_INDENTS: [&[u8]; 4] = [b"    ", b"        ", b"                                 ", b"\t\t"];

/// `depth` containers inside one another; `shape` 0 = sequences only, 1 = maps only, 2 = alternating (sequence outermost), 3 = alternating (map
/// outermost); the innermost container holds `leaf` (1 or 2) scalars; with `sib` every wrapping container has a second, scalar element after the nested one
fn deep_is_map(shape: usize, level: usize) -> bool { match shape { 0 => false, 1 => true, 2 => level % 2 == 1, _ => level % 2 == 0 } }
fn deep_prog(depth: usize, shape: usize, leaf: usize, sib: bool) -> Prog {
    let mut cur: Option<Prog> = None;
    for level in (0..depth).rev() {
        let m = deep_is_map(shape, level);
        cur = Some(match cur {
            None => if m { map((0..leaf).map(|k| (s(if k == 0 { "a" } else { "b" }), i(k as i32 + 1))).collect()) } else { seq((0..leaf).map(|k| i(k as i32 + 1)).collect()) },
            Some(inner) => if m { let mut es = vec![(s("a"), inner)]; if sib { es.push((s("b"), Prog::Bool(true))); } map(es) }
                           else { let mut xs = vec![inner]; if sib { xs.push(Prog::Unit); } seq(xs) },
        });
    }
    cur.unwrap_or(Prog::Unit)
}
fn deep_value(depth: usize, shape: usize, leaf: usize, sib: bool) -> Value {
    let mut cur: Option<Value> = None;
    for level in (0..depth).rev() {
        let m = deep_is_map(shape, level);
        let mk_map = |es: Vec<(&str, Value)>| { let mut o = Map::new(); for (k, v) in es { o.insert(k.to_string(), v); } Value::Object(o) };
        cur = Some(match cur {
            None => if m { mk_map((0..leaf).map(|k| (if k == 0 { "a" } else { "b" }, Value::from(k as u64 + 1))).collect()) } else { Value::Array((0..leaf).map(|k| Value::from(k as u64 + 1)).collect()) },
            Some(inner) => if m { let mut es = vec![("a", inner)]; if sib { es.push(("b", Value::Bool(true))); } mk_map(es) }
                           else { let mut xs = vec![inner]; if sib { xs.push(Value::Null); } Value::Array(xs) },
        });
    }
    cur.unwrap_or(Value::Null)
}

/// C03, "depth x indent": nests of every depth 1..=44 (thorough 70) in four shapes around a one- or two-element innermost container,
/// pretty-printed with every indent of `INDENTS` and `DEEP_INDENTS` (the 33-blank one at selected depths), and the corresponding
/// `Value` through `{}` / `{:#}` / to_string / to_string_pretty (op disp)
fn deep(sink: &mut Sink, thorough: bool) {
    let maxd = if thorough { 70 } else { 44 };
    for depth in 1..=maxd {
        for shape in 0..4 {
            for leaf in 1..=2usize {
                // quick tier (thorough: beyond depth 44): one leaf size per (depth, shape), shape 3 at every fourth depth
                let sparse = !thorough || depth > 44;
                if sparse && (leaf != 1 + (depth + shape) % 2 || (shape == 3 && depth % 4 != 0)) { continue; }
                let sib = (depth + shape + leaf) % 3 == 0;
                let p = deep_prog(depth, shape, leaf, sib);
                let c = Case::new(&p);
                emit_serc(sink, &c);
                for ind in INDENTS { emit_serp(sink, &c, ind); }
                for (k, ind) in DEEP_INDENTS.iter().enumerate() {
                    if k == 2 && !(depth <= 3 || depth % 16 >= 15 || depth % 16 <= 1 || depth == maxd) { continue; }
                    if k == 1 && depth > 44 && depth % 4 != 2 && depth != maxd { continue; }
                    emit_serp(sink, &c, ind);
                }
                if depth % 8 == 0 { emit_serbufs(sink, &c, Some(b"  ")); emit_serbufs(sink, &c, Some(b"")); }
                let v = deep_value(depth, shape, leaf, sib);
                emit_disp(sink, &v, "deep");
            }
        }
    }
}

// ------------------------------------------------------------------ run

pub fn run(sink: &mut Sink, thorough: bool, seed: u64) {
    // self-check of the wire codec
    {
        let mut r = Rng::new(seed ^ 0x5e1f_c4ec);
        for k in 0..200 {
            let p = if k % 10 == 0 { gen_prog_badhint(&mut r, k % 5) } else { gen_prog(&mut r, k % 5) };
            let e = enc_prog(&p);
            let e2 = enc_prog(&dec_prog(&e));
            if e != e2 { panic!("prog codec self-check failed:\n{}\n{}", e, e2); }
            assert!(!e.is_empty() && !e.contains(' '));
        }
    }
    let mut r = Rng::new(seed);
    // (a) fixed corpus
    for p in corpus() {
        let c = Case::new(&p);
        emit_serc(sink, &c);
        for ind in INDENTS { emit_serp(sink, &c, ind); }
        emit_serbufs(sink, &c, None);
        for ind in [&b"  "[..], b"", b"\t"] { emit_serbufs(sink, &c, Some(ind)); }
    }
    // (b) random programs
    let n = if thorough { 40000 } else { 2500 };
    for _ in 0..n {
        let d = r.below(5);
        let p = gen_prog(&mut r, d);
        let c = Case::new(&p);
        emit_serc(sink, &c);
        if thorough { for ind in INDENTS { emit_serp(sink, &c, ind); } }
        else {
            let a = r.below(5); let b = (a + 1 + r.below(4)) % 5;
            emit_serp(sink, &c, INDENTS[a]); emit_serp(sink, &c, INDENTS[b]);
        }
        emit_serbufs(sink, &c, None);
        emit_serbufs(sink, &c, Some(*r.pick(&INDENTS)));
    }
    for _ in 0..n / 10 {
        let d = 1 + r.below(4);
        let p = gen_prog_badhint(&mut r, d);
        let c = Case::new(&p);
        emit_serbufx(sink, &c, None);
        // pretty + wrong hint can underflow `current_indent` (a panic here: overflow checks are on); when the program
        // also has a bad key, which of the two comes first is not an observable the model reports — compact only then
        let ind = *r.pick(&INDENTS);
        if !obs_serc(&p).starts_with("ERR:") { emit_serbufx(sink, &c, Some(ind)); }
    }
    // (c) Display / to_string of Value
    for v in disp_corpus() { emit_disp(sink, &v, "fixed"); }
    let m = if thorough { 20000 } else { 1500 };
    for k in 0..m {
        if k % 3 == 0 { let v = gen_value(&mut r, 3); emit_disp(sink, &v, "common"); }
        else { let d = r.below(4); let v = gen_dvalue(&mut r, d); emit_disp(sink, &v, "local"); }
    }
    // (c') deep nests: depth x indent (no randomness)
    deep(sink, thorough);
    // (d) Display through a `fmt::Write` that fails after a byte budget (own generator state: the cases above keep their seeds)
    let mut r = Rng::new(seed ^ 0xd15f_a017);
    for v in disp_corpus() {
        for alt in [false, true] {
            let len = if alt { serde_json::to_string_pretty(&v).unwrap().len() } else { serde_json::to_string(&v).unwrap().len() };
            emit_dispf(sink, &v, alt, None, "fixed");
            // every budget up to the length for the small ones, a sample otherwise
            if len <= 24 || thorough { for b in 0..=len + 1 { emit_dispf(sink, &v, alt, Some(b), "fixed"); } }
            else { for b in [0, 1, 2, len / 2, len - 1, len, len + 1] { emit_dispf(sink, &v, alt, Some(b), "fixed"); } }
        }
        if let Value::Number(n) = &v { emit_dispn(sink, n, "fixed"); }
    }
    let m = if thorough { 20000 } else { 1500 };
    for k in 0..m {
        let v = if k % 3 == 0 { gen_value(&mut r, 3) } else { let d = r.below(4); gen_dvalue(&mut r, d) };
        let alt = r.chance(1, 2);
        let len = if alt { serde_json::to_string_pretty(&v).unwrap().len() } else { serde_json::to_string(&v).unwrap().len() };
        emit_dispf(sink, &v, alt, None, "random");
        let b = match r.below(4) { 0 => len, 1 => len.saturating_sub(1), _ => r.below(len + 2) };
        emit_dispf(sink, &v, alt, Some(b), "random");
    }
    for k in 0..m / 5 {
        let n = if k % 2 == 0 { gen_number(&mut r) } else { match Number::from_f64(gen_f64(&mut r)) { Some(n) => n, None => Number::from(k as u64) } };
        emit_dispn(sink, &n, "random");
    }
}
