//! C07: with `float_roundtrip`, decimal → float conversion is correctly rounded (f64 and f32 targets,
//! three sources, inside Values); print → parse round trips. The exact oracle lives in the Lean driver
//! (`Spec.Ieee.roundNE64` / `Spec.Ieee32.roundNE32` on exact naturals); this module constructs the literal
//! families of the property's quantifier, among them exact decimal expansions of midpoints between
//! adjacent floats (big-integer arithmetic below).
#![allow(dead_code)]
use crate::common::*;
use crate::obs::*;
use serde_json::Value;

fn g<F: FnOnce() -> String>(f: F) -> String { std::panic::catch_unwind(std::panic::AssertUnwindSafe(f)).unwrap_or("PANIC".into()) }

// ------------------------------------------------------------------ tiny decimal big number
/// non-negative integer, little-endian limbs in base 10^9
#[derive(Clone)]
pub struct Big(pub Vec<u32>);
impl Big {
    pub fn from_u64(mut x: u64) -> Big { let mut v = vec![]; while x > 0 { v.push((x % 1_000_000_000) as u32); x /= 1_000_000_000; } Big(v) }
    pub fn mul_small(&mut self, k: u32) {
        let mut carry: u64 = 0;
        for l in self.0.iter_mut() { let t = *l as u64 * k as u64 + carry; *l = (t % 1_000_000_000) as u32; carry = t / 1_000_000_000; }
        while carry > 0 { self.0.push((carry % 1_000_000_000) as u32); carry /= 1_000_000_000; }
    }
    pub fn mul_pow(&mut self, base: u32, mut n: u32) {
        // base^13 < 2^32 for base 5; 2^31 for base 2
        let (chunk, big) = if base == 5 { (13u32, 1_220_703_125u32) } else { (30u32, 1u32 << 30) };
        while n >= chunk { self.mul_small(big); n -= chunk; }
        if n > 0 { self.mul_small(base.pow(n)); }
    }
    pub fn digits(&self) -> String {
        if self.0.is_empty() { return "0".into(); }
        let mut s = format!("{}", self.0[self.0.len() - 1]);
        for l in self.0.iter().rev().skip(1) { s.push_str(&format!("{:09}", l)); }
        s
    }
}

/// exact decimal value `digits × 10^exp10` of `m × 2^e` (m > 0)
pub fn exact_decimal(m: u64, e: i32) -> (String, i32) {
    let mut b = Big::from_u64(m);
    if e >= 0 { b.mul_pow(2, e as u32); (b.digits(), 0) } else { b.mul_pow(5, (-e) as u32); (b.digits(), e) }
}

/// spell `digits × 10^exp10`: style 0 scientific `d.ddde±x`, 1 plain positional, 2 integer digits with exponent,
/// 3 `0.ddd` with exponent, 4 split in the middle with exponent
pub fn spell(digits: &str, exp10: i32, style: usize) -> String {
    let n = digits.len() as i32;
    match style {
        0 => { let e = exp10 + n - 1; if n == 1 { format!("{}e{}", digits, e) } else { format!("{}.{}e{}", &digits[..1], &digits[1..], e) } }
        1 => {
            if exp10 >= 0 { format!("{}{}", digits, "0".repeat(exp10 as usize)) }
            else if -exp10 < n { let k = (n + exp10) as usize; format!("{}.{}", &digits[..k], &digits[k..]) }
            else { format!("0.{}{}", "0".repeat((-exp10 - n) as usize), digits) }
        }
        2 => format!("{}E{}", digits, exp10),
        3 => format!("0.{}e+{}", digits, exp10 + n).replace("e+-", "e-"),
        _ => { let k = (n / 2).max(1) as usize; if k as i32 >= n { format!("{}e{}", digits, exp10) } else { format!("{}.{}e{}", &digits[..k], &digits[k..], exp10 + n - k as i32) } }
    }
}

/// last digit ±1 (no carry handling needed: callers pick digits whose last digit is 5, as for every midpoint)
fn perturb(digits: &str, up: bool) -> String {
    let mut b = digits.as_bytes().to_vec();
    let l = b.len() - 1;
    if up { if b[l] < b'9' { b[l] += 1; } else { b.push(b'1'); } } else if b[l] > b'0' { b[l] -= 1; } else { b[l] = b'0'; }
    String::from_utf8(b).unwrap()
}

// ------------------------------------------------------------------ observations
fn show_res<T, S: Fn(&T) -> String>(r: &Result<T, serde_json::Error>, s: S) -> String {
    match r {
        Ok(x) => s(x),
        Err(e) => { let m = e.to_string(); if m.starts_with("number out of range") { "E".into() } else { format!("E?{}", hex(m.as_bytes())) } }
    }
}
fn b64(f: &f64) -> String { format!("B{:016x}", f.to_bits()) }
fn b32(f: &f32) -> String { format!("B{:08x}", f.to_bits()) }
fn merge(parts: Vec<String>) -> String { if parts.iter().all(|p| *p == parts[0]) { parts[0].clone() } else { format!("X{}", parts.join(",")) } }

/// f64 target: str, slice, a two-element array through a chunked reader, and a Value's `as_f64`
fn obs_f64(lit: &str) -> String {
    let l = lit.to_string();
    g(move || {
        let a = show_res(&serde_json::from_str::<f64>(&l), b64);
        let b = show_res(&serde_json::from_slice::<f64>(l.as_bytes()), b64);
        let doc = format!(" [{},\n{} ]", l, l);
        let c = show_res(&serde_json::from_reader::<_, Vec<f64>>(Chunked::new(doc.as_bytes(), vec![3, 1])),
                         |v| if v.len() == 2 && v[0].to_bits() == v[1].to_bits() { b64(&v[0]) } else { "LEN".into() });
        let d = show_res(&serde_json::from_str::<Value>(&l), |v| match v.as_f64() { Some(f) => b64(&f), None => "E".into() });
        // one Deserializer: an f32 read that fails (wrong type / out of f32 range / null), then this literal as f64 —
        // the f64 must not depend on what was attempted before it (reported only when it differs from the one-shot result)
        let bad = ["\"n/a\"", "1e39", "null", "-3.5e38"][l.len() % 4];
        let two = format!("{} {}", bad, l);
        let e = {
            use serde::Deserialize;
            let mut de = serde_json::Deserializer::from_str(&two);
            let first = f32::deserialize(&mut de);
            if first.is_ok() { "FIRST-OK".to_string() } else { show_res(&f64::deserialize(&mut de), b64) }
        };
        let mut parts = vec![a, b, c, d];
        if e != parts[0] { parts.push(format!("after-failed-f32:{}", e)); }
        #[cfg(all(feature = "fr", feature = "rv"))]
        for (name, o) in via_raw64(&l) { if o != parts[0] { parts.push(format!("{}:{}", name, o)); } }
        merge(parts)
    })
}
/// f32 target: str, slice, chunked reader
fn obs_f32(lit: &str) -> String {
    let l = lit.to_string();
    g(move || {
        let a = show_res(&serde_json::from_str::<f32>(&l), b32);
        let b = show_res(&serde_json::from_slice::<f32>(l.as_bytes()), b32);
        let doc = format!("[{} ,{}]\n", l, l);
        let c = show_res(&serde_json::from_reader::<_, Vec<f32>>(Chunked::new(doc.as_bytes(), vec![2, 5])),
                         |v| if v.len() == 2 && v[0].to_bits() == v[1].to_bits() { b32(&v[0]) } else { "LEN".into() });
        let mut parts = vec![a, b, c];
        #[cfg(all(feature = "fr", feature = "rv"))]
        for (name, o) in via_raw32(&l) { if o != parts[0] { parts.push(format!("{}:{}", name, o)); } }
        merge(parts)
    })
}

/// The RawValue source (`impl Deserializer for &RawValue`, `src/raw.rs`; float_roundtrip + raw_value builds): the literal is
/// captured as a `Box<RawValue>` (alone from a str, and as the elements of an array from a reader) and the float is deserialised
/// FROM the RawValue — `T::deserialize(&*raw)`, `T::deserialize((&*raw).into_deserializer())`, a one-field struct and a
/// one-element tuple out of a RawValue holding `{"x":lit}` / `[lit]`. A path is reported only when it differs from the first one.
#[cfg(all(feature = "fr", feature = "rv"))]
macro_rules! via_raw {
    ($name:ident, $t:ty, $show:ident) => {
        fn $name(l: &str) -> Vec<(&'static str, String)> {
            use serde::de::IntoDeserializer;
            use serde::Deserialize;
            use serde_json::value::RawValue;
            #[derive(serde::Deserialize)]
            struct W { x: $t }
            let mut out: Vec<(&'static str, String)> = vec![];
            match serde_json::from_str::<Box<RawValue>>(l) {
                Ok(raw) => {
                    out.push(("raw-deserialize", show_res(&<$t>::deserialize(&*raw), $show)));
                    out.push(("raw-into-deserializer", show_res(&<$t>::deserialize((&*raw).into_deserializer()), $show)));
                }
                Err(_) => out.push(("raw-capture", "NORAW".into())),
            }
            let doc = format!("[ {} , {}]", l, l);
            match serde_json::from_reader::<_, Vec<Box<RawValue>>>(Chunked::new(doc.as_bytes(), vec![4, 1])) {
                Ok(raws) => for raw in raws.iter() { out.push(("raw-element", show_res(&<$t>::deserialize(&**raw), $show))); },
                Err(_) => out.push(("raw-capture-elements", "NORAW".into())),
            }
            let obj = format!("{{\"x\":{}}}", l);
            if let Ok(raw) = serde_json::from_str::<Box<RawValue>>(&obj) { out.push(("raw-struct-field", show_res(&W::deserialize(&*raw), |w: &W| $show(&w.x)))); }
            let arr = format!("[{}]", l);
            if let Ok(raw) = serde_json::from_str::<Box<RawValue>>(&arr) { out.push(("raw-tuple-element", show_res(&<($t,)>::deserialize(&*raw), |w: &($t,)| $show(&w.0)))); }
            out
        }
    };
}
#[cfg(all(feature = "fr", feature = "rv"))]
via_raw!(via_raw64, f64, b64);
#[cfg(all(feature = "fr", feature = "rv"))]
via_raw!(via_raw32, f32, b32);

fn class(o: &str) -> &'static str { if o == "E" { "range" } else if o.starts_with('B') { "ok" } else { "other" } }
fn emit64(sink: &mut Sink, lit: &str, tag: &str) { let o = obs_f64(lit); sink.case("f64rt", &[&hexf(lit.as_bytes())], &o, &format!("f64:{}:{}", tag, class(&o)), lit.len() > 1); }
fn emit32(sink: &mut Sink, lit: &str, tag: &str) { let o = obs_f32(lit); sink.case("f32rt", &[&hexf(lit.as_bytes())], &o, &format!("f32:{}:{}", tag, class(&o)), lit.len() > 1); }

/// print → parse: `f64pr <bits> => <hex of to_string(f)>|<parse of that text>`
fn emit_pr64(sink: &mut Sink, bits: u64, tag: &str) {
    let f = f64::from_bits(bits);
    if !f.is_finite() { return; }
    let o = g(move || { let t = serde_json::to_string(&f).unwrap(); format!("{}|{}", hexf(t.as_bytes()), show_res(&serde_json::from_str::<f64>(&t), b64)) });
    sink.case("f64pr", &[&format!("{:016x}", bits)], &o, tag, true);
}
fn emit_pr32(sink: &mut Sink, bits: u32, tag: &str) {
    let f = f32::from_bits(bits);
    if !f.is_finite() { return; }
    let o = g(move || { let t = serde_json::to_string(&f).unwrap(); format!("{}|{}", hexf(t.as_bytes()), show_res(&serde_json::from_str::<f32>(&t), b32)) });
    sink.case("f32pr", &[&format!("{:08x}", bits)], &o, tag, true);
}

/// all 2^32 f32 bit patterns: serialise, parse back, compare bits (finite values only); 16 threads
pub fn f32_all(sink: &mut Sink) {
    let nthreads = 16u64;
    let handles: Vec<_> = (0..nthreads).map(|t| std::thread::spawn(move || {
        let (mut count, mut bad, mut first) = (0u64, 0u64, None);
        let lo = t * (1u64 << 32) / nthreads; let hi = (t + 1) * (1u64 << 32) / nthreads;
        let mut buf: Vec<u8> = Vec::with_capacity(64);
        for b in lo..hi {
            let f = f32::from_bits(b as u32);
            if !f.is_finite() { continue; }
            count += 1;
            buf.clear();
            let ok = serde_json::to_writer(&mut buf, &f).is_ok() && match serde_json::from_slice::<f32>(&buf) { Ok(x) => x.to_bits() == b as u32, Err(_) => false };
            if !ok { bad += 1; if first.is_none() { first = Some(b as u32); } }
        }
        (count, bad, first)
    })).collect();
    let (mut count, mut bad, mut first) = (0u64, 0u64, None);
    for h in handles { match h.join() { Ok((c, b, f)) => { count += c; bad += b; if first.is_none() { first = f; } } Err(_) => { bad += 1; } } }
    let obs = match first { None => format!("{}", bad), Some(b) => format!("{}:first={:08x}", bad, b) };
    sink.case("f32all", &[&format!("{}", count)], &obs, "f32all", true);
}

// ------------------------------------------------------------------ literal families
fn rand_digits(r: &mut Rng, n: usize) -> String {
    let mut s = String::new();
    s.push((b'1' + r.below(9) as u8) as char);
    for _ in 1..n { s.push((b'0' + r.below(10) as u8) as char); }
    s
}
fn rd(r: &mut Rng, lo: usize, span: usize) -> String { let n = lo + r.below(span); rand_digits(r, n) }
fn sign(r: &mut Rng, s: String) -> String { if r.chance(1, 6) { format!("-{}", s) } else { s } }

/// midpoint above the finite positive float `m × 2^e` (m the integer significand): `(2m+1) × 2^(e-1)`, and variants
fn midpoint_variants(r: &mut Rng, m: u64, e: i32, out: &mut Vec<(String, &'static str)>, thorough: bool) {
    let (d, x) = exact_decimal(2 * m + 1, e - 1);
    let style = r.below(5);
    out.push((sign(r, spell(&d, x, style)), "mid-exact"));
    out.push((spell(&perturb(&d, true), x, r.below(5)), "mid-up"));
    out.push((spell(&perturb(&d, false), x, r.below(5)), "mid-down"));
    // extended by zeros, and by zeros then a final 1 (beyond the 768-digit limit when the padding is long)
    let pad = if r.chance(1, 2) { 800usize.saturating_sub(d.len()) + r.below(40) } else { 1 + r.below(30) };
    let z = format!("{}{}", d, "0".repeat(pad));
    out.push((spell(&z, x - pad as i32, if z.len() > 600 { [0, 2, 3, 4][r.below(4)] } else { r.below(5) }), "mid-zeros"));
    let o = format!("{}{}1", d, "0".repeat(pad));
    out.push((spell(&o, x - pad as i32 - 1, if o.len() > 600 { [0, 2, 3, 4][r.below(4)] } else { r.below(5) }), "mid-sticky"));
    if thorough || r.chance(1, 3) {
        // cut exactly at / around 768 significant digits when the expansion is that long, else drop the last digit
        if d.len() > 760 {
            for k in [767usize, 768, 769] { if d.len() > k { out.push((spell(&d[..k], x + (d.len() - k) as i32, 0), "mid-cut")); } }
        } else if d.len() > 1 { out.push((spell(&d[..d.len() - 1], x + 1, r.below(5)), "mid-cut")); }
        out.push((spell(&d, x, 1), "mid-plain"));
    }
}

fn f64_parts(bits: u64) -> (u64, i32) {
    let be = ((bits >> 52) & 0x7ff) as i32; let f = bits & 0xfffffffffffff;
    if be == 0 { (f, -1074) } else { (f | (1 << 52), be - 1075) }
}
fn f32_parts(bits: u32) -> (u64, i32) {
    let be = ((bits >> 23) & 0xff) as i32; let f = (bits & 0x7fffff) as u64;
    if be == 0 { (f, -149) } else { (f | (1 << 23), be - 150) }
}

const SPECIALS: &[&str] = &[
    "0", "-0", "0.0", "-0.0", "0e0", "0E-0", "0.000e+999", "-0e-999", "1", "-1", "1.0", "1e0", "10", "123", "0.5", "0.1", "0.2", "0.3",
    "2305843009213660156999999999999e-242", "2305843009213626122999999999999e-242", "2.305843009213660156999999999999e-212", "2305843009213660156e-230", "2305843009213660157e-230",
    "5e-324", "4.9e-324", "4.9406564584124654e-324", "2.47e-324", "2.4703282292062327e-324", "2.4703282292062328e-324", "2.4703282292062329e-324",
    "2.470328229206232720882843964341106861825299013071623822127928412503377536351043e-324",
    "2.470328229206232720882843964341106861825299013071623822127928412503377536351044e-324",
    "2.5e-324", "3e-324", "7.4e-324", "7.5e-324", "1e-323", "1e-324", "1e-325", "1e-400", "-1e-400", "9.9e-324",
    "2.2250738585072011e-308", "2.2250738585072012e-308", "2.2250738585072013e-308", "2.2250738585072014e-308", "2.2250738585072009e-308",
    "2.225073858507201136057409796709131975934819546351645648023426109724822222021076945516529523908135087914149158913039621106870086438694594645527657207407820621743379988141063267329253552286881372149012981122451451889849057222307285255133155755015914397476397983411801999323962548289017107081850690630666655994938275772572015763062690663332647565300009245888316433037779791869612049497390377829704905051080609940730262937128958950003583799967207254304360284078895771796150945516748243471030702609144621572289880258182545180325707018860872113128079512233426288368622321503775666622503982534335974568884423900265498198385487948292206894721689831099698365846814022854243330660339850886445804001034933970427567186443383770486037861622771738545623065874679014086723327636718751234567890123456789012345678901234567890e-308",
    "1.7976931348623157e308", "1.7976931348623158e308", "1.7976931348623159e308", "1.797693134862315807e308", "1.797693134862315808e308", "1.797693134862315708145274237317043567981e308",
    "1.8e308", "2e308", "1e309", "1e310", "1e400", "-1e400", "1e-2147483647", "1e2147483647", "1e2147483648", "1e-2147483648", "1e-2147483649", "0e2147483648", "0.000e99999999999999999999",
    "1e99999999999999999999", "-1e-99999999999999999999", "0.0000000000000000000000001e99999999999999999999", "12345678901234567890123e-99999999999999999999", "12345678901234567890123e99999999999999999999",
    "1e0000000000000000000000005", "1e-0000000000000000000000005", "1.5e+0000000000000000000000308",
    "9007199254740992", "9007199254740993", "9007199254740994", "9007199254740993.0", "9007199254740993e0", "9007199254740993.00000000000000000000000000000000000001", "9007199254740992.99999999999999999999999999999999999",
    "9007199254740991e22", "9007199254740991e23", "9007199254740992e22", "9007199254740993e22", "123456789012345e37", "123456789012345e38", "1e22", "1e23", "1e-22", "1e-23", "9007199254740993e-22",
    "18446744073709551615", "18446744073709551616", "18446744073709551617", "18446744073709551615.0", "18446744073709551615.5", "18446744073709551615e0", "1844674407370955161.5", "1844674407370955161.6", "1.8446744073709551615", "1.8446744073709551616",
    "0.18446744073709551615", "0.18446744073709551616", "0.018446744073709551616", "0.00000000000000000000018446744073709551616", "0.000000000000000000000000000000000000000000018446744073709551616e42",
    "-9223372036854775808", "-9223372036854775809", "-9223372552250613761", "-9223372586610589697", "-18446744073709551615", "-18446744073709551616", "-13835058055282163713",
    "12345678901234567890", "123456789012345678900000000000000000000", "12345678901234567890.000000000000000000000", "1234567890123456789000000000000000000.00000e-10", "12345678901234567890000000000000000000000001e-20",
    "1.00000000000000000000000000000000000000000000000000000000000000000000000000000000000000000000001", "0.000000000000000000000000000000000000000000000000000000000000000000000000000000000000000000000001",
    "0.1000000000000000055511151231257827021181583404541015625", "0.10000000000000000555111512312578270211815834045410156250000000000000000000000000000000000000000000000000000000000000000000000000000000001",
    "3.4028234663852886e38", "3.4028235677973366e38", "3.4028235677973367e38", "3.40282356779733661637539395458142568447e38", "3.40282356779733661637539395458142568448e38", "3.4028236e38", "3.5e38", "1e39", "340282356779733661637539395458142568447", "340282356779733661637539395458142568448",
    "1.401298464324817e-45", "7.006492321624085e-46", "7.006492321624086e-46", "7.0064923216240853546186479164495806564013097093825788587853e-46", "7.0064923216240853546186479164495806564013097093825788587854e-46", "7e-46", "1e-45", "1e-46",
    "1.1754943508222875e-38", "1.1754942106924411e-38", "1.17549435e-38", "16777216", "16777217", "16777218", "16777217.0", "16777217.000000000000000000000000001", "16777217e0", "33554434", "33554435",
    "8388608.5", "8388609.5", "0.000000059604644775390625", "1.00000005960464477539062", "1.000000059604644775390625", "1.000000059604644775390626",
];

pub fn literals(r: &mut Rng, thorough: bool) -> Vec<(String, &'static str)> {
    let mut v: Vec<(String, &'static str)> = vec![];
    for s in SPECIALS { v.push((s.to_string(), "special")); }
    // f64 sampled across every binary exponent: shortest `{:e}`, shortest `{}`, 17 significant digits
    let per = if thorough { 12 } else { 2 };
    for be in 0..2047u64 {
        for j in 0..per {
            let frac = match j { 0 => r.next() & 0xfffffffffffff, 1 => *r.pick(&[0u64, 1, 0xfffffffffffff, 0x8000000000000, 0xffffffffffffe]), _ => r.next() & 0xfffffffffffff };
            let f = f64::from_bits((be << 52) | frac);
            if f == 0.0 { continue; }
            v.push((sign(r, format!("{:e}", f)), "f64-sci"));
            if be % 8 == j as u64 % 8 || thorough { v.push((format!("{}", f), "f64-plain")); }
            v.push((format!("{:.16e}", f), "f64-17"));
            if thorough { v.push((format!("{:.19e}", f), "f64-20")); v.push((format!("{:.14e}", f), "f64-15")); }
        }
    }
    // powers of two and their neighbours
    for e in -1074..=1023i32 {
        let f = 2f64.powi(e.max(-1022)) * if e < -1022 { 2f64.powi(e + 1022) } else { 1.0 };
        v.push((format!("{:e}", f), "pow2"));
        for b in [f.to_bits().wrapping_sub(1), f.to_bits() + 1] { let x = f64::from_bits(b); if x.is_finite() && x > 0.0 { v.push((format!("{:e}", x), "pow2-nb")); } }
        if thorough || e % 16 == 0 { let (d, x) = exact_decimal(1, e); v.push((spell(&d, x, r.below(5)), "pow2-exact")); }
    }
    // powers of ten in several spellings and their neighbours
    for k in -345..=310i32 {
        v.push((format!("1e{}", k), "pow10"));
        v.push((format!("10E{}", k - 1), "pow10"));
        v.push((format!("0.1e{}", k + 1), "pow10"));
        v.push((format!("{}e{}", 10u64.pow(r.below(20) as u32), k), "pow10"));
        v.push((format!("0.9999999999999999e{}", k), "pow10-nb"));
        v.push((format!("1.0000000000000002e{}", k), "pow10-nb"));
        v.push((format!("9.99999999999999999999e{}", k - 1), "pow10-nb"));
        v.push((format!("1.00000000000000000001e{}", k), "pow10-nb"));
        if k >= 0 && (thorough || k % 7 == 0 || k < 40) { v.push((format!("1{}", "0".repeat(k as usize)), "pow10-plain")); v.push((format!("1{}.0", "0".repeat(k as usize)), "pow10-plain")); }
        if k < 0 && (thorough || k % 7 == 0 || k > -40) { v.push((format!("0.{}1", "0".repeat((-k - 1) as usize)), "pow10-plain")); }
    }
    // exact midpoints between adjacent doubles
    let nmid = if thorough { 6000 } else { 500 };
    for i in 0..nmid {
        let be = match i % 5 { 0 => r.below(2047) as u64, 1 => r.below(4) as u64, 2 => 2043 + r.below(4) as u64, 3 => 1000 + r.below(120) as u64, _ => r.below(2047) as u64 };
        let frac = match r.below(4) { 0 => *r.pick(&[0u64, 1, 2, 0xfffffffffffff, 0xffffffffffffe, 0x8000000000000]), _ => r.next() & 0xfffffffffffff };
        let (m, e) = f64_parts((be << 52) | frac);
        midpoint_variants(r, m, e, &mut v, thorough);
    }
    // midpoints cut to 19–22 significant digits (just below) and bumped in the last kept digit (just above): literals a
    // hair away from a tie whose mantissa overflows u64 by one or two digits — the moderate path's truncation bookkeeping.
    // Three quarters of them have their leading digits in [1.8446744, 2.3058430] (19 digits fill 61 bits: largest
    // normalisation shift of the truncated mantissa).
    for i in 0..(if thorough { 60000 } else { 6000 }) {
        let f: f64 = if i % 4 != 0 {
            let mant = 1.8446744 + (r.below(4_611_686) as f64) * 1e-7;
            format!("{}e{}", mant, r.below(600) as i32 - 300).parse().unwrap()
        } else { f64::from_bits(((1 + r.below(2045) as u64) << 52) | (r.next() & 0xfffffffffffff)) };
        let (m, e) = f64_parts(f.to_bits());
        let (d, x) = exact_decimal(2 * m + 1, e - 1);
        for k in [19usize, 20, 21, 22] {
            if d.len() <= k { continue; }
            let cut = &d[..k]; let xe = x + (d.len() - k) as i32;
            if k == 20 || k == 21 || r.chance(1, 3) {
                v.push((spell(cut, xe, [0, 2, 4][r.below(3)]), "mid-k-below"));
                v.push((spell(&perturb(cut, true), xe, [0, 2, 4][r.below(3)]), "mid-k-above"));
            }
        }
    }
    // the two ends of the range: half the least subnormal and the overflow threshold, always
    midpoint_variants(r, 0, -1074, &mut v, true);
    midpoint_variants(r, (1 << 53) - 1, 971, &mut v, true);
    midpoint_variants(r, 1, -1074, &mut v, true);
    midpoint_variants(r, 0, -149, &mut v, true);
    midpoint_variants(r, (1 << 24) - 1, 104, &mut v, true);
    // midpoints between adjacent f32 values (they are interior points for f64: exercise both targets)
    let nmid32 = if thorough { 3000 } else { 300 };
    for i in 0..nmid32 {
        let be = match i % 4 { 0 => r.below(255) as u32, 1 => r.below(3) as u32, 2 => 252 + r.below(3) as u32, _ => 100 + r.below(60) as u32 };
        let frac = match r.below(4) { 0 => *r.pick(&[0u32, 1, 0x7fffff, 0x7ffffe, 0x400000]), _ => (r.next() as u32) & 0x7fffff };
        let (m, e) = f32_parts((be << 23) | frac);
        midpoint_variants(r, m, e, &mut v, thorough);
    }
    // random 1–40 digit mantissas with exponents in ±400, random position of the point
    for _ in 0..(if thorough { 60000 } else { 6000 }) {
        let n = 1 + r.below(40);
        let d = rand_digits(r, n);
        let e = r.below(801) as i32 - 400;
        let s = match r.below(4) {
            0 => format!("{}e{}", d, e),
            1 => { let k = r.below(n + 1); if k == 0 { format!("0.{}e{}", d, e) } else if k == n { format!("{}.0e{}", d, e) } else { format!("{}.{}E{}", &d[..k], &d[k..], e) } }
            2 => { let k = 1 + r.below(n); if k == n { d.clone() } else { format!("{}.{}", &d[..k], &d[k..]) } }
            _ => format!("0.{}{}e{}", "0".repeat(r.below(30)), d, e + r.below(30) as i32),
        };
        v.push((sign(r, s), "random"));
    }
    // spellings steering into the three paths
    for _ in 0..(if thorough { 20000 } else { 3000 }) {
        let s = match r.below(12) {
            0 => format!("{}.{}", rd(r, 1, 15), "0".repeat(1 + r.below(40))),                    // many fraction zeros: fast path after trimming? (no: de.rs counts them)
            1 => format!("{}{}", rd(r, 19, 3), "0".repeat(r.below(30))),                          // long integers whose tail is zero
            2 => format!("{}{}.{}e-{}", rd(r, 20, 10), "0".repeat(r.below(5)), "0".repeat(1 + r.below(5)), r.below(40)),
            3 => format!("0.{}{}", "0".repeat(r.below(40)), rd(r, 1, 30)),                        // leading fraction zeros, fraction overflowing u64
            4 => format!("{}.{}", rd(r, 1, 19), rd(r, 1, 30)),                 // overflow in the fraction at various places
            5 => format!("{}e{}", rd(r, 1, 16), r.below(60) as i32 - 30),                          // fast path and its frontier
            6 => format!("{}e{}", r.next() >> (11 + r.below(4)), 20 + r.below(20)),                                   // disguised fast path
            7 => format!("{}.{}e{}", r.below(1000), rd(r, 1, 12), r.below(50) as i32 - 25),
            8 => format!("{}e{}", r.next(), r.below(700) as i32 - 350),                                               // full u64 mantissa: moderate path with overflowing small-power multiply
            9 => format!("{}{}e{}", r.next() >> 1, r.below(10), r.below(700) as i32 - 350),                           // 19–20 digits around the u64 boundary
            10 => format!("{}.{}1", rd(r, 1, 25), "0".repeat(r.below(800))),                       // a far-away sticky digit
            _ => format!("{}{}e-{}", rd(r, 1, 5), "0".repeat(r.below(400)), r.below(400)),         // long integers scaled back
        };
        v.push((sign(r, s), "steer"));
    }
    v
}

/// literals aimed at the f32 target: samples across every f32 exponent, neighbours of powers, f32 midpoints are
/// already in `literals`
fn literals32(r: &mut Rng, thorough: bool) -> Vec<(String, &'static str)> {
    let mut v: Vec<(String, &'static str)> = vec![];
    let per = if thorough { 40 } else { 6 };
    for be in 0..255u32 {
        for j in 0..per {
            let frac = match j { 0 => *r.pick(&[0u32, 1, 0x7fffff, 0x400000]), _ => (r.next() as u32) & 0x7fffff };
            let f = f32::from_bits((be << 23) | frac);
            if f == 0.0 { continue; }
            v.push((sign(r, format!("{:e}", f)), "f32-sci"));
            v.push((format!("{}", f), "f32-plain"));
            v.push((format!("{:.8e}", f), "f32-9"));
            v.push((format!("{:.16e}", f as f64), "f32-as-f64"));
        }
    }
    v
}

pub fn replay(sink: &mut Sink, toks: &[&str]) {
    // correct rounding is claimed for float_roundtrip builds only: elsewhere only the f32 print → parse ops apply
    if !cfg!(feature = "fr") && !matches!(toks[0], "f32all" | "f32pr") { return; }
    match toks[0] {
        "f32all" => f32_all(sink),
        _ if toks.len() < 2 => {}
        "f64pr" => emit_pr64(sink, u64::from_str_radix(toks[1], 16).unwrap_or(0), "replay"),
        "f32pr" => emit_pr32(sink, u32::from_str_radix(toks[1], 16).unwrap_or(0), "replay"),
        "f64rt" => emit64(sink, &String::from_utf8(unhex(toks[1])).unwrap_or_default(), "replay"),
        _ => emit32(sink, &String::from_utf8(unhex(toks[1])).unwrap_or_default(), "replay"),
    }
}

pub fn run(sink: &mut Sink, thorough: bool, seed: u64) {
    #[cfg(feature = "fr")]
    {
        let mut r = Rng::new(seed);
        let lits = literals(&mut r, thorough);
        for (l, t) in &lits { emit64(sink, l, t); }
        // the f32 target sees every family as well (thinned in the quick tier), plus its own samples
        for (i, (l, t)) in lits.iter().enumerate() { if thorough || i % 2 == 0 || *t == "special" || t.starts_with("mid") { emit32(sink, l, t); } }
        for (l, t) in &literals32(&mut r, thorough) { emit32(sink, l, t); emit64(sink, l, t); }
        // print → parse
        for be in 0..2047u64 {
            for _ in 0..(if thorough { 20 } else { 3 }) { let b = (be << 52) | (r.next() & 0xfffffffffffff); emit_pr64(sink, b | ((r.next() & 1) << 63), "print64"); }
            for frac in [0u64, 1, 0xfffffffffffff] { emit_pr64(sink, (be << 52) | frac, "print64-edge"); }
        }
        for be in 0..255u32 {
            for _ in 0..(if thorough { 60 } else { 8 }) { let b = (be << 23) | ((r.next() as u32) & 0x7fffff); emit_pr32(sink, b | (((r.next() & 1) as u32) << 31), "print32"); }
            for frac in [0u32, 1, 0x7fffff] { emit_pr32(sink, (be << 23) | frac, "print32-edge"); }
        }
    }
    // every finite f32 survives print → parse, in every configuration (thorough tier; ≈ 1 minute on 16 threads)
    if thorough { f32_all(sink); }
    let _ = seed;
}
