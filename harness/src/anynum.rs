//! C20, clause "typed deserialisation of numbers gives the same results as without the feature", for targets driven
//! through `deserialize_any` (hand-written visitors; serde's untagged / internally tagged enums and `#[serde(flatten)]`
//! buffer their input through exactly this path).
//!
//! `anynum <cfg> <hex literal> => <str>|<slice>|<reader>|<untagged>`
//!   fields 1–3: which `visit_*` method a visitor driven by `deserialize_any` received, and the value:
//!       `u64:<n>` `i64:<n>` `f64:<16 hex bits>` `u128:<n>` `i128:<n>` `bool:<b>` `str:<hex>` `bytes:<hex>` `unit` `none` `some`
//!       `seq:<n>` `map:<hex key>=<what the value's visitor received>,…` `ERR`
//!   field 4: `from_str::<Unt>` for `#[serde(untagged)] enum Unt { U(u64), I(i64), F(f64), S(String) }`:
//!       `U<n>` `I<n>` `F<16 hex bits>` `S<hex>` `ERR`
//! Run in every configuration: the statement is judged in the Lean driver (`lean/SJ/Drv/C20Any.lean`).
use crate::common::*;
use crate::gen::gen_number_text;
use crate::obs::*;
use serde::de::{self, Deserialize, Deserializer, IgnoredAny, MapAccess, SeqAccess, Visitor};
use std::fmt;

fn g<F: FnOnce() -> String>(f: F) -> String { std::panic::catch_unwind(std::panic::AssertUnwindSafe(f)).unwrap_or("PANIC".into()) }

/// what a self-describing visitor is shown
pub struct Seen(pub String);

struct Rec;
impl<'de> Visitor<'de> for Rec {
    type Value = String;
    fn expecting(&self, f: &mut fmt::Formatter) -> fmt::Result { f.write_str("anything") }
    fn visit_bool<E>(self, v: bool) -> Result<String, E> { Ok(format!("bool:{}", v)) }
    fn visit_i64<E>(self, v: i64) -> Result<String, E> { Ok(format!("i64:{}", v)) }
    fn visit_u64<E>(self, v: u64) -> Result<String, E> { Ok(format!("u64:{}", v)) }
    fn visit_i128<E>(self, v: i128) -> Result<String, E> { Ok(format!("i128:{}", v)) }
    fn visit_u128<E>(self, v: u128) -> Result<String, E> { Ok(format!("u128:{}", v)) }
    fn visit_f64<E>(self, v: f64) -> Result<String, E> { Ok(format!("f64:{:016x}", v.to_bits())) }
    fn visit_str<E>(self, v: &str) -> Result<String, E> { Ok(format!("str:{}", hexf(v.as_bytes()))) }
    fn visit_bytes<E>(self, v: &[u8]) -> Result<String, E> { Ok(format!("bytes:{}", hexf(v))) }
    fn visit_unit<E>(self) -> Result<String, E> { Ok("unit".into()) }
    fn visit_none<E>(self) -> Result<String, E> { Ok("none".into()) }
    fn visit_some<D: Deserializer<'de>>(self, d: D) -> Result<String, D::Error> { IgnoredAny::deserialize(d)?; Ok("some".into()) }
    fn visit_newtype_struct<D: Deserializer<'de>>(self, d: D) -> Result<String, D::Error> { IgnoredAny::deserialize(d)?; Ok("newtype".into()) }
    fn visit_seq<A: SeqAccess<'de>>(self, mut a: A) -> Result<String, A::Error> {
        let mut n = 0; while a.next_element::<IgnoredAny>()?.is_some() { n += 1; } Ok(format!("seq:{}", n))
    }
    fn visit_map<A: MapAccess<'de>>(self, mut a: A) -> Result<String, A::Error> {
        let mut parts: Vec<String> = vec![];
        while let Some(k) = a.next_key::<String>()? { let v: Seen = a.next_value()?; parts.push(format!("{}={}", hexf(k.as_bytes()), v.0)); }
        Ok(format!("map:{}", parts.join(",")))
    }
    fn visit_enum<A: de::EnumAccess<'de>>(self, _a: A) -> Result<String, A::Error> { Ok("enum".into()) }
}
impl<'de> Deserialize<'de> for Seen {
    fn deserialize<D: Deserializer<'de>>(d: D) -> Result<Seen, D::Error> { d.deserialize_any(Rec).map(Seen) }
}

#[derive(serde::Deserialize)]
#[serde(untagged)]
enum Unt { U(u64), I(i64), F(f64), S(String) }

fn seen(r: Result<Seen, serde_json::Error>) -> String { match r { Ok(s) => s.0, Err(_) => "ERR".into() } }

pub fn observe(lit: &str) -> String {
    let l = lit.to_string();
    g(move || {
        let a = seen(serde_json::from_str::<Seen>(&l));
        let b = seen(serde_json::from_slice::<Seen>(l.as_bytes()));
        let c = seen(serde_json::from_reader::<_, Seen>(Chunked::new(l.as_bytes(), vec![3, 1])));
        let u = match serde_json::from_str::<Unt>(&l) {
            Ok(Unt::U(n)) => format!("U{}", n), Ok(Unt::I(n)) => format!("I{}", n), Ok(Unt::F(f)) => format!("F{:016x}", f.to_bits()),
            Ok(Unt::S(s)) => format!("S{}", hexf(s.as_bytes())), Err(_) => "ERR".into() };
        format!("{}|{}|{}|{}", a, b, c, u)
    })
}

fn emit(sink: &mut Sink, cfg: &str, lit: &str, tag: &str) {
    let o = observe(lit);
    let class = o.split(':').next().unwrap_or("").split('|').next().unwrap_or("").to_string();
    sink.case("anynum", &[cfg, &hexf(lit.as_bytes())], &o, &format!("anynum:{}:{}", tag, class), lit.len() > 1);
}

pub fn replay(sink: &mut Sink, toks: &[&str]) {
    if toks.len() < 3 { return; }
    let cfg = cfg_tag();
    emit(sink, &cfg, &String::from_utf8(unhex(toks[2])).unwrap_or_default(), "replay");
}

pub fn run(sink: &mut Sink, thorough: bool, seed: u64) {
    let mut r = Rng::new(seed ^ 0xa11);
    let cfg = cfg_tag();
    let mut seen_l = std::collections::HashSet::new();
    // the boundaries of the three integer zones, in full
    for s in ["0", "-0", "1", "-1", "4294967296", "9223372036854775806", "9223372036854775807", "9223372036854775808", "9223372036854775809", "9999999999999999999",
              "10000000000000000000", "18446744073709551614", "18446744073709551615", "18446744073709551616", "-9223372036854775807", "-9223372036854775808",
              "-9223372036854775809", "-18446744073709551615", "1.0", "-1.0", "1e0", "0.0", "-0.0", "1.5", "1e5", "1E+05", "2.50e-3", "1e400", "-1e400", "1e-400",
              "123456789012345678901234567890", "0.1", "9223372036854775808.0", "18446744073709551615e0", "340282366920938463463374607431768211455"] {
        if seen_l.insert(s.to_string()) { emit(sink, &cfg, s, "edge"); }
    }
    // the integer-literal families of c06.rs (± d around every power of two up to 2^128 and every type bound, random 1–45 digit integers, near-misses)
    for l in crate::c06::literals(&mut r, thorough) { if seen_l.insert(l.clone()) { emit(sink, &cfg, &l, "lit"); } }
    // integers of 19 and 20 digits: both sides of i64::MAX and of u64::MAX
    for _ in 0..(if thorough { 20000 } else { 2000 }) {
        let x: u128 = match r.below(3) { 0 => (1u128 << 63) + (r.next() >> 1) as u128, 1 => r.next() as u128, _ => (1u128 << 64) + (r.next() >> r.below(64)) as u128 };
        let s = if r.chance(1, 4) { format!("-{}", x) } else { x.to_string() };
        if seen_l.insert(s.clone()) { emit(sink, &cfg, &s, "int64"); }
    }
    // general number texts (fractions, exponents)
    for _ in 0..(if thorough { 20000 } else { 2000 }) { let s = gen_number_text(&mut r); if seen_l.insert(s.clone()) { emit(sink, &cfg, &s, "text"); } }
}
