//! C07, limb level: every function of `src/lexical/math.rs` (the `Bigint` arithmetic of the float_roundtrip slow
//! path) on random and adversarial limb vectors, and the operation sequences of `bhcomp.rs` on them.
//!
//! The crate-private sources are compiled into the harness by `build.rs` (see there): `real` is the module tree
//! exactly as it is in the tree under check (reachable: the `pub(crate)` trait `Math`), `open` is the same tree with
//! visibility keywords changed so that `scalar::*`, `small::*`, `large::*`, `long_mul`, `karatsuba_*`,
//! `u64_to_hi64_*`, `parse_mantissa`, `large_atof`, `small_atof` can be called on arbitrary operands.
//!
//! Line protocol: `lm <opname> <args…> => <observation>`; a limb vector is `-` (empty) or its limbs, least
//! significant first, in hex separated by commas; scalars are hex, counts/shifts decimal; `P` = the call panicked.
#![allow(dead_code, unused_imports)]
use crate::common::*;

mod real { include!(concat!(env!("OUT_DIR"), "/lexreal.rs")); }
mod open { include!(concat!(env!("OUT_DIR"), "/lexopen.rs")); }

use open::lexical::math::{self as om, Hi64 as _, Math as _};
use real::lexical::math::Math as _;

type L = u64;

/// a `Bigint` over the unmodified sources (as `tests/lexical/math.rs` does)
#[derive(Clone, Default)]
struct RB { data: Vec<real::lexical::math::Limb> }
impl real::lexical::math::Math for RB {
    fn data(&self) -> &Vec<real::lexical::math::Limb> { &self.data }
    fn data_mut(&mut self) -> &mut Vec<real::lexical::math::Limb> { &mut self.data }
}

fn fl(v: &[L]) -> String { if v.is_empty() { "-".into() } else { v.iter().map(|x| format!("{:x}", x)).collect::<Vec<_>>().join(",") } }
fn pl(s: &str) -> Vec<L> { if s == "-" { vec![] } else { s.split(',').map(|t| u64::from_str_radix(t, 16).unwrap_or(0)).collect() } }
fn px(s: &str) -> u64 { u64::from_str_radix(s, 16).unwrap_or(0) }
fn pd(s: &str) -> usize { s.parse().unwrap_or(0) }
fn fb(b: bool) -> &'static str { if b { "t" } else { "f" } }
fn ford(o: std::cmp::Ordering) -> &'static str { match o { std::cmp::Ordering::Less => "lt", std::cmp::Ordering::Equal => "eq", std::cmp::Ordering::Greater => "gt" } }
fn g<F: FnOnce() -> String>(f: F) -> String {
    match std::panic::catch_unwind(std::panic::AssertUnwindSafe(f)) {
        Ok(s) => s,
        Err(e) => {
            // SJH_PANICMSG=1: show why (debugging aid; the observation is just `P`)
            if std::env::var_os("SJH_PANICMSG").is_some() {
                let m = e.downcast_ref::<String>().cloned().or_else(|| e.downcast_ref::<&str>().map(|s| s.to_string())).unwrap_or_default();
                eprintln!("panic: {}", m);
            }
            "P".into()
        }
    }
}

/// run one operation on the implementation
fn eval(op: &str, a: &[&str]) -> String {
    let need = |n: usize| a.len() >= n;
    match op {
        "bits" => format!("{}", std::mem::size_of::<om::Limb>() * 8),
        "cutoff" => format!("{}", om::large::KARATSUBA_CUTOFF),
        // ---- scalar
        "s.add" if need(2) => { let t = om::scalar::add(px(a[0]), px(a[1])); format!("{:x}:{}", t.0, fb(t.1)) }
        "s.iadd" if need(2) => { let mut x = px(a[0]); let c = om::scalar::iadd(&mut x, px(a[1])); format!("{:x}:{}", x, fb(c)) }
        "s.sub" if need(2) => { let t = om::scalar::sub(px(a[0]), px(a[1])); format!("{:x}:{}", t.0, fb(t.1)) }
        "s.isub" if need(2) => { let mut x = px(a[0]); let c = om::scalar::isub(&mut x, px(a[1])); format!("{:x}:{}", x, fb(c)) }
        "s.mul" if need(3) => { let t = om::scalar::mul(px(a[0]), px(a[1]), px(a[2])); format!("{:x}:{:x}", t.0, t.1) }
        "s.imul" if need(3) => { let mut x = px(a[0]); let c = om::scalar::imul(&mut x, px(a[1]), px(a[2])); format!("{:x}:{:x}", x, c) }
        // ---- small
        "iadd_impl" if need(3) => g(|| { let mut x = pl(a[0]); om::small::iadd_impl(&mut x, px(a[1]), pd(a[2])); fl(&x) }),
        "iadd" if need(2) => g(|| { let mut x = pl(a[0]); om::small::iadd(&mut x, px(a[1])); fl(&x) }),
        "isub_impl" if need(3) => g(|| { let mut x = pl(a[0]); om::small::isub_impl(&mut x, px(a[1]), pd(a[2])); fl(&x) }),
        "imul" if need(2) => g(|| { let mut x = pl(a[0]); om::small::imul(&mut x, px(a[1])); fl(&x) }),
        "mul" if need(2) => g(|| fl(&om::small::mul(&pl(a[0]), px(a[1])))),
        "imul_pow5" if need(2) => g(|| { let mut x = pl(a[0]); om::small::imul_pow5(&mut x, pd(a[1]) as u32); fl(&x) }),
        "lz" if need(1) => g(|| format!("{}", om::small::leading_zeros(&pl(a[0])))),
        "bit_length" if need(1) => g(|| format!("{}", om::small::bit_length(&pl(a[0])))),
        "ishl_bits" if need(2) => g(|| { let mut x = pl(a[0]); om::small::ishl_bits(&mut x, pd(a[1])); fl(&x) }),
        "ishl_limbs" if need(2) => g(|| { let mut x = pl(a[0]); om::small::ishl_limbs(&mut x, pd(a[1])); fl(&x) }),
        "ishl" if need(2) => g(|| { let mut x = pl(a[0]); om::small::ishl(&mut x, pd(a[1])); fl(&x) }),
        "normalize" if need(1) => g(|| { let mut x = pl(a[0]); om::small::normalize(&mut x); fl(&x) }),
        // ---- large
        "compare" if need(2) => g(|| ford(om::large::compare(&pl(a[0]), &pl(a[1]))).to_string()),
        "less" if need(2) => g(|| fb(om::large::less(&pl(a[0]), &pl(a[1]))).to_string()),
        "ge" if need(2) => g(|| fb(om::large::greater_equal(&pl(a[0]), &pl(a[1]))).to_string()),
        "l.iadd_impl" if need(3) => g(|| { let mut x = pl(a[0]); om::large::iadd_impl(&mut x, &pl(a[1]), pd(a[2])); fl(&x) }),
        "l.iadd" if need(2) => g(|| { let mut x = pl(a[0]); om::large::iadd(&mut x, &pl(a[1])); fl(&x) }),
        "l.add" if need(2) => g(|| fl(&om::large::add(&pl(a[0]), &pl(a[1])))),
        "l.isub" if need(2) => g(|| { let mut x = pl(a[0]); om::large::isub(&mut x, &pl(a[1])); fl(&x) }),
        "l.imul" if need(2) => g(|| { let mut x = pl(a[0]); om::large::imul(&mut x, &pl(a[1])); fl(&x) }),
        "long_mul" if need(2) => g(|| fl(&om::large::long_mul(&pl(a[0]), &pl(a[1])))),
        "ksplit" if need(2) => g(|| { let z = pl(a[0]); let (lo, hi) = om::large::karatsuba_split(&z, pd(a[1])); format!("{}:{}", fl(lo), fl(hi)) }),
        "kmul" if need(2) => g(|| fl(&om::large::karatsuba_mul(&pl(a[0]), &pl(a[1])))),
        "kuneven" if need(2) => g(|| fl(&om::large::karatsuba_uneven_mul(&pl(a[0]), &pl(a[1])))),
        "kfwd" if need(2) => g(|| fl(&om::large::karatsuba_mul_fwd(&pl(a[0]), &pl(a[1])))),
        // ---- hi64
        "nonzero" if need(2) => g(|| fb(om::nonzero(&pl(a[0]), pd(a[1]))).to_string()),
        "hi64_1" if need(1) => g(|| { let t = om::u64_to_hi64_1(px(a[0])); format!("{:x}:{}", t.0, fb(t.1)) }),
        "hi64_2" if need(2) => g(|| { let t = om::u64_to_hi64_2(px(a[0]), px(a[1])); format!("{:x}:{}", t.0, fb(t.1)) }),
        "hi64" if need(1) => g(|| { let x = pl(a[0]); let t = x.as_slice().hi64(); format!("{:x}:{}", t.0, fb(t.1)) }),
        // ---- the trait `Math` over the unmodified sources
        "t.from_u64" if need(1) => g(|| fl(&RB::from_u64(px(a[0])).data)),
        "t.normalize" if need(1) => g(|| { let mut b = RB { data: pl(a[0]) }; b.normalize(); fl(&b.data) }),
        "t.iadd_small" if need(2) => g(|| { let mut b = RB { data: pl(a[0]) }; b.iadd_small(px(a[1])); fl(&b.data) }),
        "t.imul_small" if need(2) => g(|| { let mut b = RB { data: pl(a[0]) }; b.imul_small(px(a[1])); fl(&b.data) }),
        "t.imul_pow2" if need(2) => g(|| { let mut b = RB { data: pl(a[0]) }; b.imul_pow2(pd(a[1]) as u32); fl(&b.data) }),
        "t.imul_pow5" if need(2) => g(|| { let mut b = RB { data: pl(a[0]) }; b.imul_pow5(pd(a[1]) as u32); fl(&b.data) }),
        "t.imul_pow10" if need(2) => g(|| { let mut b = RB { data: pl(a[0]) }; b.imul_pow10(pd(a[1]) as u32); fl(&b.data) }),
        "t.ishl" if need(2) => g(|| { let mut b = RB { data: pl(a[0]) }; b.ishl(pd(a[1])); fl(&b.data) }),
        "t.compare" if need(2) => g(|| ford(RB { data: pl(a[0]) }.compare(&RB { data: pl(a[1]) })).to_string()),
        "t.hi64" if need(1) => g(|| { let t = RB { data: pl(a[0]) }.hi64(); format!("{:x}:{}", t.0, fb(t.1)) }),
        "t.bit_length" if need(1) => g(|| format!("{}", RB { data: pl(a[0]) }.bit_length())),
        // ---- bhcomp.rs on limb vectors (`d` = f64, `f` = f32)
        "seq.mant" if need(3) => g(|| {
            let (i, f) = (unhexd(a[1]), unhexd(a[2]));
            let b = if a[0] == "f" { open::lexical::bhcomp::parse_mantissa::<f32>(&i, &f) } else { open::lexical::bhcomp::parse_mantissa::<f64>(&i, &f) };
            fl(&b.data)
        }),
        "seq.large" if need(3) => g(|| {
            let m = open::lexical::bignum::Bigint { data: pl(a[1]) };
            let e: i32 = a[2].parse().unwrap_or(0);
            if a[0] == "f" { format!("{:x}", open::lexical::bhcomp::large_atof::<f32>(m, e).to_bits()) } else { format!("{:x}", open::lexical::bhcomp::large_atof::<f64>(m, e).to_bits()) }
        }),
        "seq.small" if need(4) => g(|| {
            let m = open::lexical::bignum::Bigint { data: pl(a[1]) };
            let e: i32 = a[2].parse().unwrap_or(0);
            if a[0] == "f" { format!("{:x}", open::lexical::bhcomp::small_atof::<f32>(m, e, f32::from_bits(px(a[3]) as u32)).to_bits()) }
            else { format!("{:x}", open::lexical::bhcomp::small_atof::<f64>(m, e, f64::from_bits(px(a[3]))).to_bits()) }
        }),
        "seq.bhcomp" if need(5) => g(|| {
            let (i, f) = (unhexd(a[2]), unhexd(a[3]));
            let e: i32 = a[4].parse().unwrap_or(0);
            if a[0] == "f" { format!("{:x}", open::lexical::bhcomp::bhcomp::<f32>(f32::from_bits(px(a[1]) as u32), &i, &f, e).to_bits()) }
            else { format!("{:x}", open::lexical::bhcomp::bhcomp::<f64>(f64::from_bits(px(a[1])), &i, &f, e).to_bits()) }
        }),
        _ => "BADOP".into(),
    }
}
fn unhexd(s: &str) -> Vec<u8> { if s == "-" { vec![] } else { unhex(s) } }

fn emit(sink: &mut Sink, op: &str, args: &[String], tag: &str) {
    let mut toks: Vec<&str> = vec![op];
    for s in args { toks.push(s); }
    let obs = eval(op, &toks[1..]);
    let t = if obs == "P" { format!("lm:{}:panic", op) } else { format!("lm:{}:{}", op, tag) };
    sink.case("lm", &toks, &obs, &t, true);
}

pub fn replay(sink: &mut Sink, toks: &[&str]) {
    if toks.len() < 2 { return; }
    let args: Vec<String> = toks[2..].iter().map(|s| s.to_string()).collect();
    emit(sink, toks[1], &args, "replay");
}

// ------------------------------------------------------------------ generators
const EDGE: &[u64] = &[0, 1, 2, 5, 10, 0x7fffffffffffffff, 0x8000000000000000, 0x8000000000000001, 0xfffffffffffffffe, 0xffffffffffffffff,
    0xffffffff, 0x100000000, 10000000000000000000, 7450580596923828125, 1000000000000000000];

fn limb(r: &mut Rng) -> u64 {
    match r.below(8) { 0 | 1 => *r.pick(EDGE), 2 => r.next() >> (r.below(64) as u32), 3 => 1u64 << r.below(64), 4 => !(r.next() >> (1 + r.below(63) as u32)), _ => r.next() }
}
fn nz(r: &mut Rng) -> u64 { loop { let x = limb(r); if x != 0 { return x; } } }

/// a limb vector of length `n`: 0 random, 1 all ones, 2 all ones but the top, 3 zeros below a non-zero top,
/// 4 low half zero, 5 high half ones, 6 edge limbs, 7 random with a zero top (not normalised)
fn vec_kind(r: &mut Rng, n: usize, kind: usize) -> Vec<u64> {
    if n == 0 { return vec![]; }
    let mut v: Vec<u64> = match kind {
        1 => vec![u64::MAX; n],
        2 => { let mut v = vec![u64::MAX; n]; v[n - 1] = nz(r); v }
        3 => { let mut v = vec![0; n]; v[n - 1] = nz(r); v }
        4 => (0..n).map(|i| if i < n / 2 { 0 } else { r.next() }).collect(),
        5 => (0..n).map(|i| if i < n / 2 { r.next() } else { u64::MAX }).collect(),
        6 => (0..n).map(|_| *r.pick(EDGE)).collect(),
        _ => (0..n).map(|_| r.next()).collect(),
    };
    if kind == 7 { v[n - 1] = 0; } else if v[n - 1] == 0 && kind != 6 { v[n - 1] = nz(r); }
    v
}
fn len_small(r: &mut Rng) -> usize { match r.below(10) { 0 => 0, 1 | 2 => 1, 3 | 4 => 2, 5 => 3, 6 => 4, 7 => 5, _ => 6 + r.below(14) } }
fn anyvec(r: &mut Rng) -> Vec<u64> { let n = len_small(r); let k = r.below(9); vec_kind(r, n, k) }
fn normvec(r: &mut Rng) -> Vec<u64> { let n = len_small(r); let k = r.below(7); let mut v = vec_kind(r, n, k); while v.last() == Some(&0) { v.pop(); } v }
fn s(x: u64) -> String { format!("{:x}", x) }
fn d<T: std::fmt::Display>(x: T) -> String { format!("{}", x) }

fn f64_parts(bits: u64) -> (u64, i32) {
    let be = ((bits >> 52) & 0x7ff) as i32; let f = bits & 0xfffffffffffff;
    if be == 0 { (f, -1074) } else { (f | (1 << 52), be - 1075) }
}
fn f32_parts(bits: u32) -> (u64, i32) {
    let be = ((bits >> 23) & 0xff) as i32; let f = (bits & 0x7fffff) as u64;
    if be == 0 { (f, -149) } else { (f | (1 << 23), be - 150) }
}

pub fn run(sink: &mut Sink, thorough: bool, seed: u64) {
    let mut r = Rng::new(seed ^ 0x6c696d6273);
    let r = &mut r;
    let k = if thorough { 12 } else { 1 };
    emit(sink, "bits", &[], "const");
    emit(sink, "cutoff", &[], "const");
    // ---- scalar: all pairs of edge limbs, random
    for &x in EDGE { for &y in EDGE {
        for op in ["s.add", "s.iadd", "s.sub", "s.isub"] { emit(sink, op, &[s(x), s(y)], "edge"); }
        for &c in &[0u64, 1, u64::MAX] { emit(sink, "s.mul", &[s(x), s(y), s(c)], "edge"); emit(sink, "s.imul", &[s(x), s(y), s(c)], "edge"); }
    } }
    for _ in 0..300 * k {
        let (x, y, c) = (limb(r), limb(r), limb(r));
        for op in ["s.add", "s.sub"] { emit(sink, op, &[s(x), s(y)], "rand"); }
        emit(sink, "s.mul", &[s(x), s(y), s(c)], "rand");
    }
    // ---- small: carries rippling over many limbs, every start index
    for n in 0..8usize { for kind in 0..8 { for _ in 0..2 * k {
        let x = vec_kind(r, n, kind);
        for st in 0..=n + 1 {
            let y = limb(r);
            emit(sink, "iadd_impl", &[fl(&x), s(y), d(st)], &format!("k{}", kind));
            emit(sink, "isub_impl", &[fl(&x), s(y), d(st)], &format!("k{}", kind));
        }
        emit(sink, "iadd_impl", &[fl(&x), s(1), d(0)], "ripple");
        emit(sink, "isub_impl", &[fl(&x), s(1), d(0)], "ripple");
    } } }
    for n in [20usize, 40] { let x = vec![u64::MAX; n]; emit(sink, "iadd", &[fl(&x), s(1)], "ripple-long"); let mut y = vec![0u64; n]; y.push(1); emit(sink, "isub_impl", &[fl(&y), s(1), d(0)], "ripple-long"); }
    for _ in 0..400 * k {
        let x = anyvec(r); let y = limb(r);
        emit(sink, "iadd", &[fl(&x), s(y)], "rand");
        emit(sink, "imul", &[fl(&x), s(y)], "rand");
        emit(sink, "mul", &[fl(&x), s(y)], "rand");
        emit(sink, "normalize", &[fl(&x)], "rand");
        emit(sink, "lz", &[fl(&x)], "rand");
        emit(sink, "bit_length", &[fl(&x)], "rand");
        emit(sink, "hi64", &[fl(&x)], if x.last() == Some(&0) { "unnormalised" } else { "rand" });
        let ri = r.below(x.len() + 1); emit(sink, "nonzero", &[fl(&x), d(ri)], "rand");
        emit(sink, "t.normalize", &[fl(&x)], "rand");
        emit(sink, "t.iadd_small", &[fl(&x), s(y)], "rand");
        emit(sink, "t.imul_small", &[fl(&x), s(y)], "rand");
        emit(sink, "t.hi64", &[fl(&x)], "rand");
        emit(sink, "t.bit_length", &[fl(&x)], "rand");
    }
    // ---- shifts: every bit count on short vectors; multiples of 64 ± 1
    for n in 0..5usize { for kind in [0usize, 1, 3, 6] { let x = vec_kind(r, n, kind);
        for b in 0..64 { emit(sink, "ishl_bits", &[fl(&x), d(b)], &format!("k{}", kind)); }
        for q in 0..4usize { for dlt in [-1i64, 0, 1] { let sh = (64 * q as i64 + dlt).max(0) as usize;
            emit(sink, "ishl", &[fl(&x), d(sh)], "mult64"); emit(sink, "t.ishl", &[fl(&x), d(sh)], "mult64"); emit(sink, "t.imul_pow2", &[fl(&x), d(sh)], "mult64"); } }
        for q in 1..4usize { emit(sink, "ishl_limbs", &[fl(&x), d(q)], "limbs"); }
    } }
    for _ in 0..300 * k { let x = anyvec(r); let sh = match r.below(3) { 0 => r.below(64), 1 => 64 * r.below(20) + r.below(3), _ => r.below(1400) };
        emit(sink, "ishl", &[fl(&x), d(sh)], "rand"); emit(sink, "ishl_bits", &[fl(&x), d(sh % 64)], "rand"); }
    // ---- hi64 of 1..5 limbs with and without sticky bits
    for n in 1..=5usize { for lzs in [0usize, 1, 31, 32, 63] { for sticky in 0..4 {
        let mut x = vec![0u64; n];
        x[n - 1] = (r.next() | (1 << 63)) >> lzs;
        if n >= 2 { x[n - 2] = match sticky { 0 => 0, 1 => 1u64 << (63 - lzs.min(63)), 2 => if lzs == 0 { 0 } else { 1u64 << (64 - lzs) >> 1 }, _ => r.next() }; }
        if n >= 3 && sticky == 2 { x[0] = 1; }
        if n >= 3 && sticky == 3 { x[n - 3] = r.next(); }
        emit(sink, "hi64", &[fl(&x), ], &format!("n{}-s{}", n, sticky)); emit(sink, "t.hi64", &[fl(&x)], &format!("n{}-s{}", n, sticky));
        if n >= 2 { emit(sink, "hi64_2", &[s(x[n - 1]), s(x[n - 2])], "direct"); }
        emit(sink, "hi64_1", &[s(x[n - 1])], "direct");
    } } }
    emit(sink, "hi64_1", &[s(0)], "zero"); emit(sink, "hi64_2", &[s(0), s(5)], "zero");
    for &x in EDGE { emit(sink, "t.from_u64", &[s(x)], "edge"); }
    // ---- compare / add / sub
    for _ in 0..400 * k {
        let x = normvec(r);
        let y = match r.below(5) { 0 => x.clone(), 1 => { let mut y = x.clone(); if !y.is_empty() { let i = r.below(y.len()); y[i] = y[i].wrapping_add(1); if y.last() == Some(&0) { let l = y.len(); y[l - 1] = 1; } } y }, _ => normvec(r) };
        for op in ["compare", "less", "ge", "t.compare"] { emit(sink, op, &[fl(&x), fl(&y)], "norm"); }
        emit(sink, "l.iadd", &[fl(&x), fl(&y)], "norm"); emit(sink, "l.add", &[fl(&x), fl(&y)], "norm");
        let (big, sml) = if om::large::compare(&x, &y) == std::cmp::Ordering::Less { (&y, &x) } else { (&x, &y) };
        emit(sink, "l.isub", &[fl(big), fl(sml)], "ordered");
        let z = anyvec(r); let w = anyvec(r);
        emit(sink, "compare", &[fl(&z), fl(&w)], "any"); emit(sink, "l.add", &[fl(&z), fl(&w)], "any");
        let st = r.below(z.len() + 2); emit(sink, "l.iadd_impl", &[fl(&z), fl(&w), d(st)], if st > z.len() { "past-end" } else { "any" });
        if r.chance(1, 4) { emit(sink, "l.isub", &[fl(&z), fl(&w)], "unordered"); }
    }
    for n in [3usize, 8, 33] { let x = vec![u64::MAX; n]; emit(sink, "l.add", &[fl(&x), fl(&x)], "ripple"); emit(sink, "l.add", &[fl(&x), fl(&[1])], "ripple"); emit(sink, "l.iadd_impl", &[fl(&x), fl(&[u64::MAX]), d(1)], "ripple");
        let mut y = vec![0u64; n]; y.push(1); emit(sink, "l.isub", &[fl(&y), fl(&[1])], "ripple"); emit(sink, "l.isub", &[fl(&y), fl(&x)], "ripple"); }
    // ---- multiplication: schoolbook on short vectors
    for _ in 0..150 * k { let x = anyvec(r); let y = anyvec(r);
        emit(sink, "long_mul", &[fl(&x), fl(&y)], if y.is_empty() { "empty-y" } else { "short" });
        emit(sink, "l.imul", &[fl(&x), fl(&y)], "short"); emit(sink, "kfwd", &[fl(&x), fl(&y)], "short"); }
    // ---- Karatsuba: lengths around the cutoff, balanced / uneven, adversarial contents
    let cut = om::large::KARATSUBA_CUTOFF;
    let mut pairs: Vec<(usize, usize)> = vec![];
    for ly in [cut - 1, cut, cut + 1, cut + 2, 2 * cut - 1, 2 * cut, 2 * cut + 1, 2 * cut + 3] {
        for lx in [1usize, 2, ly / 2 - 1, ly / 2, ly / 2 + 1, ly - 1, ly, ly + 1] { pairs.push((lx, ly)); }
    }
    if thorough { for ly in [3 * cut + 1, 4 * cut + 2, 5 * cut, 150] { for lx in [1, 7, ly / 4, ly / 2 - 1, ly / 2, ly - 3, ly] { pairs.push((lx, ly)); } } }
    for &(lx, ly) in &pairs { for kind in [0usize, 1, 2, 5, 3] {
        if !thorough && kind >= 2 && r.chance(1, 2) { continue; }
        let x = vec_kind(r, lx, kind); let y = vec_kind(r, ly, if kind == 3 { 0 } else { kind });
        emit(sink, "kmul", &[fl(&x), fl(&y)], &format!("k{}", kind));
        if kind == 0 { emit(sink, "l.imul", &[fl(&x), fl(&y)], "kara"); emit(sink, "long_mul", &[fl(&x), fl(&y)], "kara"); }
        if lx < ly / 2 { emit(sink, "kuneven", &[fl(&x), fl(&y)], &format!("k{}", kind)); }
    } }
    // low half of an operand zero: z0 is empty and `iadd_impl(&mut result, &z1, m)` starts past its end
    for (lx, ly) in [(cut + 1, cut + 1), (cut / 2 + 1, cut + 2), (cut + 4, 2 * cut)] {
        let x = vec_kind(r, lx, 4); let y = vec_kind(r, ly, 0);
        emit(sink, "kmul", &[fl(&x), fl(&y)], "low-half-zero"); emit(sink, "kmul", &[fl(&y), fl(&x)], "low-half-zero"); emit(sink, "l.imul", &[fl(&x), fl(&y)], "low-half-zero");
    }
    // the witnesses of Props.C07.c07_karatsuba_panics, replayed on the crate
    emit(sink, "kmul", &[fl(&vec![1u64; 32]), fl(&vec![1u64; 65])], "witness");
    emit(sink, "kmul", &[fl(&[vec![0u64; 17], vec![1u64; 16]].concat()), fl(&vec![1u64; 33])], "witness");
    emit(sink, "t.imul_pow5", &[fl(&vec![1u64; 37]), d(2048)], "witness");
    emit(sink, "kmul", &[fl(&vec![u64::MAX; 33]), fl(&vec![u64::MAX; 33])], "witness-ok");
    emit(sink, "kmul", &[fl(&[]), fl(&vec_kind(r, cut + 1, 0))], "empty-x");
    emit(sink, "kuneven", &[fl(&[]), fl(&[1, 2, 3])], "empty-x");
    for m in 0..5usize { emit(sink, "ksplit", &[fl(&[1, 2, 3]), d(m)], "split"); }
    // ---- powers of five: both paths of imul_pow5, frontier of the path choice (x.len() + large_powers[..].len() vs 64)
    for _ in 0..60 * k { let x = normvec(r); let n = match r.below(4) { 0 => r.below(28), 1 => 27 * r.below(6) + r.below(3), 2 => r.below(1200), _ => r.below(400) };
        for op in ["imul_pow5", "t.imul_pow5", "t.imul_pow10"] { emit(sink, op, &[fl(&x), d(n)], "small-path"); } }
    for (lx, n) in [(25usize, 1024usize), (26, 1024), (27, 1025), (44, 512), (45, 511), (45, 512), (53, 300), (54, 256), (54, 255), (58, 200), (59, 128), (60, 100), (61, 64), (62, 33), (63, 1), (63, 5), (64, 0), (1, 2048), (1, 4097), (3, 8191), (2, 16383), (1, 16384), (1, 1 << 20), (0, 2048), (0, 3)] {
        let x = vec_kind(r, lx, 0);
        for op in ["imul_pow5", "t.imul_pow5"] { emit(sink, op, &[fl(&x), d(n)], "frontier"); }
    }
    { let x = vec_kind(r, 40, 4); emit(sink, "t.imul_pow5", &[fl(&x), d(1024)], "low-half-zero"); }
    // ---- bhcomp.rs sequences
    let nseq = if thorough { 1500 } else { 160 };
    for i in 0..nseq {
        let single = i % 3 == 2;
        let ty = if single { "f" } else { "d" };
        let (m, e, bbits) = if single { let b = (((1 + r.below(253)) as u32) << 23) | ((r.next() as u32) & 0x7fffff); let (m, e) = f32_parts(b); (m, e, b as u64) }
                            else { let be = match i % 4 { 0 => 1 + r.below(2045) as u64, 1 => 1 + r.below(60) as u64, 2 => 1985 + r.below(60) as u64, _ => 1000 + r.below(140) as u64 };
                                   let b = (be << 52) | (r.next() & 0xfffffffffffff); let (m, e) = f64_parts(b); (m, e, b) };
        // the exact midpoint above b, perturbed / extended / cut
        let (dg, x) = crate::c07::exact_decimal(2 * m + 1, e - 1);
        let mut digits = dg.clone(); let mut xe = x;
        match r.below(6) {
            0 => {}
            1 => { let l = digits.len() - 1; let mut b = digits.into_bytes(); b[l] = if b[l] == b'9' { b'8' } else { b[l] + 1 }; digits = String::from_utf8(b).unwrap(); }
            2 => { let l = digits.len() - 1; let mut b = digits.into_bytes(); b[l] = if b[l] == b'0' { b'1' } else { b[l] - 1 }; digits = String::from_utf8(b).unwrap(); }
            3 => { let z = r.below(if single { 130 } else { 800 }); digits.push_str(&"0".repeat(z)); digits.push('1'); xe -= z as i32 + 1; }
            4 => { let z = r.below(30); digits.push_str(&"0".repeat(z)); xe -= z as i32; }
            _ => { let kk = 1 + r.below(digits.len().min(40)); xe += (digits.len() - kk) as i32; digits.truncate(kk); }
        }
        let split = match r.below(3) { 0 => digits.len(), 1 => 0, _ => r.below(digits.len() + 1) };
        let (ip, fp) = digits.split_at(split);
        let fp = fp.trim_end_matches('0'); // precondition of bhcomp: no trailing zeros in the fraction
        let exp = xe + (digits.len() - split) as i32;
        let ih = hexf(ip.as_bytes()); let fh = hexf(fp.as_bytes());
        emit(sink, "seq.mant", &[ty.into(), ih.clone(), fh.clone()], if ip.len() + fp.len() > if single { 113 } else { 768 } { "truncated" } else { "all-digits" });
        emit(sink, "seq.bhcomp", &[ty.into(), s(bbits), ih.clone(), fh.clone(), d(exp)], if exp - (fp.len() as i32) >= 0 { "large_atof" } else { "small_atof" });
        // the two halves on a mantissa of our own
        let mant = { let n = 1 + r.below(if single { 6 } else { 40 }); let k = r.below(4); let mut v = vec_kind(r, n, k); while v.last() == Some(&0) { v.pop(); } if v.is_empty() { v.push(1); } v };
        let ex = r.below(if single { 40 } else { 310 }) as i32;
        emit(sink, "seq.large", &[ty.into(), fl(&mant), d(ex)], "rand");
        emit(sink, "seq.small", &[ty.into(), fl(&mant), d(-1 - r.below(if single { 60 } else { 400 }) as i32), s(bbits)], "rand");
    }
    // leading zeros in the digits: the big integer passes through `[0]`
    emit(sink, "seq.mant", &["d".into(), hexf(b"0"), hexf(b"0000000000000000000001234")], "leading-zeros");
    emit(sink, "seq.mant", &["d".into(), hexf(b"0"), hexf(b"00000000000000000000")], "all-zero");
    emit(sink, "seq.mant", &["d".into(), hexf(b""), hexf(b"")], "no-digits");
}
