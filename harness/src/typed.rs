//! The typed TEXT deserializer (`impl Deserializer for &mut serde_json::Deserializer<R>`) under the universal seed
//! of `schema.rs`, on ARBITRARY texts — the Rust side of `lean/SJ/Model/Typed.lean` (`deTypedTop`).
//!
//! `tt <cfg> <src> <schema> <hex text> => OK:<tval> | E:<hex msg>:<category>:<line>:<col> | PANIC`
//! `tt3 <cfg> <schema> <hex text> => <str>|<slice>|<reader>`                      (C09: the three sources side by side)
//! `pfxs <cfg> <src> <schema> <hex doc> => o_0,…,o_n`                               (C10: outcome of every prefix of an accepted text)
//! `rfaults <cfg> <schema> <kind> <k> <hex doc> => <outcome>|<with clean EOF>|<fault delivered>`   (C13: reader failing after k bytes)
#![allow(dead_code)]
use crate::common::*;
use crate::obs::*;
use crate::schema::*;
use serde::de::DeserializeSeed;
use serde_json::{Deserializer, Value};
use std::io::{self, ErrorKind, Read};
use std::panic::{catch_unwind, AssertUnwindSafe};

fn show(r: std::thread::Result<Result<TVal, serde_json::Error>>) -> String {
    match r { Ok(Ok(t)) => format!("OK:{}", enc_tval(&t)), Ok(Err(e)) => show_err(&e), Err(_) => "PANIC".into() }
}

/// `Seed(s).deserialize(&mut Deserializer::from_{str,slice,reader}(b))` then `end()`
pub fn outcome(s: &Schema, src: &str, b: &[u8], sizes: Vec<usize>) -> String {
    show(catch_unwind(AssertUnwindSafe(|| -> Result<TVal, serde_json::Error> {
        match src {
            "str" => { let mut de = Deserializer::from_str(std::str::from_utf8(b).expect("utf8")); let x = Seed(s).deserialize(&mut de)?; de.end()?; Ok(x) }
            "slice" => { let mut de = Deserializer::from_slice(b); let x = Seed(s).deserialize(&mut de)?; de.end()?; Ok(x) }
            _ => { let mut de = Deserializer::from_reader(Chunked::new(b, sizes)); let x = Seed(s).deserialize(&mut de)?; de.end()?; Ok(x) }
        }
    })))
}

/// the same with `disable_recursion_limit()` (feature `unbounded_depth`; configuration tag `…+nolimit`), on a big stack
#[cfg(feature = "ud")]
pub fn outcome_nolimit(s: &Schema, src: &str, b: &[u8], sizes: Vec<usize>) -> String {
    let (s, src, b) = (s.clone(), src.to_string(), b.to_vec());
    std::thread::Builder::new().stack_size(256 << 20).spawn(move || {
        show(catch_unwind(AssertUnwindSafe(|| -> Result<TVal, serde_json::Error> {
            match src.as_str() {
                "str" => { let mut de = Deserializer::from_str(std::str::from_utf8(&b).expect("utf8")); de.disable_recursion_limit(); let x = Seed(&s).deserialize(&mut de)?; de.end()?; Ok(x) }
                "slice" => { let mut de = Deserializer::from_slice(&b); de.disable_recursion_limit(); let x = Seed(&s).deserialize(&mut de)?; de.end()?; Ok(x) }
                _ => { let mut de = Deserializer::from_reader(Chunked::new(&b, sizes)); de.disable_recursion_limit(); let x = Seed(&s).deserialize(&mut de)?; de.end()?; Ok(x) }
            }
        })))
    }).unwrap().join().unwrap_or("PANIC".into())
}
#[cfg(not(feature = "ud"))]
pub fn outcome_nolimit(s: &Schema, src: &str, b: &[u8], sizes: Vec<usize>) -> String { outcome(s, src, b, sizes) }

fn class_of(o: &str) -> &'static str {
    if o.starts_with("OK:") { return "ok"; }
    if o == "PANIC" { return "panic"; }
    let p: Vec<&str> = o.split(':').collect();
    if p.len() == 5 { match p[2] { "syntax" => "syntax", "eof" => "eof", "data" => "data", "io" => "io", _ => "other" } } else { "other" }
}

fn schema_kind(s: &Schema) -> &'static str {
    match s {
        Schema::Bool => "bool", Schema::Int(w) => if w.bits() == 128 { "int128" } else { "int" }, Schema::F64 => "f64", Schema::F32 => "f32", Schema::Char => "char",
        Schema::Str => "string", Schema::Bytes => "bytes", Schema::Option(_) => "option", Schema::Unit => "unit", Schema::UnitStruct => "unitstruct",
        Schema::Newtype(_) => "newtype", Schema::Seq(_) => "seq", Schema::Tuple(_) => "tuple",
        Schema::Map(k, _) => match k { KeyKind::Str => "map-str", KeyKind::Int(_) => "map-int", KeyKind::Bool => "map-bool", KeyKind::Char => "map-char", KeyKind::UnitEnum(_) => "map-enum" },
        Schema::Struct(_, false) => "struct", Schema::Struct(_, true) => "struct-deny", Schema::Enum(_) => "enum", Schema::Ignored => "ignored", Schema::Any => "any",
    }
}

fn chunks(r: &mut Rng) -> Vec<usize> { match r.below(4) { 0 => vec![1], 1 => vec![3], 2 => vec![2, 5], _ => vec![4096] } }

pub fn emit_tt(sink: &mut Sink, cfg: &str, s: &Schema, se: &str, src: &str, b: &[u8], r: &mut Rng, tag: &str) {
    if src == "str" && std::str::from_utf8(b).is_err() { return; }
    let o = if cfg.contains("nolimit") { outcome_nolimit(s, src, b, chunks(r)) } else { outcome(s, src, b, chunks(r)) };
    sink.case("tt", &[cfg, src, se, &hexf(b)], &o, &format!("{}:{}:{}", if tag == "mut" { "mut" } else { "text" }, schema_kind(s), class_of(&o)), b.len() > 1);
}

pub fn emit_tt3(sink: &mut Sink, cfg: &str, s: &Schema, se: &str, b: &[u8], r: &mut Rng, _tag: &str) {
    let o1 = if std::str::from_utf8(b).is_ok() { outcome(s, "str", b, vec![]) } else { "-".into() };
    let o2 = outcome(s, "slice", b, vec![]);
    let o3 = outcome(s, "reader", b, chunks(r));
    let same = class_of(&o2) == class_of(&o3) && o2 == o3;
    sink.case("tt3", &[cfg, se, &hexf(b)], &format!("{}|{}|{}", o1, o2, o3), &format!("3src:{}:{}:{}", schema_kind(s), class_of(&o2), if same { "same" } else { "differ" }), b.len() > 1);
}

// ---------------------------------------------------------------- texts

fn ws(r: &mut Rng, out: &mut String) {
    if r.chance(1, 3) { for _ in 0..1 + r.below(2) { out.push(*r.pick(&[' ', '\n', '\t', '\r'])); } }
}

/// a string literal with alternative escape spellings (`\uXXXX` in either case, surrogate pairs, `\/`)
fn string_lit(s: &str, r: &mut Rng, out: &mut String) {
    out.push('"');
    for c in s.chars() {
        let plain = !(c == '"' || c == '\\' || (c as u32) < 0x20);
        if plain && !r.chance(1, 6) { out.push(c); continue; }
        match c {
            '"' if r.chance(1, 2) => out.push_str("\\\""),
            '\\' if r.chance(1, 2) => out.push_str("\\\\"),
            '\n' if r.chance(1, 2) => out.push_str("\\n"),
            '\t' if r.chance(1, 2) => out.push_str("\\t"),
            '/' if r.chance(1, 2) => out.push_str("\\/"),
            _ => {
                let mut buf = [0u16; 2];
                for u in c.encode_utf16(&mut buf) {
                    if r.chance(1, 2) { out.push_str(&format!("\\u{:04x}", u)); } else { out.push_str(&format!("\\u{:04X}", u)); }
                }
            }
        }
    }
    out.push('"');
}

/// the value written with random whitespace and escape spellings (a different text with the same meaning)
pub fn spaced(v: &Value, r: &mut Rng, out: &mut String) {
    match v {
        Value::Null => out.push_str("null"),
        Value::Bool(b) => out.push_str(if *b { "true" } else { "false" }),
        Value::Number(n) => out.push_str(&n.to_string()),
        Value::String(s) => string_lit(s, r, out),
        Value::Array(xs) => {
            out.push('['); ws(r, out);
            for (i, x) in xs.iter().enumerate() { if i > 0 { ws(r, out); out.push(','); ws(r, out); } spaced(x, r, out); }
            ws(r, out); out.push(']');
        }
        Value::Object(m) => {
            out.push('{'); ws(r, out);
            for (i, (k, x)) in m.iter().enumerate() {
                if i > 0 { ws(r, out); out.push(','); ws(r, out); }
                string_lit(k, r, out); ws(r, out); out.push(':'); ws(r, out); spaced(x, r, out);
            }
            ws(r, out); out.push('}');
        }
    }
}

const ALPH: &[u8] = b"[]{},:\"\\ntf019-+.eE \nx/u\x00\x1f\x7f\x80\xff";

/// truncations, deletions, substitutions and insertions of `t` (bounded per text by `budget`)
fn mutations(t: &[u8], r: &mut Rng, thorough: bool) -> Vec<Vec<u8>> {
    let mut out: Vec<Vec<u8>> = vec![];
    let n = t.len();
    // every truncation (sampled for long texts)
    for k in 0..n { if n <= 64 || r.chance(64, n as u64) { out.push(t[..k].to_vec()); } }
    // every single-byte deletion (sampled for long texts)
    for k in 0..n { if n <= 40 || r.chance(40, n as u64) { let mut m = t.to_vec(); m.remove(k); out.push(m); } }
    // substitutions: each position, some bytes of the structural alphabet
    let per = if thorough { 6 } else { 2 };
    for k in 0..n {
        if n > 48 && !r.chance(48, n as u64) { continue; }
        for _ in 0..per { let mut m = t.to_vec(); m[k] = *r.pick(ALPH); if m != t { out.push(m); } }
    }
    // insertions
    for _ in 0..(if thorough { 8 } else { 3 }) { let k = r.below(n + 1); let mut m = t.to_vec(); m.insert(k, *r.pick(ALPH)); out.push(m); }
    out
}

fn seq_n(n: usize, leaf: Schema) -> Schema { let mut s = leaf; for _ in 0..n { s = Schema::Seq(Box::new(s)); } s }

/// hand-written (schema, text) pairs: every end-of-container check, `null` prefixes, quoted keys, struct from array,
/// enum closing brace, depth budget shared with nested values
fn crafted() -> Vec<(Schema, Vec<u8>)> {
    let mut v: Vec<(String, String)> = vec![];
    for t in ["[true,]", "[true ,]", "[true , ]", "[true", "[true,", "[true ,false]", "[true] x", "[,]", "[]", "[ ]", "[true false]", "[true,,false]", " [ true , false ] "] {
        v.push(("Qb".into(), t.into())); v.push(("T1;b".into(), t.into())); v.push(("T2;bb".into(), t.into())); v.push(("T0;".into(), t.into()));
        v.push(("S01;61;b".into(), t.into())); v.push(("S02;61;b62;Ob".into(), t.into())); v.push(("y".into(), t.into()));
    }
    for t in ["nul", "nulx", "null", " null ", "n", "nULL", "nullx", "true", "tru", "-", "", " "] {
        for s in ["Ob", "OOb", "Ou", "u", "U", "b", "OiA", "x", "a", "Os", "Oy", "OQb"] { v.push((s.into(), t.into())); }
    }
    for t in ["{\"1\":true}", "{\"1:true}", "{\"1x\":true}", "{\"1 \":true}", "{\" 1\":true}", "{\"-\":true}", "{\"", "{\"1", "{\"1\"", "{\"-", "{\"01\":true}", "{\"1.5\":true}", "{\"1e2\":true}",
              "{\"256\":true}", "{\"-1\":true}", "{\"\":true}", "{\"a\":true}", "{1:true}", "{\"1\":true,}", "{\"1\":true,\"2\"}", "{\"1\" true}", "{\"1\":true \"2\":false}", "{}", "{ }", "{,}",
              "{\"true\":true}", "{\"false\":false}", "{\"truex\":true}", "{\"tru\":true}", "{\"t", "{\"true", "{\"true\"", "{\"\\u0074rue\":true}", "{\"\u{e9}\":true}", "{\"x\\\"y\":true}", "{\"ab\":true}"] {
        for s in ["MiAb", "Mieb", "MiEb", "Midb", "Mbb", "Mcb", "Msb", "Me2;74727565;61;b", "S01;61;b", "S11;61;b", "S01;74727565;b"] { v.push((s.into(), t.into())); }
    }
    for t in ["\"V\"", "\"W\"", "\"X\"", "{\"V\":true}", "{\"V\":true ,}", "{\"V\":true,}", "{\"V\":true}x", "{\"V\":true", "{\"V\":true ", "{\"V\"", "{\"V\":", "{\"V\" true}", "{\"W\":null}", "{\"W\":1}", "{\"W\":null,\"V\":true}",
              "{\"T\":[true,1]}", "{\"T\":[true]}", "{\"T\":[true,1,2]}", "{\"T\":[true,1,]}", "{\"T\":[]}", "{\"S\":{\"x\":1}}", "{\"S\":[1]}", "{\"S\":{}}", "{\"S\":{\"x\":1,\"x\":2}}", "{\"S\":{\"y\":1,\"x\":2}}", "\"T\"", "\"S\"",
              "{}", "{ }", "{1:2}", "[]", "1", "null", "{\"X\":1}", "{\"V\":true}}", " { \"V\" : true } "] {
        v.push(("E4;56;nb57;u54;t2;biA53;r1;78;iA".into(), t.into()));
    }
    // recursion budget: 127 typed levels are fine, the 128th `[` is not; a nested Value shares the budget
    for k in [1usize, 2, 126, 127, 128, 129] {
        let t = format!("{}{}", "[".repeat(k), "]".repeat(k));
        v.push((enc_schema(&seq_n(130, Schema::Bool)), t.clone()));
        v.push((enc_schema(&seq_n(2, Schema::Any)), t.clone()));
        v.push((enc_schema(&seq_n(100, Schema::Any)), t.clone()));
        v.push((enc_schema(&seq_n(3, Schema::Ignored)), t.clone()));
        v.push(("a".into(), t));
    }
    // bytes: raw strings (no UTF-8 validation, lone surrogates in WTF-8), arrays of u8
    for t in ["\"a\\ud800b\"", "\"\\ud800\\n\"", "\"\\ud800\\udc00\"", "\"\\ud800\\ud800\\udc00\"", "\"\\udc00\"", "\"\\ud800\\u0041\"", "\"\\ud800\\", "\"\\ud800\\x\"", "\"\\ud80\"", "\"a\u{1}b\"", "[1,2,255]", "[256]", "[1,\"a\"]", "[1.0]", "[-1]"] {
        v.push(("y".into(), t.into())); v.push(("s".into(), t.into())); v.push(("Oy".into(), t.into()));
    }
    let mut out: Vec<(Schema, Vec<u8>)> = v.into_iter().map(|(s, t)| (dec_schema(&s), t.into_bytes())).collect();
    // invalid UTF-8 inside strings (byte sources): validated targets reject, bytes accept
    for s in ["s", "y", "c", "a", "x", "Msb"] { out.push((dec_schema(s), b"\"a\xffb\"".to_vec())); out.push((dec_schema(s), b"{\"\xc3\":true}".to_vec())); }
    out
}

fn leafy_schemas() -> Vec<Schema> {
    let mut out = vec![Schema::Bool, Schema::F64, Schema::F32, Schema::Char, Schema::Str, Schema::Bytes, Schema::Unit, Schema::UnitStruct, Schema::Ignored, Schema::Any];
    for w in INT_TYS { out.push(Schema::Int(w)); }
    out
}

/// number spellings for the numeric entry points
const NUMS: &[&str] = &["0", "-0", "1", "-1", "01", "-01", "1.", "1.5", "1e5", "1E+5", "1e-5", "1e", "1e+", "-", "255", "256", "-128", "-129", "65536", "4294967296", "9223372036854775807", "9223372036854775808",
    "-9223372036854775808", "-9223372036854775809", "18446744073709551615", "18446744073709551616", "-18446744073709551616", "170141183460469231731687303715884105727", "170141183460469231731687303715884105728",
    "-170141183460469231731687303715884105728", "-170141183460469231731687303715884105729", "340282366920938463463374607431768211455", "340282366920938463463374607431768211456", "1e400", "-1e400", "1e-400",
    "0.1", "16777217", "9007199254740993", "1e39", "3.4028235e38", "3.4028236e38", "1e-46", "0e999999999999", "1e99999999999", "0.000000000000000000000000000000000000000000001", "123456789012345678901234567890", "1.0000000000000000000000001",
    "1 ", " 1", "1x", "1,", "1]", "+1", ".5", "1.5.5", "1ee5", "0x10", "00", "1\n", "\n1\n",
    // negative integers beyond i64 whose digits fit u64: f32 targets must round once (u64 -> f32), not through f64
    "-9223372586610589697", "-9223372552250613761", "-13835058055282163713", "-18446744073709551615", "-9223373136366403585", "9223372586610589697", "18446742974197923841"];

/// one generated text: the cases emitted for it (all sources on the text itself, slice+reader on its mutations)
fn sweep(sink: &mut Sink, cfg: &str, s: &Schema, text: &[u8], r: &mut Rng, thorough: bool, tag: &str, mutate: bool) {
    let se = enc_schema(s);
    for src in ["str", "slice", "reader"] { emit_tt(sink, cfg, s, &se, src, text, r, tag); }
    if r.chance(1, 6) { emit_tt3(sink, cfg, s, &se, text, r, tag); }
    if !mutate { return; }
    for m in mutations(text, r, thorough) {
        emit_tt(sink, cfg, s, &se, "slice", &m, r, "mut");
        emit_tt(sink, cfg, s, &se, "reader", &m, r, "mut");
        if r.chance(1, 4) { emit_tt(sink, cfg, s, &se, "str", &m, r, "mut"); }
        if r.chance(1, 16) { emit_tt3(sink, cfg, s, &se, &m, r, "mut"); }
    }
}

pub fn run_tt(sink: &mut Sink, thorough: bool, seed: u64) {
    let mut r = Rng::new(seed ^ 0x7474);
    let cfg = cfg_tag();
    for (s, t) in crafted() { sweep(sink, &cfg, &s, &t, &mut r, thorough, "crafted", t.len() <= 40); }
    for s in leafy_schemas() {
        for t in NUMS { sweep(sink, &cfg, &s, t.as_bytes(), &mut r, thorough, "num", false); }
        for t in NUMS { let k = format!("{{\"{}\":null}}", t); sweep(sink, &cfg, &Schema::Map(KeyKind::Int(IntTy::I64), Box::new(s.clone())), k.as_bytes(), &mut r, thorough, "num", false); }
    }
    for w in INT_TYS { for t in NUMS { let k = format!("{{\"{}\":1}}", t); sweep(sink, &cfg, &Schema::Map(KeyKind::Int(w), Box::new(Schema::Int(IntTy::U8))), k.as_bytes(), &mut r, thorough, "numkey", false); } }
    let n = if thorough { 12_000 } else { 1_200 };
    for i in 0..n {
        let depth = match i % 8 { 0 => 0, 1 | 2 | 3 => 1, 4 | 5 | 6 => 2, _ => 3 };
        let s = gen_schema(&mut r, depth);
        let v = gen_value_for(&s, &mut r);
        let compact = serde_json::to_string(&v).expect("to_string");
        sweep(sink, &cfg, &s, compact.as_bytes(), &mut r, thorough, "gen", compact.len() <= 80);
        let mut sp = String::new(); spaced(&v, &mut r, &mut sp);
        let mutate_sp = sp.len() <= 60 && r.chance(1, 2);
        if sp != compact { sweep(sink, &cfg, &s, sp.as_bytes(), &mut r, thorough, "spaced", mutate_sp); }
        if r.chance(1, 5) { let w = gen_value(&mut r, 2); let t = serde_json::to_string(&w).unwrap(); sweep(sink, &cfg, &s, t.as_bytes(), &mut r, thorough, "rand", false); }
    }
}

/// C09: the three sources side by side, on texts and mutations (multi-line: positions after newlines)
pub fn run_tt3(sink: &mut Sink, thorough: bool, seed: u64) {
    let mut r = Rng::new(seed ^ 0x337474);
    let cfg = cfg_tag();
    for (s, t) in crafted() { let se = enc_schema(&s); emit_tt3(sink, &cfg, &s, &se, &t, &mut r, "crafted"); }
    let n = if thorough { 6_000 } else { 600 };
    for i in 0..n {
        let s = gen_schema(&mut r, i % 3);
        let se = enc_schema(&s);
        let v = gen_value_for(&s, &mut r);
        let mut sp = String::new(); spaced(&v, &mut r, &mut sp);
        emit_tt3(sink, &cfg, &s, &se, sp.as_bytes(), &mut r, "spaced");
        if sp.len() > 60 { continue; }
        for m in mutations(sp.as_bytes(), &mut r, false) { emit_tt3(sink, &cfg, &s, &se, &m, &mut r, "mut"); }
    }
}

// ---------------------------------------------------------------- C10: typed prefix sweep through the model

fn proj(o: &str) -> String {
    if o.starts_with("OK:") { return "A".into(); }
    let p: Vec<&str> = o.split(':').collect();
    if p.len() == 5 && p[0] == "E" { format!("{}:{}:{}", p[2], p[3], p[4]) } else { o.to_string() }
}

pub fn emit_pfxs(sink: &mut Sink, cfg: &str, s: &Schema, src: &str, doc: &[u8], tag: &str) {
    if src == "str" && std::str::from_utf8(doc).is_err() { return; }
    if proj(&outcome(s, src, doc, vec![2, 5])) != "A" { return; }
    let mut obs = Vec::with_capacity(doc.len() + 1);
    let mut worst = "ok";
    for k in 0..doc.len() {
        if src == "str" && std::str::from_utf8(&doc[..k]).is_err() { obs.push("-".to_string()); continue; }
        let o = proj(&outcome(s, src, &doc[..k], vec![2, 5]));
        if o.starts_with("syntax") || o.starts_with("data") { worst = "non-eof"; }
        obs.push(o);
    }
    obs.push("A".into());
    sink.case("pfxs", &[cfg, src, &enc_schema(s), &hexf(doc)], &obs.join(","), &format!("{}:{}:{}", tag, schema_kind(s), worst), doc.len() > 1);
}

/// the typed targets of `c10.rs` (`pfxt`) as schemas
fn c10_targets(r: &mut Rng) -> Vec<(&'static str, String)> {
    let mut v: Vec<(&'static str, String)> = vec![];
    v.push(("ie", format!("{}", -(r.next() as i128) * (r.next() as i128 >> 1))));
    v.push(("ie", "-170141183460469231731687303715884105728".into())); v.push(("ie", "-0".into())); v.push(("ie", "0".into()));
    v.push(("iE", format!("{}", (r.next() as u128) << 40))); v.push(("iE", "340282366920938463463374607431768211455".into()));
    v.push(("id", format!("{}", r.next() as i64))); v.push(("iA", format!("{}", r.next() as u8)));
    v.push(("d", crate::gen::gen_number_text(r))); v.push(("g", "1.5e3".into())); v.push(("b", "true".into())); v.push(("b", " false ".into()));
    v.push(("s", String::from_utf8_lossy(&crate::gen::gen_string_text(r)).into_owned())); v.push(("c", "\"\\u00e9\"".into())); v.push(("u", "null".into())); v.push(("U", " null".into()));
    v.push(("OQOb", "[null, true,false ]".into())); v.push(("OQOb", "null".into()));
    v.push(("T2;ics", format!("[{}, {}]", r.next() as i32, String::from_utf8_lossy(&crate::gen::gen_string_text(r)))));
    v.push(("QiA", "[1,2, 255 ]".into())); v.push(("y", "[1,2, 255 ]".into())); v.push(("y", "\"a\\ud800\\n\\u00e9\"".into()));
    v.push(("Micb", format!("{{\"{}\":true, \"-7\" : false}}", r.next() as i32)));
    v.push(("MiEu", "{\"340282366920938463463374607431768211455\":null,\"0\":null}".into()));
    v.push(("MieiA", format!("{{\"-{}\":3}}", r.next())));
    v.push(("Mbia", "{\"true\":1,\"false\":-1}".into()));
    v.push(("Msd", "{\"a\":1.5e3,\"b\":-0.0}".into()));
    v.push(("MiDQia", format!("{{\"{}\":[1,-1]}}", r.next())));
    v.push(("Mcc", "{\"a\":\"\\u00e9\"}".into()));
    v.push(("Me2;61;62;b", "{\"a\":true, \"b\" :false}".into()));
    v.push(("S03;61;ic62;Os63;QiA", "{\"a\": -5, \"zzz\": [1.5e3, {\"q\": null}, \"x\\\"y\"], \"c\":[0,9]}".into()));
    v.push(("S03;61;ic62;Os63;QiA", "[1, \"s\", []]".into()));
    v.push(("S13;61;ic62;Os63;QiA", "{\"c\":[], \"a\":1}".into()));
    v.push(("QE4;55;u4e;nid54;t2;iab53;r1;78;iB", "[\"U\",{\"N\":-3},{\"T\":[1,true]},{\"S\":{\"x\":7}}, {\"S\":[8]}]".into()));
    v.push(("Msx", "{\"k\": -1.5e-3, \"l\": [1e5, 0.1, -0, {\"z\":2E+2}]}".into()));
    v.push(("Qa", "[1.5, {\"a\":[null , true]}, \"x\\ud83d\\ude00\"]".into()));
    v.push(("NOT1;x", "[ {\"a\":[1,2]} ]".into()));
    v
}

pub fn run_pfxs(sink: &mut Sink, thorough: bool, seed: u64) {
    let mut r = Rng::new(seed ^ 0x706673);
    let cfg = cfg_tag();
    for _ in 0..(if thorough { 40 } else { 6 }) {
        for (se, d) in c10_targets(&mut r) {
            let s = dec_schema(se);
            for src in ["str", "slice", "reader"] { emit_pfxs(sink, &cfg, &s, src, d.as_bytes(), "typed"); }
        }
    }
    for (s, t) in crafted() { for src in ["slice", "reader"] { emit_pfxs(sink, &cfg, &s, src, &t, "crafted"); } }
    for s in leafy_schemas() { for t in NUMS { for src in ["slice", "reader"] {
        emit_pfxs(sink, &cfg, &s, src, t.as_bytes(), "num");
        let k = format!("{{\"{}\":null}}", t);
        if let Schema::Int(w) = s { emit_pfxs(sink, &cfg, &Schema::Map(KeyKind::Int(w), Box::new(Schema::Unit)), src, k.as_bytes(), "numkey"); }
    } } }
    let n = if thorough { 20_000 } else { 2_000 };
    for i in 0..n {
        let s = gen_schema(&mut r, i % 4);
        let v = gen_value_for(&s, &mut r);
        let compact = serde_json::to_string(&v).unwrap();
        let src = *r.pick(&["str", "slice", "reader"]);
        emit_pfxs(sink, &cfg, &s, src, compact.as_bytes(), "gen");
        let mut sp = String::new(); spaced(&v, &mut r, &mut sp);
        let src = *r.pick(&["str", "slice", "reader"]);
        emit_pfxs(sink, &cfg, &s, src, sp.as_bytes(), "spaced");
    }
}

// ---------------------------------------------------------------- C13: typed reader faults through the model

const KINDS: &[(&str, ErrorKind)] = &[("BrokenPipe", ErrorKind::BrokenPipe), ("TimedOut", ErrorKind::TimedOut),
    ("UnexpectedEof", ErrorKind::UnexpectedEof), ("Other", ErrorKind::Other), ("InvalidData", ErrorKind::InvalidData)];
fn kind_name(k: ErrorKind) -> String { KINDS.iter().find(|x| x.1 == k).map(|x| x.0.to_string()).unwrap_or(format!("{:?}", k)) }

/// delivers data[..k] in chunks (sizes cycled), interleaving Interrupted, then fails with `kind` forever (or ends cleanly)
struct FaultReader<'a> { data: &'a [u8], k: usize, pos: usize, sizes: Vec<usize>, i: usize, kind: ErrorKind, intr: u64, clean: bool, delivered: &'a std::cell::Cell<bool> }
impl<'a> Read for FaultReader<'a> {
    fn read(&mut self, buf: &mut [u8]) -> io::Result<usize> {
        if self.intr % 3 == 1 { self.intr /= 3; return Err(io::Error::new(ErrorKind::Interrupted, "interrupted")); }
        self.intr = self.intr / 3 + 7;
        if self.pos >= self.k && self.clean { return Ok(0); }
        if self.pos >= self.k { self.delivered.set(true); return Err(io::Error::new(self.kind, "injected fault")); }
        if buf.is_empty() { return Ok(0); }
        let want = self.sizes[self.i % self.sizes.len()].max(1); self.i += 1;
        let n = want.min(buf.len()).min(self.k - self.pos);
        buf[..n].copy_from_slice(&self.data[self.pos..self.pos + n]);
        self.pos += n;
        Ok(n)
    }
}

fn fault_outcome(s: &Schema, data: &[u8], k: usize, kind: ErrorKind, sizes: Vec<usize>, intr: u64, clean: bool) -> (String, bool) {
    let delivered = std::cell::Cell::new(false);
    let rd = FaultReader { data, k, pos: 0, sizes, i: 0, kind, intr, clean, delivered: &delivered };
    let o = match catch_unwind(AssertUnwindSafe(|| -> Result<TVal, serde_json::Error> {
        let mut de = Deserializer::from_reader(rd); let x = Seed(s).deserialize(&mut de)?; de.end()?; Ok(x)
    })) {
        Ok(Ok(t)) => format!("OK:{}", enc_tval(&t)),
        Ok(Err(e)) => if e.classify() == serde_json::error::Category::Io { format!("IO:{}", e.io_error_kind().map(kind_name).unwrap_or("?".into())) } else { show_err(&e) },
        Err(_) => "PANIC".into(),
    };
    (o, delivered.get())
}

pub fn emit_rfaults(sink: &mut Sink, cfg: &str, s: &Schema, doc: &[u8], r: &mut Rng, tag: &str) {
    let se = enc_schema(s);
    for k in 0..=doc.len() {
        if doc.len() > 48 && !r.chance(48, doc.len() as u64) && k != doc.len() { continue; }
        let (kn, kind) = *r.pick(KINDS);
        let sizes = chunks(r);
        let intr = r.next() % 729;
        let (o, d) = fault_outcome(s, doc, k, kind, sizes.clone(), intr, false);
        let (oe, _) = fault_outcome(s, doc, k, kind, sizes, intr, true);
        let class = if o.starts_with("IO:") { "io" } else if o.starts_with("E:") { "error-before-fault" } else { "other" };
        sink.case("rfaults", &[cfg, &se, kn, &k.to_string(), &hexf(doc)], &format!("{}|{}|{}", o, oe, d as u8), &format!("{}:{}:{}", tag, schema_kind(s), class), k > 0);
    }
}

pub fn run_rfaults(sink: &mut Sink, thorough: bool, seed: u64) {
    let mut r = Rng::new(seed ^ 0x726673);
    let cfg = cfg_tag();
    // the five typed targets of c13.rs (`rfaultt`) as schemas, on its fixed documents
    let targets: Vec<Schema> = ["T2;icic", "QiA", "MsQid", "OT2;sb", "T3;uuu"].iter().map(|s| dec_schema(s)).collect();
    for d in ["[1,2]", "[1,2,]", "[1,2,3]", " [ 1 , 2 ] ", "{\"a\":[1,2],\"b\":[]}", "\"\\u00e9\\ud83d\\ude00\"", "[1,]", "01", "null", "[[[[1]]]]x", "1.5e3", "{\"a\" 1}", "[\"a\",true]", "[null,null,null]", "[null ,null , null ]", "[1 , ]", "[1 ,"] {
        for s in &targets { emit_rfaults(sink, &cfg, s, d.as_bytes(), &mut r, "doc"); }
    }
    for (s, t) in crafted() { if t.len() <= 24 && r.chance(1, if thorough { 1 } else { 4 }) { emit_rfaults(sink, &cfg, &s, &t, &mut r, "crafted"); } }
    for (se, d) in c10_targets(&mut r) { let s = dec_schema(se); emit_rfaults(sink, &cfg, &s, d.as_bytes(), &mut r, "typed"); }
    let n = if thorough { 3_000 } else { 300 };
    for i in 0..n {
        let s = gen_schema(&mut r, i % 4);
        let v = gen_value_for(&s, &mut r);
        let mut sp = String::new();
        if r.chance(1, 2) { spaced(&v, &mut r, &mut sp); } else { sp = serde_json::to_string(&v).unwrap(); }
        emit_rfaults(sink, &cfg, &s, sp.as_bytes(), &mut r, "gen");
    }
}

// ---------------------------------------------------------------- C14: depth accounting of every container kind

/// one layer of a depth tower around `inner`: (schema, text before, text after, containers it opens)
pub(crate) fn layer(kind: usize, inner: Schema) -> (Schema, &'static str, &'static str, usize) {
    match kind {
        0 => (Schema::Seq(Box::new(inner)), "[", "]", 1),
        1 => (Schema::Tuple(vec![inner]), " [ ", "]", 1),
        2 => (Schema::Map(KeyKind::Str, Box::new(inner)), "{\"k\":", "}", 1),
        3 => (Schema::Struct(vec![("x".into(), inner)], false), "{\"x\":", "}", 1),
        4 => (Schema::Struct(vec![("x".into(), inner)], true), "[", "]", 1),
        5 => (Schema::Enum(vec![("A".into(), Shape::Newtype(Box::new(inner)))]), "{\"A\":", "}", 1),
        6 => (Schema::Enum(vec![("T".into(), Shape::Tuple(vec![inner, Schema::Bool]))]), "{\"T\":[", ",true]}", 2),
        7 => (Schema::Enum(vec![("S".into(), Shape::Struct(vec![("x".into(), inner)]))]), "{\"S\":{\"x\":", "}}", 2),
        8 => (Schema::Option(Box::new(Schema::Newtype(Box::new(Schema::Seq(Box::new(inner)))))), "[", "]", 1),
        _ => (Schema::Map(KeyKind::Int(IntTy::U8), Box::new(inner)), "{\"7\" :", " }", 1),
    }
}

/// `n` layers (kind 10 = the kinds in rotation) around a leaf: schema, text, containers opened by the layers
pub(crate) fn tower(kind: usize, n: usize, leaf: &Schema, leaf_text: &str) -> (Schema, String, usize) {
    let mut s = leaf.clone(); let mut pre: Vec<&str> = vec![]; let mut post: Vec<&str> = vec![]; let mut levels = 0;
    for i in (0..n).rev() {
        let k = if kind == 10 { i % 10 } else { kind };
        let (s2, a, b, l) = layer(k, s); s = s2; pre.push(a); post.push(b); levels += l;
    }
    pre.reverse();
    (s, format!("{}{}{}", pre.concat(), leaf_text, post.concat()), levels)
}

/// C14 (typed targets): towers of every container kind around the recursion limit — texts that nest 1, 2 and 125..130
/// containers counting the leaf's own (`Vec<u8>` from an array, a nested `Value`, skipped content) — complete, cut before the
/// closers and cut in the middle, from slice, reader and str; the crate's outcome (value / error code, category, line,
/// column) is compared with the typed model (op `tt`). With `unbounded_depth` the same towers (and 200 levels) are also
/// run with `disable_recursion_limit()` against the model with `limitOff` (tag `ud+nolimit`).
pub fn run_tdepth(sink: &mut Sink, _thorough: bool, seed: u64) {
    let mut r = Rng::new(seed ^ 0x7464);
    let cfg = cfg_tag();
    let leaves: [(Schema, &str, usize); 6] = [(Schema::Bool, "true", 0), (Schema::Bytes, "[1,2]", 1), (Schema::Any, "[{\"a\":[1]}]", 3), (Schema::Ignored, "[[[[{}]]]]", 0),
        (Schema::Seq(Box::new(Schema::Bool)), "[]", 1), (Schema::Any, "7", 0)];
    let mut cfgs: Vec<String> = vec![cfg.clone()];
    if cfg!(feature = "ud") { cfgs.push(format!("{}+nolimit", cfg)); }
    for c in cfgs.iter() {
        let nolimit = c.contains("nolimit");
        for kind in 0..=10usize {
            let per = layer(if kind == 10 { 0 } else { kind }, Schema::Bool).3;
            let mut ns: Vec<usize> = if per == 2 { vec![1, 2, 62, 63, 64, 65] } else { vec![1, 2, 63, 124, 125, 126, 127, 128, 129] };
            if nolimit { ns = if per == 2 { vec![63, 64, 100] } else { vec![127, 128, 200] }; }
            for n in ns {
                for (leaf, lt, leaf_levels) in leaves.iter() {
                    let (s, text, levels) = tower(kind, n, leaf, lt);
                    if !nolimit {
                        // the statement itself on the complete tower: `levels + leaf_levels` containers are open at the deepest
                        // point that counts against the limit (skipped content does not): accepted iff that is at most 127
                        for src in ["slice", "reader"] {
                            let o = outcome(&s, src, text.as_bytes(), chunks(&mut r));
                            sink.case("ttd", &[c, src, &enc_schema(&s), &(levels + leaf_levels).to_string(), &hexf(text.as_bytes())], &o, &format!("tdepth-verdict:{}", class_of(&o)), true);
                        }
                    }
                    let se = enc_schema(&s);
                    let t = text.as_bytes();
                    let cut1 = text.len() - text.trim_end_matches(|ch| ch == ']' || ch == '}' || ch == ' ').len();
                    let variants: [&[u8]; 3] = [t, &t[..t.len() - cut1], &t[..t.len() / 2]];
                    for (vi, v) in variants.iter().enumerate() {
                        if vi > 0 && nolimit { continue; }
                        for src in ["slice", "reader", "str"] {
                            if src == "str" && vi > 0 { continue; }
                            emit_tt(sink, c, &s, &se, src, v, &mut r, "tdepth");
                        }
                    }
                }
            }
        }
        // WIDE documents: many externally tagged non-unit enum variants side by side in one array / one object. Their nesting is
        // 2 or 3 whatever their length, so all are accepted: the budget a container takes must be given back when it closes
        // (a `check_recursion!` whose exit is skipped on some path leaks one level per sibling and fails near 127 siblings).
        if !nolimit {
            for kind in [5usize, 6, 7, 0, 1, 2, 3, 4, 8, 9] {
                for n in [100usize, 126, 127, 128, 130, 300] {
                    let (es, pre, post, l) = layer(kind, Schema::Bool);
                    let elem = format!("{}true{}", pre, post);
                    let arr = format!("[{}]", vec![elem.clone(); n].join(","));
                    let obj = format!("{{{}}}", (0..n).map(|i| format!("\"k{}\":{}", i, elem)).collect::<Vec<_>>().join(" ,"));
                    for (s, text) in [(Schema::Seq(Box::new(es.clone())), arr), (Schema::Map(KeyKind::Str, Box::new(es.clone())), obj)] {
                        let se = enc_schema(&s);
                        for src in ["slice", "reader"] {
                            let o = outcome(&s, src, text.as_bytes(), chunks(&mut r));
                            sink.case("ttd", &[c, src, &se, &(1 + l).to_string(), &hexf(text.as_bytes())], &o, &format!("tdepth-verdict:wide:{}", class_of(&o)), true);
                        }
                        if n == 130 { for src in ["slice", "reader", "str"] { emit_tt(sink, c, &s, &se, src, text.as_bytes(), &mut r, "tdepth-wide"); } }
                    }
                }
            }
        }
    }
}

pub fn replay(sink: &mut Sink, toks: &[&str]) {
    let cfg = cfg_tag();
    let mut r = Rng::new(1);
    match toks[0] {
        "tt" if toks.len() >= 5 => { let s = dec_schema(toks[3]); let c = if toks[1].contains("nolimit") { toks[1].to_string() } else { cfg.clone() }; emit_tt(sink, &c, &s, toks[3], toks[2], &unhex(toks[4]), &mut r, "replay"); }
        "ttd" if toks.len() >= 6 => { let s = dec_schema(toks[3]); let o = outcome(&s, toks[2], &unhex(toks[5]), vec![3]); sink.case("ttd", &[&cfg, toks[2], toks[3], toks[4], toks[5]], &o, "replay", true); }
        "tt3" if toks.len() >= 4 => { let s = dec_schema(toks[2]); emit_tt3(sink, &cfg, &s, toks[2], &unhex(toks[3]), &mut r, "replay"); }
        "pfxs" if toks.len() >= 5 => { let s = dec_schema(toks[3]); emit_pfxs(sink, &cfg, &s, toks[2], &unhex(toks[4]), "replay"); }
        "rfaults" if toks.len() >= 6 => {
            // one fault position, fixed chunking
            let s = dec_schema(toks[2]);
            let kind = KINDS.iter().find(|x| x.0 == toks[3]).map(|x| x.1).unwrap_or(ErrorKind::Other);
            let k: usize = toks[4].parse().unwrap_or(0);
            let doc = unhex(toks[5]);
            let (o, d) = fault_outcome(&s, &doc, k, kind, vec![3], 0, false);
            let (oe, _) = fault_outcome(&s, &doc, k, kind, vec![3], 0, true);
            sink.case("rfaults", &[&cfg, toks[2], toks[3], toks[4], toks[5]], &format!("{}|{}|{}", o, oe, d as u8), "replay", true);
        }
        _ => {}
    }
}
