//! `sjh <property> <tier> <seed> [stats.json]` — runs the real serde_json in-process on generated
//! cases and prints one line per case: `op args… => observation` (consumed by `sjdriver`).
mod common;
mod obs;
mod gen;
mod c01;
mod c10;
mod c12;
mod c18;
mod c05;
mod prog;
mod c03;
mod schema;
mod c16;

fn main() {
    let args: Vec<String> = std::env::args().collect();
    if args.len() < 4 { eprintln!("usage: sjh <prop> <quick|thorough> <seed> [stats.json]"); std::process::exit(2); }
    let prop = args[1].as_str();
    let thorough = args[2] == "thorough";
    let seed: u64 = args[3].parse().unwrap_or(1);
    let stats = args.get(4).map(|s| s.as_str());
    std::panic::set_hook(Box::new(|_| {}));
    let mut sink = common::Sink::new();
    match prop {
        "C18" => c18::run(&mut sink, thorough, seed),
        "C01" | "C02" | "C09" | "C11" | "C14" | "C19" => c01::run(&mut sink, prop, thorough, seed),
        "C10" => c10::run(&mut sink, thorough, seed),
        "C12" => c12::run(&mut sink, thorough, seed),
        "C05" => c05::run(&mut sink, thorough, seed),
        "C03" => c03::run(&mut sink, thorough, seed),
        "C16" => c16::run(&mut sink, thorough, seed),
        "replay" => { /* replay lines are `op args…` on stdin */
            let mut s = String::new();
            use std::io::Read;
            std::io::stdin().read_to_string(&mut s).unwrap();
            for line in s.lines() {
                let line = line.split(" => ").next().unwrap();
                let toks: Vec<&str> = line.split(' ').collect();
                if toks.is_empty() { continue; }
                replay(&mut sink, &toks);
            }
        }
        _ => { eprintln!("unknown property {}", prop); std::process::exit(2); }
    }
    sink.finish(stats);
}

/// re-run one recorded case on the implementation
fn replay(sink: &mut common::Sink, toks: &[&str]) {
    match toks[0] {
        "ptr" | "ptrmut" | "pidx" => c18::replay(sink, toks),
        "pv" | "pi" => c01::replay(sink, toks),
        "pfx" => c10::replay(sink, toks),
        "stream" => c12::replay(sink, toks),
        "esc" | "escbufs" | "hex4" | "hex4s" | "scan" => c05::replay(sink, toks),
        "serc" | "serp" | "serbufs" | "serbufx" | "disp" => c03::replay(sink, toks),
        "c16" => c16::replay(sink, toks),
        _ => eprintln!("cannot replay op {}", toks[0]),
    }
}
