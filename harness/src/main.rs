//! `sjh <property> <tier> <seed> [stats.json]` — runs the real serde_json in-process on generated
//! cases and prints one line per case: `op args… => observation` (consumed by `sjdriver`).
extern crate alloc;
mod common;
mod obs;
mod gen;
mod c01;
mod c06;
mod c10;
mod c12;
mod c13;
#[cfg(feature = "rv")]
mod c19;
#[cfg(feature = "rv")]
mod c19b;
#[cfg(feature = "ap")]
mod c20;
mod c18;
mod c05;
mod prog;
mod c03;
mod c17;
mod c08;
mod c15;
mod schema;
mod c16;
mod c04;
mod c04t;
mod c04m;
mod typed;
mod c07;
mod c16x;
mod streamraw;
mod lexmath;
mod stypes;
mod linecol;
mod readers;
#[cfg(feature = "rv")]
mod c10raw;
mod anynum;
mod keys;
mod c14num;
mod c02;

fn main() {
    let args: Vec<String> = std::env::args().collect();
    if args.len() < 4 { eprintln!("usage: sjh <prop> <quick|thorough> <seed> [stats.json]"); std::process::exit(2); }
    let prop = args[1].as_str();
    let thorough = args[2] == "thorough";
    let seed: u64 = args[3].parse().unwrap_or(1);
    let stats = args.get(4).map(|s| s.as_str());
    std::panic::set_hook(Box::new(|_| {}));
    let mut sink = common::Sink::new();
    if prop == "C11" || prop == "C09" { linecol::run(&mut sink, prop, thorough, seed); }
    match prop {
        "C18" => c18::run(&mut sink, thorough, seed),
        "C01" | "C02" | "C11" => c01::run(&mut sink, prop, thorough, seed),
        "C14" => {
            // the raw_value configuration of C14 runs the RawValue / UTF-8 clause only (the rest does not depend on the feature)
            #[cfg(feature = "rv")]
            c19::run_c14(&mut sink, thorough, seed);
            // the float_roundtrip-only configuration of C14 runs the NUMBER-shape families only (that is what the feature changes)
            #[cfg(not(feature = "rv"))]
            if c14_fr_only() {
                let mut r = common::Rng::new(seed); let cfg = obs::cfg_tag();
                c01::long_seq(&mut sink, &cfg, &mut r, thorough); c01::exp_edge(&mut sink, &cfg, &mut r, thorough);
            } else { c01::run(&mut sink, prop, thorough, seed); typed::run_tdepth(&mut sink, thorough, seed); streamraw::run_c14(&mut sink, thorough, seed); }
            // long-number shapes around the 64-bit significand overflow (not in the rv / ud configurations: the number code does not depend on them)
            #[cfg(not(any(feature = "rv", feature = "ud")))]
            c14num::run(&mut sink, thorough, seed);
        }
        "C09" => { c01::run(&mut sink, prop, thorough, seed); typed::run_tt3(&mut sink, thorough, seed); streamraw::run_c09(&mut sink, thorough, seed); }
        "C20" => {
            // number-alphabet strings for Number::from_str + accessors, typed targets, whole documents, verbatim text
            // (a build without arbitrary_precision is the "without the feature" side of op anynum: the number-level ops only)
            if !cfg!(feature = "ap") { c06::number_near_misses(&mut sink, thorough, seed); anynum::run(&mut sink, thorough, seed); sink.finish(stats); return; }
            c06::run(&mut sink, thorough, seed);
            c06::exhaustive_number_alphabet(&mut sink, thorough);
            c06::number_near_misses(&mut sink, thorough, seed);
            anynum::run(&mut sink, thorough, seed);
            c01::run(&mut sink, prop, thorough, seed);
            #[cfg(feature = "ap")]
            c20::run(&mut sink, thorough, seed);
        }
        "C19" => {
            // scanner language (IgnoredAny on every generated input) + raw capture (needs raw_value)
            c01::run(&mut sink, prop, thorough, seed);
            #[cfg(feature = "rv")]
            c19::run(&mut sink, thorough, seed);
            #[cfg(feature = "rv")]
            streamraw::raw::run_c19(&mut sink, thorough, seed);
            #[cfg(feature = "rv")]
            c19b::run(&mut sink, thorough, seed);
        }
        "C06" => c06::run(&mut sink, thorough, seed),
        // the raw_value configuration of C10 runs the RawValue targets only (the rest does not depend on the feature)
        #[cfg(feature = "rv")]
        "C10" => c10raw::run(&mut sink, thorough, seed),
        #[cfg(not(feature = "rv"))]
        "C10" => { c10::run(&mut sink, thorough, seed); typed::run_pfxs(&mut sink, thorough, seed); streamraw::run_c10(&mut sink, thorough, seed); }
        "C12" => c12::run(&mut sink, thorough, seed),
        "C13" => { c13::run(&mut sink, thorough, seed); typed::run_rfaults(&mut sink, thorough, seed); }
        "C05" => { c05::run(&mut sink, thorough, seed); c01::run(&mut sink, prop, thorough, seed); }
        "C03" => c03::run(&mut sink, thorough, seed),
        "C17" => c17::run(&mut sink, thorough, seed),
        "C08" => c08::run(&mut sink, thorough, seed),
        "C15" => c15::run(&mut sink, thorough, seed),
        // the raw_value configuration of C16 runs op c16x only (its pool holds the objects keyed by the private RawValue token)
        #[cfg(feature = "rv")]
        "C16" => c16x::run(&mut sink, thorough, seed),
        #[cfg(not(feature = "rv"))]
        "C16" => { c16::run(&mut sink, thorough, seed); typed::run_tt(&mut sink, thorough, seed); c16x::run(&mut sink, thorough, seed); }
        "C04" => {
            c04::run(&mut sink, thorough, seed);
            c04m::run(&mut sink, thorough, seed);
        }
        "C07" => { c07::run(&mut sink, thorough, seed); lexmath::run(&mut sink, thorough, seed); }
        "replay" => { /* replay lines are `op args…` on stdin */
            let mut s = String::new();
            use std::io::Read;
            std::io::stdin().read_to_string(&mut s).unwrap();
            for line in s.lines() {
                let line = line.split(" => ").next().unwrap();
                let toks: Vec<&str> = line.split(' ').collect();
                if toks.is_empty() { continue; }
                replay(&mut sink, &toks);
            }
        }
        _ => { eprintln!("unknown property {}", prop); std::process::exit(2); }
    }
    // streams of typed item types (docs/STREAMTYPED-NOTES.md): one line per property
    if prop == "C12" { stypes::run_c12(&mut sink, thorough, seed); }
    if prop == "C12" { stypes::run_depth(&mut sink, thorough, seed); }
    if prop == "C14" && !cfg!(feature = "rv") && !c14_fr_only() { stypes::run_depth(&mut sink, thorough, seed); }
    if prop == "C09" { stypes::run_c09(&mut sink, thorough, seed); }
    if prop == "C13" { stypes::run_c13(&mut sink, thorough, seed); }
    if prop == "C10" && !cfg!(feature = "rv") { stypes::run_c10(&mut sink, thorough, seed); }
    // the two real string scanners of read.rs called directly (docs/READERS-NOTES.md): one line per property
    if prop == "C09" { readers::run(&mut sink, thorough, seed); }
    if prop == "C05" { readers::run(&mut sink, thorough, seed); }
    if prop == "C05" { c05::run_bytesctl(&mut sink, thorough, seed); }
    // object-key position: escaping of char / String keys (C05), integers of every width as keys and values (C06)
    if prop == "C05" { keys::run_esck(&mut sink, thorough, seed); }
    if prop == "C06" { keys::run_ikey(&mut sink, thorough, seed); }
    if prop == "C02" { c02::run(&mut sink, thorough, seed); }
    sink.finish(stats);
}

/// float_roundtrip and nothing else
fn c14_fr_only() -> bool { cfg!(feature = "fr") && !cfg!(any(feature = "ud", feature = "ap", feature = "rv", feature = "po")) }

/// re-run one recorded case on the implementation
fn replay(sink: &mut common::Sink, toks: &[&str]) {
    match toks[0] {
        "ptr" | "ptrmut" | "pidx" => c18::replay(sink, toks),
        "vget" | "vindex" | "vindexmut" | "vtake" | "peq" | "jsonm" | "jsonp" | "jsonmbuild" => c18::replay(sink, toks),
        "pv" | "pi" => c01::replay(sink, toks),
        "pfx" => c10::replay(sink, toks),
        "pfxt" => c10::replay(sink, toks),
        #[cfg(feature = "rv")]
        "pfxr" => c10raw::replay(sink, toks),
        "int" | "acc" | "iprint" => c06::replay(sink, toks),
        #[cfg(feature = "ap")]
        "numtext" | "reprint" => c20::replay(sink, toks),
        #[cfg(feature = "ap")]
        "accbig" => c20::replay(sink, toks),
        "stream" => c12::replay(sink, toks),
        "rfault" | "rfaultt" | "sfault" | "wfault" => c13::replay(sink, toks),
        #[cfg(feature = "rv")]
        "rawtop" | "rawstr" | "rawelems" => c19::replay(sink, toks),
        #[cfg(feature = "rv")]
        "rawseq" => c19::replay(sink, toks),
        #[cfg(feature = "rv")]
        "rawfld" | "rawconv" => c19b::replay(sink, toks),
        "esc" | "escbufs" | "hex4" | "hex4s" | "scan" => c05::replay(sink, toks),
        "bytesctl" => c05::replay(sink, toks),
        "serc" | "serp" | "serbufs" | "serbufx" | "disp" => c03::replay(sink, toks),
        "dispf" | "dispn" => c03::replay(sink, toks),
        "maphist" | "mapeqh" | "mapeq" | "maphash" | "mapsort" => c17::replay(sink, toks),
        "mapiter" => c17::replay(sink, toks),
        "f64lit" | "f32lit" => c08::replay(sink, toks),
        "tov" | "tovagree" => c15::replay(sink, toks),
        "c16" => c16::replay(sink, toks),
        "c16x" => c16x::replay(sink, toks),
        "rtv" | "rtt" => c04::replay(sink, toks),
        "rtsci" => c04::replay(sink, toks),
        "rtm" => c04m::replay(sink, toks),
        "rtw" => c04m::replay(sink, toks),
        "tt" | "tt3" | "pfxs" | "rfaults" => typed::replay(sink, toks),
        "ttd" => typed::replay(sink, toks),
        "f64rt" | "f32rt" | "f64pr" | "f32pr" | "f32all" => c07::replay(sink, toks),
        "rawser" | "rawnest" | "stream3" | "sdepth" | "spfx" | "raw3" => streamraw::replay(sink, toks),
        "lm" => lexmath::replay(sink, toks),
        "tstream" | "tstream3" | "tsfault" | "tspfx" => stypes::replay(sink, toks),
        "lc3" | "lcs" => linecol::replay(sink, toks),
        "rd" | "rs" => readers::replay(sink, toks),
        "rsa" => readers::replay(sink, toks),
        "anynum" => anynum::replay(sink, toks),
        "esck" | "ikey" | "rsk" => keys::replay(sink, toks),
        "hist32" => c02::replay(sink, toks),
        _ => eprintln!("cannot replay op {}", toks[0]),
    }
}
