//! C02, the families `c01::run` lacks:
//!
//! * `ties` (float_roundtrip builds; op `pv` through `c01::emit`): documents whose NUMBER members are C07's tie-neighbourhood
//!   literals — the exact decimal expansion of the midpoint between two adjacent doubles, ± 1 in the last digit, cut to
//!   17 … 769 significant digits (just below) and bumped in the last kept digit (just above) — at the two ends of the range
//!   (2^-1075 = half the least subnormal, the subnormal / normal border, the overflow threshold) and at sampled exponents;
//!   at top level and nested in arrays / objects, negative too. The driver judges every number of the returned Value
//!   against its literal with `Spec.Decimal` / `Spec.Ieee` (nearest-even under float_roundtrip).
//! * `hist32` (every configuration): a HISTORY on one `serde_json::Deserializer` — an `f32` is requested first (from an
//!   item that is a string / null / bool / container / out-of-range number: the request fails; or from a number: control),
//!   then a `Value` is read from the SAME Deserializer. The Value must be what parsing its text alone gives.
//!   Line format: see lean/SJ/Drv/C02.lean.
#![allow(dead_code)]
use crate::c07;
use crate::common::*;
use crate::obs::*;
use serde::Deserialize;
use serde_json::Value;

// ------------------------------------------------------------------ tie neighbourhoods as members of documents
/// cut lengths around the places where the conversion changes algorithm: 19 / 20 digits (u64 mantissa full), 768 (the
/// big-decimal limit), and in between
const CUTS: &[usize] = &[17, 18, 19, 20, 21, 22, 25, 30, 40, 80, 200, 400, 767, 768, 769];

fn up(d: &str) -> String {
    // + 1 in the last digit, with carry
    let mut b = d.as_bytes().to_vec();
    let mut i = b.len();
    loop {
        if i == 0 { b.insert(0, b'1'); break; }
        i -= 1;
        if b[i] < b'9' { b[i] += 1; break; } else { b[i] = b'0'; }
    }
    String::from_utf8(b).unwrap()
}

/// literals around the midpoint above `m × 2^e`
fn around(r: &mut Rng, m: u64, e: i32, all_cuts: bool, out: &mut Vec<(String, String)>) {
    let (d, x) = c07::exact_decimal(2 * m + 1, e - 1);
    let style = |r: &mut Rng| [0usize, 2, 4][r.below(3)];
    let cuts: Vec<usize> = if all_cuts { CUTS.to_vec() } else { let mut c = vec![19 + r.below(4)]; c.push(*r.pick(CUTS)); c.push(17 + r.below(30)); c };
    for k in cuts {
        if d.len() <= k { continue; }
        let cut = &d[..k]; let xe = x + (d.len() - k) as i32;
        out.push((c07::spell(cut, xe, style(r)), format!("cut{}-below", if k <= 19 { "<=19" } else if k < 100 { "20-99" } else { ">=100" })));
        out.push((c07::spell(&up(cut), xe, style(r)), format!("cut{}-above", if k <= 19 { "<=19" } else if k < 100 { "20-99" } else { ">=100" })));
    }
    // the whole expansion last (short cases first make short replays)
    out.push((c07::spell(&d, x, style(r)), "exact".into()));
    out.push((c07::spell(&up(&d), x, style(r)), "exact+1".into()));
}

fn f64_parts(bits: u64) -> (u64, i32) {
    let be = ((bits >> 52) & 0x7ff) as i32; let f = bits & 0xfffffffffffff;
    if be == 0 { (f, -1074) } else { (f | (1 << 52), be - 1075) }
}

pub fn tie_literals(r: &mut Rng, thorough: bool) -> Vec<(String, String)> {
    let mut v: Vec<(String, String)> = vec![];
    // the ends of the range and the subnormal / normal border, every cut
    for (m, e, name) in [(0u64, -1074i32, "underflow"), (1, -1074, "subnormal"), (2, -1074, "subnormal"), ((1 << 52) - 1, -1074, "min-normal"),
                         (1 << 52, -1074, "min-normal"), ((1 << 53) - 1, 971, "overflow"), ((1 << 53) - 2, 971, "overflow")] {
        let mut w = vec![];
        around(r, m, e, true, &mut w);
        for (l, t) in w { v.push((l, format!("{}:{}", name, t))); }
    }
    // sampled exponents (a third of them among the subnormals / the last binades)
    for i in 0..(if thorough { 600 } else { 60 }) {
        let be = match i % 3 { 0 => r.below(3) as u64, 1 => r.below(2047) as u64, _ => *r.pick(&[2046u64, 2045, 1, 1023, 1075, 1076]) };
        let frac = match r.below(4) { 0 => *r.pick(&[0u64, 1, 0xfffffffffffff, 0x8000000000000]), _ => r.next() & 0xfffffffffffff };
        let (m, e) = f64_parts((be << 52) | frac);
        let mut w = vec![];
        around(r, m, e, false, &mut w);
        for (l, t) in w { v.push((l, format!("sampled:{}", t))); }
    }
    v
}

/// the literal as a member of a document
fn in_doc(r: &mut Rng, lit: &str, shape: usize) -> String {
    match shape {
        0 => lit.to_string(),
        1 => format!("-{}", lit),
        2 => format!("[{}]", lit),
        3 => format!("[1, {} ,\"a\", -{}]", lit, lit),
        4 => format!("{{\"a\":{}}}", lit),
        5 => format!("{{\"k\":[{},{{\"b\":-{}}}],\"z\":null}}", lit, lit),
        6 => format!("[[[{}]],{{\"x\":{{\"y\":{}}}}}]", lit, lit),
        _ => format!("{{\"{}\":{},\"a\":0.1}}", ["b", "a", "\\u0061"][r.below(3)], lit),
    }
}

/// Literals of more than 120 digits cost the driver's float_roundtrip model (big-integer comparison on limbs, run for every
/// source and again by the specification) ~0.1 s per conversion: the quick tier keeps, of those, the exact midpoint, its
/// successor and the 768-digit cuts at the two ends of the range (top level only); the thorough tier keeps all of them at
/// the fixed places and a tenth of the sampled ones. Shorter ones (17 ... 80 digits: where a cut lies within 1e-17 ... 1e-80
/// relative of the tie) are all kept and also nested.
#[cfg(feature = "fr")]
pub fn ties(sink: &mut Sink, cfg: &str, r: &mut Rng, thorough: bool) {
    for (i, (l, t)) in tie_literals(r, thorough).into_iter().enumerate() {
        let long = l.len() > 120;
        let ends = t.starts_with("underflow") || t.starts_with("overflow");
        if long && !thorough && !(ends && (t.ends_with(":exact") || t.ends_with(":exact+1") || (l.len() > 760 && l.len() < 790))) { continue; }
        if long && thorough && t.starts_with("sampled") && i % 10 != 0 { continue; }
        crate::c01::emit(sink, cfg, l.as_bytes(), r, &format!("tie:{}:top", t));
        if long && !thorough { continue; }
        let shape = 1 + r.below(7);
        let doc = in_doc(r, &l, shape);
        crate::c01::emit(sink, cfg, doc.as_bytes(), r, &format!("tie:{}:{}", t, if shape == 1 { "neg" } else { "nested" }));
    }
}

// ------------------------------------------------------------------ a Value after an f32 request on one Deserializer
fn lenient_f32<'de, D: serde::Deserializer<'de>>(d: D) -> Result<Option<f32>, D::Error> { Ok(f32::deserialize(d).ok()) }

#[derive(Deserialize)]
struct Reading {
    #[serde(deserialize_with = "lenient_f32")]
    gain: Option<f32>,
    payload: Value,
}

struct FirstThenValue;
impl<'de> serde::de::Visitor<'de> for FirstThenValue {
    type Value = (Option<f32>, Option<Value>);
    fn expecting(&self, f: &mut std::fmt::Formatter) -> std::fmt::Result { f.write_str("[f32-or-junk, value]") }
    fn visit_seq<A: serde::de::SeqAccess<'de>>(self, mut seq: A) -> Result<Self::Value, A::Error> {
        let first = seq.next_element::<f32>().ok().flatten();
        let second: Option<Value> = seq.next_element()?;
        Ok((first, second))
    }
}

fn show_f32(o: Option<f32>) -> String { match o { Some(x) => format!("ok:{:08x}", x.to_bits()), None => "err".into() } }
fn show_v(v: &Value) -> String { format!("V{}", enc(v)) }

fn drive<'de, R: serde_json::de::Read<'de>>(mode: &str, mut de: serde_json::Deserializer<R>) -> String {
    use serde::Deserializer as _;
    match mode {
        "two" => {
            let first = show_f32(f32::deserialize(&mut de).ok());
            // then Values until the input is exhausted (at most three)
            let mut vs: Vec<String> = vec![];
            for _ in 0..3 {
                match Value::deserialize(&mut de) {
                    Ok(v) => vs.push(show_v(&v)),
                    Err(e) => { vs.push(if e.is_eof() { "END".into() } else { "E".to_string() }); break; }
                }
            }
            format!("{}|{}", first, vs.join(","))
        }
        "fld" => match Reading::deserialize(&mut de) {
            Ok(rd) => format!("{}|{}", show_f32(rd.gain), show_v(&rd.payload)),
            Err(_) => "err|E".into(),
        },
        _ => match de.deserialize_seq(FirstThenValue) {
            Ok((f, Some(v))) => format!("{}|{}", show_f32(f), show_v(&v)),
            Ok((f, None)) => format!("{}|END", show_f32(f)),
            Err(_) => "err|E".into(),
        },
    }
}

fn text_of(mode: &str, first: &[u8], second: &[u8]) -> Vec<u8> {
    match mode {
        "two" => [first, second].concat(),
        "fld" => [b"{\"gain\":".as_ref(), first, b",\"payload\":", second, b"}"].concat(),
        _ => [b"[".as_ref(), first, b",", second, b"]"].concat(),
    }
}

fn emit_hist32(sink: &mut Sink, cfg: &str, mode: &str, src: &str, first: &[u8], second: &[u8], chunks: Vec<usize>, tag: &str) {
    let text = text_of(mode, first, second);
    let (m, s) = (mode.to_string(), src.to_string());
    let o = std::panic::catch_unwind(move || match s.as_str() {
        "str" => match std::str::from_utf8(&text) { Ok(t) => drive(&m, serde_json::Deserializer::from_str(t)), Err(_) => "-".into() },
        "slice" => drive(&m, serde_json::Deserializer::from_slice(&text)),
        _ => drive(&m, serde_json::Deserializer::from_reader(Chunked::new(&text, chunks))),
    }).unwrap_or("PANIC".into());
    let t = format!("hist32:{}:{}:{}:f32-{}", mode, src, tag, if o.starts_with("ok") { "ok" } else { "failed" });
    sink.case("hist32", &[cfg, mode, src, &hexf(first), &hexf(second)], &o, &t, true);
}

/// floats that tell f32 rounding from f64 rounding, and neighbours (integers, strings, numbers outside the f32 range)
const FLOATS: &[&str] = &["0.1", "16777217.0", "123456789.125", "1.2345678901234567e30", "-2.5e-40", "0.2", "-0.3", "1e-46", "1e39", "-3.5e38", "3.4028235677973366e38",
    "1.0000000596046448", "33554435.5", "9007199254740993.0", "1e23", "2.2250738585072014e-308", "5e-324", "1.7976931348623157e308", "0.5", "1.5", "-0.0", "1E2",
    "7", "-9223372036854775809", "18446744073709551616", "16777217", "\"0.1\"", "null", "true"];

fn rand_float(r: &mut Rng) -> String {
    match r.below(4) {
        0 => FLOATS[r.below(22)].to_string(),
        1 => { let f = f64::from_bits(((900 + r.below(250) as u64) << 52) | (r.next() & 0xfffffffffffff)); format!("{}{:e}", if r.chance(1, 3) { "-" } else { "" }, f) }
        2 => format!("{}.{}", r.below(100000), 1 + r.below(99999)),
        _ => format!("{}", f64::from_bits(((1000 + r.below(60) as u64) << 52) | (r.next() & 0xfffffffffffff))),
    }
}
fn payload(r: &mut Rng, depth: usize) -> String {
    match if depth == 0 { r.below(3) } else { r.below(7) } {
        0 | 1 => rand_float(r),
        2 => FLOATS[r.below(FLOATS.len())].to_string(),
        3 | 4 => { let n = 1 + r.below(4); format!("[{}]", (0..n).map(|_| payload(r, depth - 1)).collect::<Vec<_>>().join(if r.chance(1, 3) { " , " } else { "," })) }
        _ => { let n = 1 + r.below(4); format!("{{{}}}", (0..n).map(|i| format!("\"{}\":{}", ["a", "b", "c", "d", "a"][(i + r.below(2)) % 5], payload(r, depth - 1))).collect::<Vec<_>>().join(",")) }
    }
}

/// first items: (text, consumed by the failed / successful request — containers are not)
const FIRSTS: &[(&str, bool)] = &[("\"n/a\"", true), ("\"\"", true), ("\"\\u00e9 0.1\"", true), ("null", true), ("true", true), ("false", true),
    ("1e39", true), ("-3.5e38", true), ("1e999", true), ("0.1", true), ("7", true), ("-2.5", true), ("16777217", true), ("1e-50", true), ("123456789.125", true),
    ("[1.5]", false), ("[]", false), ("{\"a\":0.5}", false), ("[[0.1],\"x\"]", false)];

pub fn hist32(sink: &mut Sink, cfg: &str, r: &mut Rng, thorough: bool) {
    let demo = "{\"a\":0.1,\"b\":[1.2345678901234567e30,-2.5e-40,123456789.125],\"c\":16777217.0,\"d\":-9223372036854775809,\"e\":7,\"f\":\"0.1\"}";
    // every first item x every mode x every source, fixed payloads
    for (f, consumed) in FIRSTS {
        for mode in ["two", "fld", "seq"] {
            if mode != "two" && !*consumed { continue; }
            for src in ["str", "slice", "reader"] {
                for p in ["0.1", demo, "[16777217.0,{\"x\":123456789.125}]"] {
                    let first = if mode == "two" { format!("{} ", f) } else { f.to_string() };
                    emit_hist32(sink, cfg, mode, src, first.as_bytes(), p.as_bytes(), vec![1 + r.below(7)], "fixed");
                }
            }
        }
    }
    // random payloads, separators and chunkings
    for _ in 0..(if thorough { 6000 } else { 600 }) {
        let (f, consumed) = *r.pick(FIRSTS);
        let mode = if consumed { *r.pick(&["two", "two", "fld", "seq"]) } else { "two" };
        let src = *r.pick(&["str", "slice", "reader"]);
        let p = format!("{}{}", payload(r, 2), *r.pick(&["", "", " ", "\n"]));
        let numeric = f.as_bytes()[0] == b'-' || f.as_bytes()[0].is_ascii_digit();
        let first = match (mode, numeric) {
            ("two", true) => format!("{}{}", f, *r.pick(&[" ", "\n", "\t ", "\r\n"])),
            ("two", false) => format!("{}{}", f, *r.pick(&[" ", "\n", "", "  "])),
            _ => format!("{}{}{}", *r.pick(&["", " "]), f, *r.pick(&["", " ", "\n"])),
        };
        let chunks = vec![1 + r.below(9), 1 + r.below(3)];
        emit_hist32(sink, cfg, mode, src, first.as_bytes(), p.as_bytes(), chunks, "rand");
    }
}

pub fn replay(sink: &mut Sink, toks: &[&str]) {
    if toks.len() < 6 { return; }
    let cfg = cfg_tag();
    emit_hist32(sink, &cfg, toks[2], toks[3], &unhex(toks[4]), &unhex(toks[5]), vec![1], "replay");
}

pub fn run(sink: &mut Sink, thorough: bool, seed: u64) {
    // own generator state: the cases of c01::run stay what they were
    let mut r = Rng::new(seed ^ 0xc02c_02c0_2c02);
    let cfg = cfg_tag();
    hist32(sink, &cfg, &mut r, thorough);
    #[cfg(feature = "fr")]
    ties(sink, &cfg, &mut r, thorough);
}
