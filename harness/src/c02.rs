//! C02, the families `c01::run` lacks:
//!
//! * `ties` (float_roundtrip builds; op `pv` through `c01::emit`): documents whose NUMBER members are C07's tie-neighbourhood
//!   literals — the exact decimal expansion of the midpoint between two adjacent doubles, ± 1 in the last digit, cut to
//!   17 … 769 significant digits (just below) and bumped in the last kept digit (just above) — at the two ends of the range
//!   (2^-1075 = half the least subnormal, the subnormal / normal border, the overflow threshold) and at sampled exponents;
//!   at top level and nested in arrays / objects, negative too. The driver judges every number of the returned Value
//!   against its literal with `Spec.Decimal` / `Spec.Ieee` (nearest-even under float_roundtrip).
#![allow(dead_code)]
use crate::c07;
use crate::common::*;
use crate::obs::*;

// ------------------------------------------------------------------ tie neighbourhoods as members of documents
/// cut lengths around the places where the conversion changes algorithm: 19 / 20 digits (u64 mantissa full), 768 (the
/// big-decimal limit), and in between
const CUTS: &[usize] = &[17, 18, 19, 20, 21, 22, 25, 30, 40, 80, 200, 400, 767, 768, 769];

fn up(d: &str) -> String {
    // + 1 in the last digit, with carry
    let mut b = d.as_bytes().to_vec();
    let mut i = b.len();
    loop {
        if i == 0 { b.insert(0, b'1'); break; }
        i -= 1;
        if b[i] < b'9' { b[i] += 1; break; } else { b[i] = b'0'; }
    }
    String::from_utf8(b).unwrap()
}

/// literals around the midpoint above `m × 2^e`
fn around(r: &mut Rng, m: u64, e: i32, all_cuts: bool, out: &mut Vec<(String, String)>) {
    let (d, x) = c07::exact_decimal(2 * m + 1, e - 1);
    let style = |r: &mut Rng| [0usize, 2, 4][r.below(3)];
    let cuts: Vec<usize> = if all_cuts { CUTS.to_vec() } else { let mut c = vec![19 + r.below(4)]; c.push(*r.pick(CUTS)); c.push(17 + r.below(30)); c };
    for k in cuts {
        if d.len() <= k { continue; }
        let cut = &d[..k]; let xe = x + (d.len() - k) as i32;
        out.push((c07::spell(cut, xe, style(r)), format!("cut{}-below", if k <= 19 { "<=19" } else if k < 100 { "20-99" } else { ">=100" })));
        out.push((c07::spell(&up(cut), xe, style(r)), format!("cut{}-above", if k <= 19 { "<=19" } else if k < 100 { "20-99" } else { ">=100" })));
    }
    // the whole expansion last (short cases first make short replays)
    out.push((c07::spell(&d, x, style(r)), "exact".into()));
    out.push((c07::spell(&up(&d), x, style(r)), "exact+1".into()));
}

fn f64_parts(bits: u64) -> (u64, i32) {
    let be = ((bits >> 52) & 0x7ff) as i32; let f = bits & 0xfffffffffffff;
    if be == 0 { (f, -1074) } else { (f | (1 << 52), be - 1075) }
}

pub fn tie_literals(r: &mut Rng, thorough: bool) -> Vec<(String, String)> {
    let mut v: Vec<(String, String)> = vec![];
    // the ends of the range and the subnormal / normal border, every cut
    for (m, e, name) in [(0u64, -1074i32, "underflow"), (1, -1074, "subnormal"), (2, -1074, "subnormal"), ((1 << 52) - 1, -1074, "min-normal"),
                         (1 << 52, -1074, "min-normal"), ((1 << 53) - 1, 971, "overflow"), ((1 << 53) - 2, 971, "overflow")] {
        let mut w = vec![];
        around(r, m, e, true, &mut w);
        for (l, t) in w { v.push((l, format!("{}:{}", name, t))); }
    }
    // sampled exponents (a third of them among the subnormals / the last binades)
    for i in 0..(if thorough { 600 } else { 60 }) {
        let be = match i % 3 { 0 => r.below(3) as u64, 1 => r.below(2047) as u64, _ => *r.pick(&[2046u64, 2045, 1, 1023, 1075, 1076]) };
        let frac = match r.below(4) { 0 => *r.pick(&[0u64, 1, 0xfffffffffffff, 0x8000000000000]), _ => r.next() & 0xfffffffffffff };
        let (m, e) = f64_parts((be << 52) | frac);
        let mut w = vec![];
        around(r, m, e, false, &mut w);
        for (l, t) in w { v.push((l, format!("sampled:{}", t))); }
    }
    v
}

/// the literal as a member of a document
fn in_doc(r: &mut Rng, lit: &str, shape: usize) -> String {
    match shape {
        0 => lit.to_string(),
        1 => format!("-{}", lit),
        2 => format!("[{}]", lit),
        3 => format!("[1, {} ,\"a\", -{}]", lit, lit),
        4 => format!("{{\"a\":{}}}", lit),
        5 => format!("{{\"k\":[{},{{\"b\":-{}}}],\"z\":null}}", lit, lit),
        6 => format!("[[[{}]],{{\"x\":{{\"y\":{}}}}}]", lit, lit),
        _ => format!("{{\"{}\":{},\"a\":0.1}}", ["b", "a", "\\u0061"][r.below(3)], lit),
    }
}

/// Literals of more than 120 digits cost the driver's float_roundtrip model (big-integer comparison on limbs, run for every
/// source and again by the specification) ~0.1 s per conversion: the quick tier keeps, of those, the exact midpoint, its
/// successor and the 768-digit cuts at the two ends of the range (top level only); the thorough tier keeps all of them at
/// the fixed places and a tenth of the sampled ones. Shorter ones (17 ... 80 digits: where a cut lies within 1e-17 ... 1e-80
/// relative of the tie) are all kept and also nested.
#[cfg(feature = "fr")]
pub fn ties(sink: &mut Sink, cfg: &str, r: &mut Rng, thorough: bool) {
    for (i, (l, t)) in tie_literals(r, thorough).into_iter().enumerate() {
        let long = l.len() > 120;
        let ends = t.starts_with("underflow") || t.starts_with("overflow");
        if long && !thorough && !(ends && (t.ends_with(":exact") || t.ends_with(":exact+1") || (l.len() > 760 && l.len() < 790))) { continue; }
        if long && thorough && t.starts_with("sampled") && i % 10 != 0 { continue; }
        crate::c01::emit(sink, cfg, l.as_bytes(), r, &format!("tie:{}:top", t));
        if long && !thorough { continue; }
        let shape = 1 + r.below(7);
        let doc = in_doc(r, &l, shape);
        crate::c01::emit(sink, cfg, doc.as_bytes(), r, &format!("tie:{}:{}", t, if shape == 1 { "neg" } else { "nested" }));
    }
}

pub fn run(sink: &mut Sink, thorough: bool, seed: u64) {
    // own generator state: the cases of c01::run stay what they were
    let mut r = Rng::new(seed ^ 0xc02c_02c0_2c02);
    #[cfg(feature = "fr")]
    let cfg = cfg_tag();
    #[cfg(feature = "fr")]
    ties(sink, &cfg, &mut r, thorough);
}
