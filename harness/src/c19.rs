//! C19: RawValue captures exactly the source text of one value (feature raw_value).
#![cfg(feature = "rv")]
use crate::common::*;
use crate::gen::*;
use crate::obs::*;
use serde::Deserialize;
use serde_json::value::RawValue;
use std::collections::BTreeMap;

fn g<F: FnOnce() -> String>(f: F) -> String { std::panic::catch_unwind(std::panic::AssertUnwindSafe(f)).unwrap_or("PANIC".into()) }

/// top level: boxed from str/slice/reader, borrowed from str/slice; all five must agree
fn raw_top(b: &[u8]) -> String {
    let mut outs: Vec<String> = vec![];
    let st = std::str::from_utf8(b).ok();
    outs.push(match st { Some(s) => g(|| match serde_json::from_str::<Box<RawValue>>(s) { Ok(r) => format!("R{}", hexf(r.get().as_bytes())), Err(e) => show_err(&e) }), None => "-".into() });
    outs.push(match st { Some(s) => g(|| match serde_json::from_str::<&RawValue>(s) { Ok(r) => {
            // a borrowed raw value must be a subslice of the input
            let off = r.get().as_ptr() as usize - s.as_ptr() as usize;
            format!("R{}@{}", hexf(r.get().as_bytes()), off) }, Err(e) => show_err(&e) }), None => "-".into() });
    outs.push(g(|| match serde_json::from_slice::<Box<RawValue>>(b) { Ok(r) => format!("R{}", hexf(r.get().as_bytes())), Err(e) => show_err(&e) }));
    outs.push(g(|| match serde_json::from_slice::<&RawValue>(b) { Ok(r) => { let off = r.get().as_ptr() as usize - b.as_ptr() as usize; format!("R{}@{}", hexf(r.get().as_bytes()), off) }, Err(e) => show_err(&e) }));
    outs.push(g(|| match serde_json::from_reader::<_, Box<RawValue>>(Chunked::new(b, vec![2, 3, 1])) { Ok(r) => format!("R{}", hexf(r.get().as_bytes())), Err(e) => show_err(&e) }));
    outs.join("|")
}

#[derive(Deserialize)]
struct S<'a> { #[allow(dead_code)] id: Option<u32>, #[serde(borrow)] payload: &'a RawValue, tail: Box<RawValue> }

fn emit_top(sink: &mut Sink, cfg: &str, b: &[u8], tag: &str) {
    let o = raw_top(b);
    let class = if o.contains('R') { "captured" } else { "rejected" };
    sink.case("rawtop", &[cfg, &hexf(b)], &o, &format!("{}:{}", tag, class), b.len() > 1);
}

/// elements with known spans: the generator knows each element's exact text
fn emit_nested(sink: &mut Sink, cfg: &str, r: &mut Rng) {
    let n = 1 + r.below(4);
    let mut elems: Vec<Vec<u8>> = vec![];
    for _ in 0..n { let mut v = vec![]; gen_doc_into(r, 2, &mut v); elems.push(v); }
    let wsp = |r: &mut Rng| -> Vec<u8> { let mut w = vec![]; for _ in 0..r.below(3) { w.push(*r.pick(&[b' ', b'\n', b'\t', b'\r'])); } w };
    // array
    let mut doc = wsp(r); doc.push(b'[');
    for (i, e) in elems.iter().enumerate() { if i > 0 { doc.push(b','); } doc.extend(wsp(r)); doc.extend_from_slice(e); doc.extend(wsp(r)); }
    doc.push(b']'); doc.extend(wsp(r));
    let expect: Vec<String> = elems.iter().map(|e| hexf(e)).collect();
    let mut outs = vec![];
    if let Ok(s) = std::str::from_utf8(&doc) {
        outs.push(g(|| match serde_json::from_str::<Vec<&RawValue>>(s) { Ok(v) => v.iter().map(|x| hexf(x.get().as_bytes())).collect::<Vec<_>>().join(","), Err(e) => show_err(&e) }));
        outs.push(g(|| match serde_json::from_str::<Vec<Box<RawValue>>>(s) { Ok(v) => v.iter().map(|x| hexf(x.get().as_bytes())).collect::<Vec<_>>().join(","), Err(e) => show_err(&e) }));
    }
    outs.push(g(|| match serde_json::from_slice::<Vec<Box<RawValue>>>(&doc) { Ok(v) => v.iter().map(|x| hexf(x.get().as_bytes())).collect::<Vec<_>>().join(","), Err(e) => show_err(&e) }));
    outs.push(g(|| match serde_json::from_reader::<_, Vec<Box<RawValue>>>(Chunked::new(&doc, vec![1, 2])) { Ok(v) => v.iter().map(|x| hexf(x.get().as_bytes())).collect::<Vec<_>>().join(","), Err(e) => show_err(&e) }));
    sink.case("rawelems", &[cfg, &hexf(&doc), &expect.join(",")], &outs.join("|"), "array", true);
    // object values
    let mut doc = wsp(r); doc.push(b'{'); let mut keys = vec![];
    for (i, e) in elems.iter().enumerate() {
        if i > 0 { doc.push(b','); }
        let k = format!("k{}", i); keys.push(k.clone());
        doc.extend(wsp(r)); doc.extend_from_slice(format!("\"{}\"", k).as_bytes()); doc.extend(wsp(r)); doc.push(b':'); doc.extend(wsp(r)); doc.extend_from_slice(e); doc.extend(wsp(r));
    }
    doc.push(b'}'); doc.extend(wsp(r));
    let mut outs = vec![];
    let show = |m: BTreeMap<String, Box<RawValue>>| keys.iter().map(|k| m.get(k).map(|x| hexf(x.get().as_bytes())).unwrap_or("?".into())).collect::<Vec<_>>().join(",");
    if let Ok(s) = std::str::from_utf8(&doc) { outs.push(g(|| match serde_json::from_str::<BTreeMap<String, Box<RawValue>>>(s) { Ok(m) => show(m), Err(e) => show_err(&e) })); }
    outs.push(g(|| match serde_json::from_slice::<BTreeMap<String, Box<RawValue>>>(&doc) { Ok(m) => show(m), Err(e) => show_err(&e) }));
    outs.push(g(|| match serde_json::from_reader::<_, BTreeMap<String, Box<RawValue>>>(Chunked::new(&doc, vec![3])) { Ok(m) => show(m), Err(e) => show_err(&e) }));
    sink.case("rawelems", &[cfg, &hexf(&doc), &expect.join(",")], &outs.join("|"), "object", true);
    // struct fields (borrowed + boxed, with an unknown field skipped in between)
    if elems.len() >= 2 {
        let mut doc = wsp(r);
        doc.extend_from_slice(b"{\"id\":7,"); doc.extend(wsp(r)); doc.extend_from_slice(b"\"payload\""); doc.extend(wsp(r)); doc.push(b':'); doc.extend(wsp(r)); doc.extend_from_slice(&elems[0]); doc.extend(wsp(r));
        doc.extend_from_slice(b",\"skipped\":"); doc.extend_from_slice(&elems[elems.len() - 1]); doc.extend_from_slice(b",\"tail\":"); doc.extend(wsp(r)); doc.extend_from_slice(&elems[1]); doc.extend(wsp(r)); doc.push(b'}');
        let expect = format!("{},{}", hexf(&elems[0]), hexf(&elems[1]));
        let mut outs = vec![];
        if let Ok(s) = std::str::from_utf8(&doc) { outs.push(g(|| match serde_json::from_str::<S>(s) { Ok(x) => format!("{},{}", hexf(x.payload.get().as_bytes()), hexf(x.tail.get().as_bytes())), Err(e) => show_err(&e) })); }
        outs.push(g(|| match serde_json::from_slice::<S>(&doc) { Ok(x) => format!("{},{}", hexf(x.payload.get().as_bytes()), hexf(x.tail.get().as_bytes())), Err(e) => show_err(&e) }));
        sink.case("rawelems", &[cfg, &hexf(&doc), &expect], &outs.join("|"), "struct", true);
    }
}

/// from_string accepts exactly JSON texts; serialises back verbatim, also through to_value
fn emit_string(sink: &mut Sink, cfg: &str, b: &[u8], tag: &str) {
    let s = match std::str::from_utf8(b) { Ok(s) => s.to_string(), Err(_) => return };
    let o = g(|| match RawValue::from_string(s.clone()) {
        Err(e) => format!("ERR:{}", cat_name(&e)),
        Ok(raw) => {
            let text = raw.get().to_string();
            let ser = serde_json::to_string(&raw).unwrap_or("?".into());
            let pretty = serde_json::to_string_pretty(&raw).unwrap_or("?".into());
            let nested = serde_json::to_string(&vec![&raw]).unwrap_or("?".into());
            let tv = match serde_json::to_value(&raw) { Ok(v) => enc(&v), Err(_) => "ERR".into() };
            let pv = match serde_json::from_str::<serde_json::Value>(&text) { Ok(v) => enc(&v), Err(_) => "ERR".into() };
            format!("OK:{}|{}|{}|{}|{}|{}", hexf(text.as_bytes()), hexf(ser.as_bytes()), hexf(pretty.as_bytes()), hexf(nested.as_bytes()), tv, pv)
        }
    });
    let class = if o.starts_with("OK") { "ok" } else { "err" };
    sink.case("rawstr", &[cfg, &hexf(b)], &o, &format!("{}:{}", tag, class), b.len() > 1);
}

// ------------------------------------------------------------------------------------------------ rawseq
/// `rawseq <cfg> <shape> <k> <hex> => str|slice|reader` — ONE `Deserializer` per source (`from_str` / `from_slice` / `from_reader`
/// over a chunked reader), `k` successive `T::deserialize(&mut de)` calls on it, going on after errors; each call's result is one
/// item: shape `raw` (`T = Box<RawValue>`): `R<hex text>`; shape `wrap` (`T = W { code: u32, payload: Box<RawValue> }`, a struct with
/// a RawValue field, followed by further documents): `W<code>;<hex text of payload>`; or the error. `-` for str when not UTF-8.
#[derive(Deserialize)]
struct W { code: u32, payload: Box<RawValue> }

fn seq_items<'de, R: serde_json::de::Read<'de>>(de: &mut serde_json::Deserializer<R>, shape: &str, k: usize) -> String {
    let mut out: Vec<String> = vec![];
    for _ in 0..k {
        out.push(g(|| if shape == "raw" { match Box::<RawValue>::deserialize(&mut *de) { Ok(r) => format!("R{}", hexf(r.get().as_bytes())), Err(e) => show_err(&e) } }
                      else { match W::deserialize(&mut *de) { Ok(w) => format!("W{};{}", w.code, hexf(w.payload.get().as_bytes())), Err(e) => show_err(&e) } }));
    }
    out.join(",")
}

pub fn rawseq_obs(shape: &str, b: &[u8], k: usize, sizes: Vec<usize>) -> String {
    let s = match std::str::from_utf8(b) { Ok(s) => { let mut de = serde_json::Deserializer::from_str(s); seq_items(&mut de, shape, k) } Err(_) => "-".into() };
    let sl = { let mut de = serde_json::Deserializer::from_slice(b); seq_items(&mut de, shape, k) };
    let rd = { let mut de = serde_json::Deserializer::from_reader(Chunked::new(b, sizes)); seq_items(&mut de, shape, k) };
    format!("{}|{}|{}", s, sl, rd)
}

fn emit_seq(sink: &mut Sink, cfg: &str, shape: &str, b: &[u8], k: usize, tag: &str) {
    let o = rawseq_obs(shape, b, k, vec![2, 3, 1]);
    let rd = o.rsplit('|').next().unwrap_or("");
    let items: Vec<&str> = rd.split(',').collect();
    let first_err = items.iter().position(|x| x.starts_with("E:"));
    let after = match first_err { Some(i) => items[i..].iter().any(|x| !x.starts_with("E:")), None => false };
    let class = if after { "capture-after-error" } else if first_err.map_or(false, |i| items[i].contains(":eof:")) { "captures-then-eof" } else if first_err.is_some() { "error-then-errors" } else { "all-captured" };
    sink.case("rawseq", &[cfg, shape, &k.to_string(), &hexf(b)], &o, &format!("rawseq:{}:{}:{}", tag, shape, class), b.len() > 1);
}

/// items that fail as a raw capture AFTER capture began (bad literal, bad number, bad escape, unclosed / malformed container), and
/// items that fail at their first byte
const BROKEN: &[&str] = &["nul", "tru", "fals", "nulL", "-x", "-", "1.", "1.x", "1e", "1e+", "01", "\"\\q", "\"\\u12", "\"a\u{1}b\"", "[1,", "[1,]", "[1 2]", "{\"a\" 1}", "{\"a\":}", "{1}", "[nul]", "x", "]", ",", ":"];
const WSS: &[&str] = &[" ", "\n", "\t", "\r", "  ", " \n ", "\r\n", "", ""];

fn gen_seq(r: &mut Rng, shape: &str) -> (Vec<u8>, usize) {
    let n = 2 + r.below(4);
    let mut doc: Vec<u8> = vec![];
    doc.extend_from_slice(r.pick(WSS).as_bytes());
    for i in 0..n {
        let mut item: Vec<u8> = vec![];
        let mut broken = false;
        if r.chance(2, 5) { item.extend_from_slice(r.pick(BROKEN).as_bytes()); broken = true; }
        else if r.chance(1, 6) { let xs: [&[u8]; 9] = ["\"\u{e9}\"".as_bytes(), "[\"\u{20ac}\", \"\u{10348}\"]".as_bytes(), b"\"\xff\"", b"[\"\xe2\x82\"]", b"17", b"-0.5e+3", b"true", b"null", b"[1, 2]"]; item.extend_from_slice(*r.pick(&xs)); }
        else { gen_doc_into(r, 2, &mut item); }
        if shape == "wrap" && !r.chance(1, 8) {
            doc.extend_from_slice(b"{"); doc.extend_from_slice(r.pick(WSS).as_bytes());
            // a broken payload last in an object that is never closed: the failed capture is followed directly by the next document
            if broken && r.chance(1, 2) { doc.extend_from_slice(format!("\"code\":{},\"payload\":", i * 7).as_bytes()); doc.extend_from_slice(&item); doc.extend_from_slice(r.pick(&WSS[..6]).as_bytes()); continue; }
            if r.chance(1, 2) { doc.extend_from_slice(format!("\"code\":{},", i * 7).as_bytes()); doc.extend_from_slice(r.pick(WSS).as_bytes()); doc.extend_from_slice(b"\"payload\""); doc.extend_from_slice(r.pick(WSS).as_bytes()); doc.push(b':'); doc.extend_from_slice(r.pick(WSS).as_bytes()); doc.extend_from_slice(&item); }
            else { doc.extend_from_slice(b"\"payload\":"); doc.extend_from_slice(r.pick(WSS).as_bytes()); doc.extend_from_slice(&item); doc.extend_from_slice(r.pick(WSS).as_bytes()); doc.extend_from_slice(format!(",\"code\":{}", i * 7).as_bytes()); }
            doc.extend_from_slice(r.pick(WSS).as_bytes()); doc.extend_from_slice(b"}");
        } else { doc.extend_from_slice(&item); }
        // a separator: mostly whitespace (a bare scalar directly followed by the next item is one more broken shape)
        if r.chance(5, 6) { doc.extend_from_slice(r.pick(&WSS[..6]).as_bytes()); } else { doc.extend_from_slice(r.pick(WSS).as_bytes()); }
    }
    (doc, n + 2 + r.below(3))
}

pub fn run_seq(sink: &mut Sink, thorough: bool, r: &mut Rng) {
    let cfg = cfg_tag();
    for s in ["nul [1, 2] ", "tru fals -x 17", "1 2 3", " [1,2]\n{\"a\":null}\t\"x\" ", "\"\\q 0 [true, null]", "[1, 2 [3]", "1x 2", "{\"a\":nul} 5 6", "", "  ", "nul", "nul 1", "\"\u{e9}\" tru \"\u{20ac}\"", "[1,] [2] [3,] [4]"] {
        emit_seq(sink, &cfg, "raw", s.as_bytes(), 5, "corpus");
    }
    for s in ["{\"code\":1,\"payload\":\"\\q 0 {\"code\":200,\"payload\":{\"a\":[true, null]}}", "{\"code\":1,\"payload\":nul} {\"code\":2,\"payload\":[1, 2]}", "{\"code\":1,\"payload\":[1]} {\"payload\":-x,\"code\":2} {\"code\":3,\"payload\": {} }",
              "{\"code\":1,\"payload\":tru {\"code\":2,\"payload\":7}", "[1, nul] [2, [3]]", "[1, [0]] [2, \"x\"] "] {
        emit_seq(sink, &cfg, "wrap", s.as_bytes(), 5, "corpus");
    }
    for _ in 0..(if thorough { 6000 } else { 600 }) {
        let (d, k) = gen_seq(r, "raw"); emit_seq(sink, &cfg, "raw", &d, k, "gen");
        if r.chance(1, 2) { let (d, k) = gen_seq(r, "wrap"); emit_seq(sink, &cfg, "wrap", &d, k, "gen"); }
    }
}

pub fn replay(sink: &mut Sink, toks: &[&str]) {
    if toks[0] == "rawseq" && toks.len() >= 5 { emit_seq(sink, &cfg_tag(), toks[2], &unhex(toks[4]), toks[3].parse().unwrap_or(1), "replay"); return; }
    if toks.len() < 3 { return; }
    let cfg = cfg_tag();
    let b = unhex(toks[2]);
    match toks[0] { "rawtop" => emit_top(sink, &cfg, &b, "replay"), "rawstr" => emit_string(sink, &cfg, &b, "replay"), _ => eprintln!("rawelems cases are regenerated from the seed") }
}

/// C14 under raw_value: a RawValue wraps a `str`; bytes that are not UTF-8 must never reach it from any source (the reader path
/// checks its own buffer with `String::from_utf8`). Every invalid-UTF-8 class inside strings and keys at top level, as array
/// element and as object value (op `rawtop`, judged for C14 by the UTF-8 validity of every text returned).
pub fn run_c14(sink: &mut Sink, _thorough: bool, _seed: u64) {
    let cfg = cfg_tag();
    let bad: [&[u8]; 14] = [b"\xff", b"\xce\xf8", b"\xc0\x80", b"\xe0\x80\x80", b"\xed\xa0\x80", b"\xf4\x90\x80\x80", b"\xf0\x9f", b"\x80", b"a\xffb", b"\xc3", b"\xe2\x82", b"\xf8\x88\x80\x80\x80",
                            b"\xc3\xa9\xff", b"\xef\xbf"];
    for b in bad.iter() {
        let lit: Vec<u8> = [b"\"".as_ref(), b, b"\""].concat();
        for doc in [lit.clone(), [b" ".as_ref(), &lit, b" "].concat(), [b"[1,".as_ref(), &lit, b",2]"].concat(), [b"{\"k\":".as_ref(), &lit, b"}"].concat(),
                    [b"{".as_ref(), &lit, b":1}"].concat(), [b"[[".as_ref(), &lit, b"]]"].concat()] {
            emit_top(sink, &cfg, &doc, "c14-utf8");
        }
    }
    for ok in ["\"\u{e9}\"", "[\"\u{10348}\", 1]", "{\"\u{20ac}\":\"x\"}"] { emit_top(sink, &cfg, ok.as_bytes(), "c14-utf8-ok"); }
}

pub fn run(sink: &mut Sink, thorough: bool, seed: u64) {
    let mut r = Rng::new(seed);
    let cfg = cfg_tag();
    let toks = tokens();
    for len in 1..=(if thorough { 3 } else { 2 }) {
        let mut inputs: Vec<Vec<u8>> = vec![];
        exhaustive(&toks, len, 0, 1, |b| inputs.push(b.to_vec()));
        for b in inputs { emit_top(sink, &cfg, &b, &format!("exh{}", len)); emit_string(sink, &cfg, &b, &format!("exh{}", len)); }
    }
    for s in [" 1 ", "\n[1, 2]\t", "  \"a\\u00e9\"  ", "{\"a\" : [ ] }", " 1 2", "1e999", "\"\\ud800\"", "[[[[[[[[[[[[[[[[[[[[[[[[[[[[[[[[[[[[[[[[[[[[[[[[[[[[[[[[[[[[[[[[[[[[[[[[[[[[[[[[[[[[[[[[[[[[[[[[[[[[[[[[[[[[[[[[[[[[[[[[[[[[[[[[[[[[[1]]]]]]]]]]]]]]]]]]]]]]]]]]]]]]]]]]]]]]]]]]]]]]]]]]]]]]]]]]]]]]]]]]]]]]]]]]]]]]]]]]]]]]]]]]]]]]]]]]]]]]]]]]]]]]]]]]]]]]]]]]]]]]]]]]]]]]]]]"] {
        emit_top(sink, &cfg, s.as_bytes(), "corpus"); emit_string(sink, &cfg, s.as_bytes(), "corpus");
    }
    emit_top(sink, &cfg, b" \"\xff\" ", "corpus");
    for _ in 0..(if thorough { 8000 } else { 800 }) {
        let d = gen_doc(&mut r, 3);
        emit_top(sink, &cfg, &d, "doc"); emit_string(sink, &cfg, &d, "doc");
        let m = mutate(&d, &mut r);
        emit_top(sink, &cfg, &m, "mut"); emit_string(sink, &cfg, &m, "mut");
        emit_nested(sink, &cfg, &mut r);
    }
    run_seq(sink, thorough, &mut r);
}
