//! Input generators shared by the parser properties: the structural token alphabet (DESIGN §6),
//! exhaustive token sequences, grammar-directed documents and their mutations.
#![allow(dead_code)]
use crate::common::*;

/// the structural alphabet of the properties' quantifiers
pub fn tokens() -> Vec<Vec<u8>> {
    let mut t: Vec<Vec<u8>> = vec![];
    for s in ["[", "]", "{", "}", ",", ":", "\"", " ", "\n", "\\\"", "\\\\", "\\n", "\\u", "\\x", "a", "F", "0", "1", "9",
              "-", "+", ".", "e", "E", "null", "true", "false", "nul", "tru", "nulx", "x", "/", "\u{e9}", "\\ud800", "\\udc00", "\"a\"", "\"a\":"] {
        t.push(s.as_bytes().to_vec());
    }
    for b in [vec![0x01u8], vec![0x1f], vec![0x7f], vec![0x80], vec![0xc3], vec![0xed, 0xa0, 0x80]] { t.push(b); }
    t
}

/// every sequence of exactly `n` tokens, in canonical order; `shard`/`nshards` split the space
pub fn exhaustive<F: FnMut(&[u8])>(toks: &[Vec<u8>], n: usize, shard: usize, nshards: usize, mut f: F) {
    let k = toks.len();
    let total = (k as u64).pow(n as u32);
    let mut buf: Vec<u8> = Vec::with_capacity(64);
    let mut i = shard as u64;
    while i < total {
        buf.clear();
        let mut x = i;
        for _ in 0..n { buf.extend_from_slice(&toks[(x % k as u64) as usize]); x /= k as u64; }
        f(&buf);
        i += nshards as u64;
    }
}

fn ws(r: &mut Rng, out: &mut Vec<u8>) {
    if r.chance(1, 3) { for _ in 0..1 + r.below(2) { out.push(*r.pick(&[b' ', b'\n', b'\t', b'\r'])); } }
}

pub fn gen_number_text(r: &mut Rng) -> String {
    let mut s = String::new();
    if r.chance(1, 3) { s.push('-'); }
    match r.below(8) {
        0 => s.push('0'),
        1 => s.push_str(&format!("{}", r.below(1000))),
        2 => s.push_str(["18446744073709551615", "18446744073709551616", "9223372036854775807", "9223372036854775808", "9223372036854775809", "18446744073709551614"][r.below(6)]),
        3 => { let n = 1 + r.below(25); s.push(*r.pick(&['1','2','9'])); for _ in 1..n { s.push(*r.pick(&['0','1','5','9'])); } }
        _ => s.push_str(&format!("{}", r.next() >> r.below(64))),
    }
    if r.chance(1, 3) { s.push('.'); let m = if r.chance(1, 5) { 25 } else { 4 }; for _ in 0..1 + r.below(m) { s.push(*r.pick(&['0','1','5','9'])); } }
    if r.chance(1, 4) {
        s.push(*r.pick(&['e', 'E']));
        match r.below(3) { 0 => s.push('+'), 1 => s.push('-'), _ => {} }
        s.push_str(&format!("{}", [0usize, 1, 5, 22, 23, 100, 307, 308, 309, 400][r.below(10)]));
    }
    s
}

pub fn gen_string_text(r: &mut Rng) -> Vec<u8> {
    let mut o = vec![b'"'];
    let m = if r.chance(1, 6) { 20 } else { 5 };
    for _ in 0..r.below(m) {
        match r.below(12) {
            0 => o.extend_from_slice(b"\\\""), 1 => o.extend_from_slice(b"\\\\"), 2 => o.extend_from_slice(b"\\/"),
            3 => { o.push(b'\\'); o.push(*r.pick(&[b'b', b'f', b'n', b'r', b't'])); }
            4 => o.extend_from_slice(format!("\\u{:04x}", [0x41u32, 0xe9, 0x20ac, 0x0, 0x1f, 0xd7ff, 0xe000, 0xffff][r.below(8)]).as_bytes()),
            5 => o.extend_from_slice(format!("\\u{:04X}\\u{:04x}", 0xd800 + r.below(0x400), 0xdc00 + r.below(0x400)).as_bytes()),
            6 => o.extend_from_slice("é".as_bytes()), 7 => o.extend_from_slice("€".as_bytes()), 8 => o.extend_from_slice("\u{10348}".as_bytes()),
            _ => o.push(*r.pick(&[b'a', b'b', b' ', b'0', b'/', b'~', b'x'])),
        }
    }
    o.push(b'"');
    o
}

/// a valid JSON value as text, with whitespace and spelling variety
pub fn gen_doc_into(r: &mut Rng, depth: usize, out: &mut Vec<u8>) {
    let k = if depth == 0 { r.below(5) } else { r.below(8) };
    match k {
        0 => out.extend_from_slice(b"null"),
        1 => out.extend_from_slice(if r.chance(1, 2) { b"true" } else { b"false" }),
        2 | 3 => out.extend_from_slice(gen_number_text(r).as_bytes()),
        4 => out.extend_from_slice(&gen_string_text(r)),
        5 | 6 => {
            out.push(b'['); ws(r, out);
            let n = r.below(4);
            for i in 0..n { if i > 0 { out.push(b','); ws(r, out); } gen_doc_into(r, depth - 1, out); ws(r, out); }
            out.push(b']');
        }
        _ => {
            out.push(b'{'); ws(r, out);
            let n = r.below(4);
            for i in 0..n {
                if i > 0 { out.push(b','); ws(r, out); }
                if r.chance(1, 3) { out.extend_from_slice(*r.pick(&[&b"\"a\""[..], b"\"b\"", b"\"\\u0061\"", b"\"\""])); } else { out.extend_from_slice(&gen_string_text(r)); }
                ws(r, out); out.push(b':'); ws(r, out);
                gen_doc_into(r, depth - 1, out); ws(r, out);
            }
            out.push(b'}');
        }
    }
}

pub fn gen_doc(r: &mut Rng, depth: usize) -> Vec<u8> {
    let mut out = vec![];
    ws(r, &mut out);
    gen_doc_into(r, depth, &mut out);
    ws(r, &mut out);
    out
}

/// single-byte substitution / insertion / deletion, or a structural mutation
pub fn mutate(doc: &[u8], r: &mut Rng) -> Vec<u8> {
    let mut d = doc.to_vec();
    let alpha: &[u8] = b"[]{},:\" \n\\u0e-+.1x\x01\x7f\xc3\xa9\x80/tn";
    match r.below(6) {
        0 if !d.is_empty() => { let i = r.below(d.len()); d.remove(i); }
        1 => { let i = r.below(d.len() + 1); d.insert(i, *r.pick(alpha)); }
        2 if !d.is_empty() => { let i = r.below(d.len()); d[i] = *r.pick(alpha); }
        3 if !d.is_empty() => { let i = r.below(d.len()); d.truncate(i); }
        4 if d.len() > 1 => { let i = r.below(d.len() - 1); d.swap(i, i + 1); }
        _ => { let i = r.below(d.len() + 1); let t = tokens(); let tok = r.pick(&t).clone(); for (k, b) in tok.iter().enumerate() { d.insert(i + k, *b); } }
    }
    d
}

pub fn chunk_sizes(r: &mut Rng) -> Vec<usize> {
    match r.below(4) { 0 => vec![1], 1 => vec![1 + r.below(9)], 2 => (0..4).map(|_| 1 + r.below(9)).collect(), _ => vec![] }
}
